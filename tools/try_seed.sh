#!/bin/sh
# usage: tools/try_seed.sh <patch.diff> <ID> [<ID>...]   - apply to /repo, run quick checks, always undo
P="$1"; shift
cd /repo || exit 9
if ! git diff --quiet; then echo "REPO DIRTY - abort"; exit 9; fi
git apply "$P" 2>/dev/null || patch -p1 --fuzz=3 -s --no-backup-if-mismatch < "$P" || { echo "PATCH DOES NOT APPLY: $P"; git checkout -- .; git clean -fdq; exit 8; }
for id in "$@"; do
  out=$(cd /verif && VERIF_EVIDENCE_DIR=/tmp/seed_evidence bin/vcheck "$id" --tier ${TIER:-quick} 2>&1); rc=$?
  echo "== $id rc=$rc"
  echo "$out" | grep -E "VIOLATION|ANALYSIS-ERROR|^\[$id\] R-" | head -${LINES_MAX:-6}
done
git -C /repo checkout -- . && git -C /repo clean -fdq && git -C /repo status --short | head -3
