#!/usr/bin/env python3
"""usage: tools/import_seeds.py <srcdir>=<seedid> ...   Confirms each seeded change in a scratch worktree of /repo HEAD
(demo passes without it; with it the 135 tests pass and the demo fails), then stores patch (re-diffed against HEAD), demo, notes and meta.json
under /verif/seeded/<seedid>/.  Nothing is ever applied to /repo itself."""
import json, os, re, shutil, subprocess, sys
from concurrent.futures import ThreadPoolExecutor
V = os.path.dirname(os.path.dirname(os.path.abspath(__file__)))
HEAD = subprocess.run(["git", "-C", "/repo", "rev-parse", "--short", "HEAD"], capture_output=True, text=True).stdout.strip()

def sh(cmd, cwd=None):
    return subprocess.run(cmd, shell=True, cwd=cwd, capture_output=True, text=True)

def one(arg):
    src, sid = arg.split("=")
    wt = f"/tmp/cs/{sid}"
    os.makedirs("/tmp/cs", exist_ok=True)
    sh(f"git -C /repo worktree remove --force {wt}")
    if sh(f"git -C /repo worktree add -q --detach {wt} HEAD").returncode:
        return sid, "worktree failed"
    try:
        shutil.copy(f"{src}/demo.py", f"{wt}/_demo.py")
        clean = sh("/venv/bin/python _demo.py", wt).returncode
        ap = sh(f"git apply {src}/patch.diff || patch -p1 --fuzz=3 -s --no-backup-if-mismatch < {src}/patch.diff", wt)
        if ap.returncode:
            return sid, "patch does not apply: " + (ap.stderr + ap.stdout)[-200:]
        t = sh("/venv/bin/python -m pytest -q -p no:cacheprovider -x tests", wt)
        summary = t.stdout.strip().splitlines()[-1] if t.stdout.strip() else ""
        seeded = sh("/venv/bin/python _demo.py", wt).returncode
        os.remove(f"{wt}/_demo.py")
        diff = sh("git add -A && git diff --cached HEAD", wt).stdout
        verdict = f"demo_clean_rc={clean} tests_rc={t.returncode} demo_seeded_rc={seeded} [{summary}]"
        if clean != 0 or t.returncode != 0 or seeded == 0:
            return sid, "NOT CONFIRMED " + verdict
        dst = os.path.join(V, "seeded", sid)
        os.makedirs(dst, exist_ok=True)
        open(f"{dst}/patch.diff", "w").write(diff)
        shutil.copy(f"{src}/demo.py", f"{dst}/demo.py")
        notes = open(f"{src}/notes.md").read()
        shutil.copy(f"{src}/notes.md", f"{dst}/notes.md")
        title = notes.strip().splitlines()[0].lstrip("# ").strip()
        paras = [p.strip() for p in re.split(r"\n(?=- |\n)", notes) if re.search(r"manifest|only when|only for|needs|trigger", p, re.I)]
        meta = {"seed": sid, "breaks_property": sid[:3], "title": title,
                "needs_to_manifest": " ".join(" ".join(paras[:2]).split()) if paras else " ".join(notes.split())[:600],
                "confirmed": {"by": f"tools/import_seeds.py in a scratch worktree of /repo HEAD ({HEAD})", "test_suite_with_change": summary, "demo_without_change_rc": clean, "demo_with_change_rc": seeded,
                              "commands": ["git -C /repo worktree add --detach /tmp/cs/<id> HEAD", "/venv/bin/python _demo.py   # clean: rc 0", "git apply patch.diff", "/venv/bin/python -m pytest -q -p no:cacheprovider -x tests",
                                           "/venv/bin/python _demo.py   # seeded: rc != 0", "git -C /repo worktree remove --force /tmp/cs/<id>"]},
                "origin": "written by a fresh sub-agent that saw only the property text, one-line titles of the earlier seeds for that property, and its own scratch worktree"}
        json.dump(meta, open(f"{dst}/meta.json", "w"), indent=1)
        return sid, "confirmed " + verdict
    finally:
        sh(f"git -C /repo worktree remove --force {wt}")

with ThreadPoolExecutor(10) as ex:
    for sid, msg in ex.map(one, sys.argv[1:]):
        print(sid, msg, flush=True)
