"""Source of truth for MANIFEST.json (run tools/gen_manifest.py after editing)."""
SOURCE_COMMITS = ["472f3d5", "0f80483", "29ef46c", "c52c224", "5831e59", "4bfa3bb", "c9eab00", "798134f", "ff9c3a5", "316695c", "6704cd2", "92e5086", "0feff27", "e17b02d", "a0ca575", "825bf70", "59e6984", "cabaf56", "8639232", "f1c6cb0", "790b4f3", "0e82b18", "c0a5f23", "52469a7", "5ae6534", "526b433", "3f99433", "e608a53", "680702b", "7b7a320", "1389807", "ba1d3d1", "3043b4a"]   # all "fix:" commits (no hooks)
NOTES = ("Static analysis only. Every check parses /repo's working tree with Python's ast module (and re._parser for "
         "regular-expression syntax trees) and never imports or runs pycparser. Exit 0 ok / 1 VIOLATION / 2 ANALYSIS-ERROR "
         "(fail closed). Known genuine defects are listed in known_findings.json and printed as KNOWN-FINDING lines.")
ENGINES = [
    {"name": "E0 srcmodel", "path": "sa/srcmodel.py", "serves_properties": ["C01", "C06", "C09", "C10", "C12", "C13", "C14", "C15", "C16", "C17", "C18"],
     "kind_free_text": "ast-based program model, module-level constant folder"},
    {"name": "E5 stateflow", "path": "sa/stateflow.py", "serves_properties": ["C12", "C13", "C17"],
     "kind_free_text": "write-effect / ownership / alias analysis"},
    {"name": "E5b taint", "path": "sa/taint.py", "serves_properties": ["C17"],
     "kind_free_text": "forward information-flow analysis with tuple/collection shapes and interprocedural summaries"},
    {"name": "E2 rxmodel/lexmodel", "path": "sa/rxmodel.py, sa/lexmodel.py", "serves_properties": ["C06", "C09", "C10", "C16", "C18"],
     "kind_free_text": "regex syntax trees -> ordered Thompson NFA -> leftmost-first DFA (model of re backtracking), tokeniser automaton, reference C99 lexical languages, EDA ambiguity analysis"},
    {"name": "E1 rdmodel/grammar", "path": "sa/rdmodel.py, sa/grammar.py, sa/e1.py", "serves_properties": ["C01", "C06", "C16", "C18"],
     "kind_free_text": "abstract interpreter of the recursive-descent parser over the token-stream-effect domain: per-production event automata, FIRST/FIRST2, Dyck balance, progress, memoised recogniser"},
    {"name": "E1b wiring", "path": "sa/wiring.py, sa/wirecheck.py, sa/wiring_ref.json", "serves_properties": ["C02", "C03", "C04", "C05", "C08", "C11"],
     "kind_free_text": "flow-sensitive reaching definitions over the structured AST: provenance of every constructor argument, return and list append; compared with a reviewed reference in rename-invariant normal form"},
    {"name": "reference grammar", "path": "sa/refgrammar.py", "serves_properties": ["C01"],
     "kind_free_text": "independent EBNF transcription of ISO C99 Annex A.2 (+ documented C11), derivation-covering sentence generator"},
    {"name": "E3 genmodel", "path": "sa/genmodel.py", "serves_properties": ["C07", "C08"],
     "kind_free_text": "model of the C generator: per-field emission idioms, parenthesisation predicates evaluated over finite (class, operator, configuration) domains, grammar-level lattice"},
    {"name": "E6 hdrscan", "path": "sa/hdrscan.py", "serves_properties": ["C19"],
     "kind_free_text": "static scanner of the fake header tree as a preprocessor program (include graph, guards, presence conditions, macro tables) + model-based tokeniser"},
    {"name": "E4 astspec", "path": "sa/astspec.py", "serves_properties": ["C07", "C14", "C15"],
     "kind_free_text": "AST specification reader and node-class shape extractor"},
]
CHECKS = [
    {"id": "C01", "engine": "E0+E1+E2+refgrammar", "level": "other",
     "text": "Grammar conformance on the model extracted from the parser source by abstract interpretation: exact vocabulary and token-type closure; FIRST-based guard adequacy at every decision point of every production clone "
             "(no token a called production can start with is rejected by the guards on all paths); inclusion of an independently transcribed ISO C99 Annex A.2 (+ documented C11) grammar in the extracted model, decided on a "
             "derivation-covering set of ~30k (thorough ~46k) reference sentences by a memoised recogniser over the extracted automata with exact mark/reset semantics. Also: the scanning loop skips exactly C99's white-space characters (R-C01.8).",
     "design_ref": "DESIGN.md section 3, C01 and Appendix A",
     "note": "Inclusion is decided on the covering sentence set, not for all sentences (CFG inclusion is undecidable); semantic predicates are free choices, so the model may over-accept but never under-accepts; agreement with gcc is not decided; the reference EBNF is a trusted reading of ISO C.",
     "technique": "grammar extraction by abstract interpretation + FIRST/LL guard analysis + bounded reference-grammar inclusion with a recogniser over the extracted automata"},
    {"id": "C02", "engine": "E0+E1+E1b", "level": "other",
     "text": "The folded precedence table is compared with C99's ten levels on all operator pairs; the precedence-climbing loop is recognised relationally (strict comparisons = left associativity, recursion arguments); "
             "every constructor site, return and list append of the 18 expression productions is compared, in rename-invariant def-use normal form, with a reviewed reference that encodes which operand is parsed at which grammar level.",
     "design_ref": "DESIGN.md section 3, C02 and Appendix B",
     "note": "sa/wiring_ref.json is a reviewed snapshot (record by record against C99 6.5); a refactoring that moves constructor calls into new helpers needs a re-review (reported as ANALYSIS-ERROR, not as a pass). Run-time tree equality is not executed.",
     "technique": "constant folding + relational schema recognition + flow-sensitive def-use (reaching definitions) wiring comparison"},
    {"id": "C03", "engine": "E1+E1b", "level": "other",
     "text": "Def-use wiring of all declaration / declarator / struct / enum / initialiser productions and declaration builders against the reviewed reference (pointer nesting, suffix order, inside-out call protocol, field-from-same-named-list), "
             "plus per-branch rules on the two specifier loops (kind matches token table, append=True, saw_type recorded) and their sibling agreement. The splice loops are not proved for arbitrary derivation sequences. Also: specifier conservation - every kind of specifier C allows in a context reaches the node built there (R-C03.4).",
     "design_ref": "DESIGN.md section 3, C03",
     "note": "Partial: heap-shape correctness of _type_modify_decl / _fix_decl_name_type / fix_atomic_specifiers for unbounded chains would need shape analysis (not claimed).",
     "technique": "flow-sensitive def-use wiring comparison + sibling cross-check of the specifier loops"},
    {"id": "C04", "engine": "E0+E1+E1b", "level": "other",
     "text": "Scope typestate (who may push/pop, callbacks fire exactly on braces), innermost-first lookup rule, identifier classification order in the lexer, and the registration table (which call site registers which names as typedef / identifier, "
             "parameters only when a body follows) decided structurally. The timing clause is decided on the event automata of the parser (E1): no token that follows a declarator is consumed before that declarator's name is registered (R-C04.6), "
             "and no selection / iteration statement registers a name outside the brace pairs it consumes (R-C04.7); the violations that exist today are known findings D35 / D40.",
     "design_ref": "DESIGN.md section 3, C04 and 11.10",
     "note": "The order of consumption and registration is decided per production clone on the extracted automata; the exact moment at which the lexer classifies a buffered look-ahead token (one token of look-ahead) is approximated by the consumption of the token before it.",
     "technique": "typestate / who-may-call rules + structural loop rule + def-use wiring of registration sites + path analysis (declarator - consumption - registration order, brace depth) on the extracted event automata"},
    {"id": "C05", "engine": "E1+E1b", "level": "other",
     "text": "Def-use wiring of the 19 statement-level productions and of the switch-regrouping transform against the reviewed reference (else binds to the nearest if, single-statement bodies, for-clauses in order, block items appended in source order, "
             "one Pragma per directive from its own token); Case/Default class tests agree; per-path append count of the regrouping loop is exactly one. Also: the switch regrouping looks through every wrapper class the labeled-statement productions can put around a case label (R-C05.7).",
     "design_ref": "DESIGN.md section 3, C05",
     "note": "Run-time tree equality is not executed; sa/wiring_ref.json reviewed against C99 6.8.",
     "technique": "flow-sensitive def-use wiring comparison + linearity (append-count) analysis"},
    {"id": "C11", "engine": "E1+E1b", "level": "other",
     "text": "Every node of the classes named by the property is built with a non-None coordinate; the provenance of every coord argument (105 sites) and of every error location equals the reviewed reference (spelling token for names/constants, a token of the construct otherwise); "
             "line, column and file are stamped on tokens at lex time only in _make_token and _tok_coord uses exactly those.",
     "design_ref": "DESIGN.md section 3, C11",
     "note": "Equality with an independent re-lexing of concrete inputs is not executed; lexer position bookkeeping itself is C09.",
     "technique": "def-use provenance of coordinate arguments + structural rules on token stamping"},
    {"id": "C06", "engine": "E0+E1+E2", "level": "other",
     "text": "Exception-escape analysis over the 137 functions reachable from CParser.parse: every raise is the ParseError channel or proved dead (match exhaustiveness; finite "
             "abstract evaluation of _parse_constant over the tokeniser model's suffix windows); every assert is discharged automatically by the grammar model or by a named, recorded argument; "
             "None-dereferences are searched on every path of the extracted grammar automata; attribute reads on specifier-list elements are checked against the class set stored there; constant-index "
             "subscripts need a guard or a recorded argument; every _parse_error call site passes a real location; termination by absence of left recursion and token progress of every loop.",
     "design_ref": "DESIGN.md section 3, C06",
     "note": "Recorded arguments (ASSERT_ARGUMENTS / PARTIAL_ARGUMENTS / HETERO_ARGUMENTS in sa/props/c06.py) are trusted readings, one construct each; RecursionError is tolerated by the property; interpreter-level exceptions (MemoryError) out of scope.",
     "technique": "exception-escape / effect analysis on ast + abstract interpretation of the parser (grammar automata) + regex automata"},
    {"id": "C07", "engine": "E0+E3+E4+E1b", "level": "other",
     "text": "Structural clauses of the round trip, decided on the generator source: the generator's precedence map and the parser's table induce the same weak order; for every operand slot and every expression class that binds looser than "
             "the level at which the parser parses that slot, the visitor's emission idiom parenthesises the child (finite evaluation of the parenthesisation predicates, both reduce_parentheses configurations); every class that can be an "
             "expression statement is terminated; every node class has a visitor that reads every field the parser can fill; the declarator inversion of _generate_type has the inside-out shape; prefix operators are never fused with an operand starting with the same character. Also: fields that can hold a GNU statement expression are printed through _visit_expr (R-C07.8); qualifiers kept only in Decl.quals are printed or mirrored (R-C07.4).",
     "design_ref": "DESIGN.md section 3, C07 and Appendix B",
     "note": "Equality of two run-time ASTs and text idempotence are not executed; 9 genuine generator defects (D7, D8 family) are recorded as known findings; whitespace/indentation text is not modelled.",
     "technique": "custom ast lint of the generator: emission-idiom extraction + finite abstract evaluation of parenthesisation predicates against the parser's grammar levels"},
    {"id": "C08", "engine": "E1+E1b+E3", "level": "other",
     "text": "Structural necessary conditions only: must-use dataflow over every parser production (a production result or information-carrying token bound to a variable flows into the tree on every path to every return - token conservation); "
             "the generator's emission-completeness and grouping obligations of C07; sibling designator alternatives are distinguishable; specifier nodes are attached to one parent.",
     "design_ref": "DESIGN.md section 3, C08",
     "note": "That a C compiler produces identical code for the regenerated text is NOT decided (needs the compiler; no static argument in reach). 11 genuine defects (D7, D8 family, D10, D11) are recorded as known findings.",
     "technique": "must-use (liveness-style) dataflow on the structured ast + generator emission lint + class-set disjointness of sibling alternatives"},
    {"id": "C09", "engine": "E0+E2", "level": "other",
     "text": "On the tokeniser function model built from the regex syntax trees and the fixed-token table: maximal munch for ALL strings (product of the leftmost-first DFA with the subset DFA of the union of all rules and punctuators), "
             "every C99 punctuator lexes to its own token, bucket discipline, classification order keyword -> typedef -> ID, symbolic evaluation of the cursor code across newlines (line start / line number), progress of every scanning loop, "
             "and sibling agreement of the hand-written directive scanners. Also: the #line scanner accepts every digit sequence (language inclusion on the automaton of its numeric patterns, R-C09.8) and every find() result is checked against -1 before use.",
     "design_ref": "DESIGN.md section 3, C09",
     "note": "Python's re is modelled by an ordered-NFA leftmost-first automaton (cross-checked during development, trusted at check time); losslessness of whitespace/comments is by the property's own exclusion of blanks.",
     "technique": "regex syntax trees -> automata (leftmost-first DFA vs. longest-match subset DFA product) + symbolic evaluation of the lexer's cursor arithmetic"},
    {"id": "C10", "engine": "E0+E2", "level": "other",
     "text": "Exact language comparison for strings of every length: the tokeniser function (leftmost-first model of the master regex composed with the fixed-token scan) is compared by automata "
             "products with reference C99 6.4.4/6.4.5 languages (lower bound, per named part) and the documented lenient languages (upper bound); malformed-literal languages must reach ERROR rules; "
             "constant typing is decided by evaluating _parse_constant on the finite abstraction (class x last-three-characters window) computed from the same automaton. Also: the documented lenient extension is a lower bound too (Lenient_K subset of Lex_K).",
     "design_ref": "DESIGN.md section 3, C10 and Appendix D",
     "note": "Assumes Python's re implements ordered alternation / greedy repetition / 1-char negative look-ahead as modelled (cross-checked once against re on 300k random strings during development, not at check time); reference languages are my reading of C99.",
     "technique": "regular-language inclusion on DFAs built from re._parser syntax trees (leftmost-first determinisation) + finite abstract evaluation"},
    {"id": "C16", "engine": "E0+E1+E2", "level": "other",
     "text": "Decides the structural causes of super-linear work: (1) no lexer regular expression has exponential or polynomial (infinite) degree of ambiguity (SCC criterion on the squared, Weber-Seidl criterion on the cubed look-ahead-exact NFA); (2) every token is "
             "lexed once (append-only buffer, reset only moves an index, the lexer is re-initialised only by parse); (3) no discarded speculation that parsed a production is followed by a re-parse of the same tokens "
             "on a path that can still succeed while the region can re-enter itself, and no bracket-skipping look-ahead scan is repeated per nesting level; (4) no loop re-copies or re-traverses what its earlier iterations built (loop-carried strings / lists, deep copies, containers grown and walked in the same loop). Measured work is not claimed.",
     "design_ref": "DESIGN.md section 3, C16",
     "note": "Step counts are run-time quantities and are not measured; the quadratic constructs that exist today (declarator suffix chains, adjacent string literals, the declarator-name scan) are known findings D22a-c.",
     "technique": "ambiguity analysis of regex NFAs (EDA / IDA) + abstract interpretation of speculative (mark/reset) regions with FIRST_2 feasibility + loop-carried-value lint"},
    {"id": "C18", "engine": "E1+E2", "level": "proof",
     "text": "Proof by induction over derivations: each of the ~96 production automata extracted from the parser source consumes only Dyck-balanced, correctly paired words over ()[]{} (nonterminals counted as balanced); "
             "parse() returns only with look-ahead = end of input; speculation is consumption-neutral (every reset targets a mark of the same path, the bracket-skipping scan runs only under mark/reset); '#' tokens are never consumed "
             "on a path that can succeed; non-token text and comment openers reach the error callback, which never returns. Hence no input with unbalanced or mis-paired brackets, stray characters or other directives is accepted.",
     "design_ref": "DESIGN.md section 3, C18",
     "note": "Trusted: the E1 abstract interpreter (helper inlining, look-ahead facts); semantic predicates are free choices, i.e. the model over-approximates the parser's paths, which is the sound direction for this property.",
     "technique": "abstract interpretation of the recursive-descent parser to per-production automata + Dyck (bracket) check with bounded stack"},
    {"id": "C12", "engine": "E0+E5", "level": "other",
     "text": "Reset-dominance and effect analysis: the computed inventory of per-parse instance state (attributes written or mutated "
             "outside __init__) is re-initialised with fresh values on every path of CParser.parse / CLexer.input before parsing starts; "
             "CGenerator.indent_level is balanced on every normal path of every method; no AST node lives in shared state; no "
             "non-deterministic input. Decides 'no state survives a call'; equality of two concrete results is not executed.",
     "design_ref": "DESIGN.md section 3, C12",
     "note": "Assumes CPython determinism; a failed parse may leave garbage that the next call overwrites (the rule relies on re-initialisation, not clean-up).",
     "technique": "reset-dominance (must-assign) + write-effect inventory + structured balance analysis (custom ast checker)"},
    {"id": "C14", "engine": "E4", "level": "other",
     "text": "(Not claimed as a proof of the whole property: the traversal clause has known findings D31 / D32 - nodes kept in plain attributes.) Exhaustive obligation table: each of the 49 classes of _c_ast.cfg x (existence, __init__, __slots__, attr_names, children(), "
             "__iter__, no extra members) is compared with the class shape extracted from c_ast.py; plus template-structure obligations on "
             "_ast_gen.py and dispatch / recursion-shape obligations on NodeVisitor.visit, generic_visit and Node.show. Visit counts on concrete "
             "trees follow by induction on the tree. Also: __iter__ returns an iterator (generator function or iter(...)).",
     "design_ref": "DESIGN.md section 3, C14",
     "note": "Trusted: the checker's independent reader of _c_ast.cfg; emission forms outside the recognised templates are reported as ANALYSIS-ERROR, not as a pass.",
     "technique": "specification-vs-class-shape comparison over the ast (exhaustive table of obligations)"},
    {"id": "C15", "engine": "E4", "level": "other",
     "text": "Protocol-precondition analysis: the slice of __slots__ that Node.__repr__ prints is matched against every class's __slots__ and __init__ "
             "(eval(repr(x)) can rebuild x); default slot-based copy/pickle applies to every node class (no custom hooks, well-formed slots, module-level "
             "classes, all slots initialised) and Coord stays a plain module-level dataclass. Byte-level behaviour of pickle/eval/deepcopy is delegated to the builtins.",
     "design_ref": "DESIGN.md section 3, C15",
     "note": "Trusted: builtin repr/eval/pickle/copy implement their documented protocols; string contents are delegated to repr().",
     "technique": "class-shape / protocol-hook analysis over the ast"},
    {"id": "C17", "engine": "E5b", "level": "other",
     "text": "Non-interference analysis: position information (token line/column, lexer line/file bookkeeping, Coord objects, .coord reads) is shown to flow "
             "only into coord arguments, .coord stores, token position fields and error messages - never into a branch condition, another node field, the "
             "scan cursor or generated text; the lexer's white-space / newline / #line paths write only cursor and position state.",
     "design_ref": "DESIGN.md section 3, C17",
     "note": "Flow-insensitive per function (a variable is position-dependent if any assignment to it is); #pragma text is line-oriented and outside the quantifier.",
     "technique": "forward information-flow (taint) analysis with interprocedural summaries + write-effect check of layout paths"},
    {"id": "C13", "engine": "E0+E5", "level": "proof",
     "text": "Ownership proof: every write effect of every function in the package is shown not to reach module-level, "
             "class-level, default-argument or imported-module state; with per-instance state only, no schedule of "
             "separate instances can make them interact. Also: shared objects placed inside a fresh container bound to an instance attribute are tracked with their depth.",
     "design_ref": "DESIGN.md section 3, C13",
     "note": "Assumes CPython byte-code atomicity for thread-private objects; alias analysis is flow-insensitive may-alias "
             "inside a function; callers' own arguments are not shared state.",
     "technique": "write-effect and may-alias ownership analysis over the ast (custom checker)"},
    {"id": "C19", "engine": "E6+E1+E2+E0", "level": "other",
     "text": "The 129 shipped headers are analysed as a preprocessor program without running cpp: include closure under cpp's search order, include guards around every file with declarations, no conditional on a dialect-dependent macro and no identifier "
             "that only the GNU dialects predefine, every header alone and every ordered pair (thorough: triples and all permutations of the non-stub files) is a sequence of complete declarations accepted by the grammar model extracted from the parser, "
             "tokenised by the tokeniser model, with identifiers classified by the type names declared so far under their presence conditions; no cross-file macro capture; every declared type name stays usable; symbolic evaluation of the cpp command line "
             "for the three argument forms; parse_file(use_cpp=True) is structurally parser.parse(preprocess_file(filename, cpp_path, cpp_args), filename). Also: every public header reaches the central typedef list; no #if operand is a macro defined with an empty body.",
     "design_ref": "DESIGN.md section 3, C19",
     "note": "cpp and parse_file are never run: cpp's documented behaviour (search order, expansion, predefined macros per dialect) is trusted; acceptance by the grammar model is necessary, not sufficient, for acceptance by the parser (semantic predicates are free choices); "
             "run-time equality with a by-hand pipeline is not executed.",
     "technique": "static analysis of the header tree as a preprocessor program + model-based recognition of its declarations + symbolic evaluation of the command-line assembly"},
]
_PENDING = "checker not yet built in this session (see DESIGN.md section 7 build order); no claim is made"
NOT_APPLICABLE = [{"property_id": f"C{i:02d}", "reason": _PENDING} for i in range(1, 20) if f"C{i:02d}" not in {c["id"] for c in CHECKS}]

# rules added after the texts above were written (DESIGN.md 11.10 / 11.11)
_ALSO = {
    "C01": " Lexer state written while scanning is re-initialised by input() (R-C01.9, borrowed from R-C09.7).",
    "C02": " Expression slots of statements take the reviewed grammar level (R-C02.5); integer / float suffixes are read over the whole suffix (R-C02.6, borrowed from R-C10.3).",
    "C03": " Specifier conservation per builder and node class (R-C03.4); comprehensions are compared structurally in the wiring normal form.",
    "C04": " Scope tables are written by the two registration helpers only (R-C04.1 write inventory); names are registered before the next token that can use them (R-C04.6) and never outside the braces of their own statement (R-C04.7).",
    "C05": " The regrouping admits every block-item class (R-C05.2), searches every wrapper class (R-C05.7); context flags nest (R-C05.8).",
    "C06": " Scanner loops terminate at end of input (R-C06.5, borrowed from R-C09.5/6); error coordinates come from nodes that have one (R-C06.4, borrowed from R-C11.6/7).",
    "C07": " Only the reviewed statement classes end themselves (R-C07.3 own-terminator clause); statement expressions keep their parentheses (R-C07.8).",
    "C08": " Re-reports the declarator parenthesisation rule R-C07.5 and the expression wiring R-C02.1-3.",
    "C09": " Loop guards that the empty slice satisfies also test the bound; the identifier pattern stays inside the reference language (upper bound borrowed from C10).",
    "C12": " No module-level mutable object flows into a tree or into parser state, dict(BASE, ...) copies included (R-C12.3).",
    "C15": " The generator reads nothing that repr() does not print (R-C15.5, borrowed from R-C17.4).",
    "C16": " No chain walk to the tail inside the loop that extends the chain; no rescan of a grown container (R-C16.5); polynomial ambiguity of every pattern (R-C16.1).",
    "C17": " Layout taint flows through slice bounds (R-C17.2); grouping of expressions is C's (R-C17.6, borrowed from R-C02.3).",
    "C18": " Rejection is by ParseError and nothing else (R-C18.7, borrowed from C06); the skipped characters are exactly C's white space (R-C18.5).",
}
for _c in CHECKS:
    if _c["id"] in _ALSO:
        _c["text"] = _c["text"].rstrip() + _ALSO[_c["id"]]
