"""Source of truth for MANIFEST.json (run tools/gen_manifest.py after editing)."""
SOURCE_COMMITS = []
NOTES = ("Static analysis only. Every check parses /repo's working tree with Python's ast module (and re._parser for "
         "regular-expression syntax trees) and never imports or runs pycparser. Exit 0 ok / 1 VIOLATION / 2 ANALYSIS-ERROR "
         "(fail closed). Known genuine defects are listed in known_findings.json and printed as KNOWN-FINDING lines.")
ENGINES = [
    {"name": "E0 srcmodel", "path": "sa/srcmodel.py", "serves_properties": ["C12", "C13", "C14", "C15", "C17"],
     "kind_free_text": "ast-based program model, module-level constant folder"},
    {"name": "E5 stateflow", "path": "sa/stateflow.py", "serves_properties": ["C12", "C13", "C17"],
     "kind_free_text": "write-effect / ownership / alias analysis"},
    {"name": "E5b taint", "path": "sa/taint.py", "serves_properties": ["C17"],
     "kind_free_text": "forward information-flow analysis with tuple/collection shapes and interprocedural summaries"},
    {"name": "E4 astspec", "path": "sa/astspec.py", "serves_properties": ["C14", "C15"],
     "kind_free_text": "AST specification reader and node-class shape extractor"},
]
CHECKS = [
    {"id": "C12", "engine": "E0+E5", "level": "other",
     "text": "Reset-dominance and effect analysis: the computed inventory of per-parse instance state (attributes written or mutated "
             "outside __init__) is re-initialised with fresh values on every path of CParser.parse / CLexer.input before parsing starts; "
             "CGenerator.indent_level is balanced on every normal path of every method; no AST node lives in shared state; no "
             "non-deterministic input. Decides 'no state survives a call'; equality of two concrete results is not executed.",
     "design_ref": "DESIGN.md section 3, C12",
     "note": "Assumes CPython determinism; a failed parse may leave garbage that the next call overwrites (the rule relies on re-initialisation, not clean-up).",
     "technique": "reset-dominance (must-assign) + write-effect inventory + structured balance analysis (custom ast checker)"},
    {"id": "C14", "engine": "E4", "level": "proof",
     "text": "Exhaustive obligation table: each of the 49 classes of _c_ast.cfg x (existence, __init__, __slots__, attr_names, children(), "
             "__iter__, no extra members) is compared with the class shape extracted from c_ast.py; plus template-structure obligations on "
             "_ast_gen.py and dispatch / recursion-shape obligations on NodeVisitor.visit, generic_visit and Node.show. Visit counts on concrete "
             "trees follow by induction on the tree.",
     "design_ref": "DESIGN.md section 3, C14",
     "note": "Trusted: the checker's independent reader of _c_ast.cfg; emission forms outside the recognised templates are reported as ANALYSIS-ERROR, not as a pass.",
     "technique": "specification-vs-class-shape comparison over the ast (exhaustive table of obligations)"},
    {"id": "C15", "engine": "E4", "level": "other",
     "text": "Protocol-precondition analysis: the slice of __slots__ that Node.__repr__ prints is matched against every class's __slots__ and __init__ "
             "(eval(repr(x)) can rebuild x); default slot-based copy/pickle applies to every node class (no custom hooks, well-formed slots, module-level "
             "classes, all slots initialised) and Coord stays a plain module-level dataclass. Byte-level behaviour of pickle/eval/deepcopy is delegated to the builtins.",
     "design_ref": "DESIGN.md section 3, C15",
     "note": "Trusted: builtin repr/eval/pickle/copy implement their documented protocols; string contents are delegated to repr().",
     "technique": "class-shape / protocol-hook analysis over the ast"},
    {"id": "C17", "engine": "E5b", "level": "other",
     "text": "Non-interference analysis: position information (token line/column, lexer line/file bookkeeping, Coord objects, .coord reads) is shown to flow "
             "only into coord arguments, .coord stores, token position fields and error messages - never into a branch condition, another node field, the "
             "scan cursor or generated text; the lexer's white-space / newline / #line paths write only cursor and position state.",
     "design_ref": "DESIGN.md section 3, C17",
     "note": "Flow-insensitive per function (a variable is position-dependent if any assignment to it is); #pragma text is line-oriented and outside the quantifier.",
     "technique": "forward information-flow (taint) analysis with interprocedural summaries + write-effect check of layout paths"},
    {"id": "C13", "engine": "E0+E5", "level": "proof",
     "text": "Ownership proof: every write effect of every function in the package is shown not to reach module-level, "
             "class-level, default-argument or imported-module state; with per-instance state only, no schedule of "
             "separate instances can make them interact.",
     "design_ref": "DESIGN.md section 3, C13",
     "note": "Assumes CPython byte-code atomicity for thread-private objects; alias analysis is flow-insensitive may-alias "
             "inside a function; callers' own arguments are not shared state.",
     "technique": "write-effect and may-alias ownership analysis over the ast (custom checker)"},
]
_PENDING = "checker not yet built in this session (see DESIGN.md section 7 build order); no claim is made"
NOT_APPLICABLE = [{"property_id": f"C{i:02d}", "reason": _PENDING} for i in range(1, 20) if f"C{i:02d}" not in {c["id"] for c in CHECKS}]
