"""Source of truth for MANIFEST.json (run tools/gen_manifest.py after editing)."""
SOURCE_COMMITS = []
NOTES = ("Static analysis only. Every check parses /repo's working tree with Python's ast module (and re._parser for "
         "regular-expression syntax trees) and never imports or runs pycparser. Exit 0 ok / 1 VIOLATION / 2 ANALYSIS-ERROR "
         "(fail closed). Known genuine defects are listed in known_findings.json and printed as KNOWN-FINDING lines.")
ENGINES = [
    {"name": "E0 srcmodel", "path": "sa/srcmodel.py", "serves_properties": ["C13"],
     "kind_free_text": "ast-based program model, module-level constant folder"},
    {"name": "E5 stateflow", "path": "sa/stateflow.py", "serves_properties": ["C13"],
     "kind_free_text": "write-effect / ownership / alias analysis"},
]
CHECKS = [
    {"id": "C13", "engine": "E0+E5", "level": "proof",
     "text": "Ownership proof: every write effect of every function in the package is shown not to reach module-level, "
             "class-level, default-argument or imported-module state; with per-instance state only, no schedule of "
             "separate instances can make them interact.",
     "design_ref": "DESIGN.md section 3, C13",
     "note": "Assumes CPython byte-code atomicity for thread-private objects; alias analysis is flow-insensitive may-alias "
             "inside a function; callers' own arguments are not shared state.",
     "technique": "write-effect and may-alias ownership analysis over the ast (custom checker)"},
]
_PENDING = "checker not yet built in this session (see DESIGN.md section 7 build order); no claim is made"
NOT_APPLICABLE = [{"property_id": f"C{i:02d}", "reason": _PENDING} for i in range(1, 20) if f"C{i:02d}" not in {c["id"] for c in CHECKS}]
