#!/bin/sh
# run every claimed check (quick tier by default) in parallel; print one line per check
cd "$(dirname "$0")/.."
TIER=${1:-quick}
ids=$(python3 -c "import json;print(' '.join(c['property_id'] for c in json.load(open('MANIFEST.json'))['checks']))")
for id in $ids; do
  ( out=$(bin/vcheck $id --tier $TIER 2>&1); rc=$?; echo "$id rc=$rc $(echo "$out" | grep -a -c '^KNOWN-FINDING') known $(echo "$out" | grep -a -c '^VIOLATION') viol $(echo "$out" | grep -a 'tier=' | sed 's/.*wall=//')" ) &
done
wait
