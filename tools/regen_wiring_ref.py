#!/usr/bin/env python3
"""Regenerate sa/wiring_ref.json from the current /repo tree.  ONLY after reviewing every changed record against C99 semantics
(DESIGN.md Appendix B / section 3): the file is the frozen, reviewed reference the C02/C03/C05/C11 checks compare with."""
import json, os, sys
HERE = os.path.dirname(os.path.dirname(os.path.abspath(__file__)))
sys.path.insert(0, HERE)
from sa import wirecheck  # noqa: E402
cur = wirecheck.current(for_reference=True)
with open(wirecheck.REF_PATH, "w") as f:
    json.dump(cur, f, indent=1, sort_keys=True)
print("written", wirecheck.REF_PATH, len(cur), "methods")
