#!/bin/sh
# usage: tools/confirm_seed.sh <seed dir with patch.diff + demo.py> <name>
# In a scratch worktree of /repo's HEAD: demo passes without the change; with it the test suite passes and the demo fails.  Prints one line.
D="$1"; N="$2"; WT=/tmp/cs/$N
mkdir -p /tmp/cs; git -C /repo worktree remove --force "$WT" >/dev/null 2>&1
git -C /repo worktree add -q --detach "$WT" HEAD || { echo "$N worktree-failed"; exit 9; }
cd "$WT" || exit 9
cp "$D/demo.py" "$WT/_demo.py"
/venv/bin/python _demo.py >/tmp/cs/$N.clean.log 2>&1; clean=$?
if git apply "$D/patch.diff" 2>/dev/null || patch -p1 --fuzz=3 -s --no-backup-if-mismatch < "$D/patch.diff" >/dev/null 2>&1; then applied=yes; else applied=no; fi
/venv/bin/python -m pytest -q -p no:cacheprovider -x tests >/tmp/cs/$N.tests.log 2>&1; tests=$?
/venv/bin/python _demo.py >/tmp/cs/$N.seeded.log 2>&1; seeded=$?
summary=$(tail -1 /tmp/cs/$N.tests.log)
cd /; git -C /repo worktree remove --force "$WT"
echo "$N applied=$applied demo_clean_rc=$clean tests_rc=$tests demo_seeded_rc=$seeded [$summary]"
