#!/usr/bin/env python3
"""Regenerates the machine-derived tables of DESIGN.md (between <!-- BEGIN GENERATED:name --> / <!-- END GENERATED:name --> markers)
from evidence/*.json (rules and instance counts of the last run), seeded/*/meta.json + seeded/MATRIX.json and known_findings.json."""
import json, os, re, glob
V = os.path.dirname(os.path.dirname(os.path.abspath(__file__)))

def rules_table():
    out = ["| property | rule | what it decides | instances (quick tier, current tree) | violations listed as known findings |", "|---|---|---|---|---|"]
    for f in sorted(glob.glob(os.path.join(V, "evidence", "C*.json"))):
        ev = json.load(open(f))
        pid = ev["property_id"]
        for rid, r in sorted(ev["coverage"].get("rules", {}).items()):
            out.append(f"| {pid} | {rid} | {r.get('text','').replace('|','/')} | {r['instances']} | {r['violations']} |")
    return "\n".join(out)

def seeds_table():
    mx = json.load(open(os.path.join(V, "seeded", "MATRIX.json")))
    out = ["| seed | breaks | change (one line) | what it needs to manifest | own check: rules that fire | other checks that fire |", "|---|---|---|---|---|---|"]
    for sid in sorted(mx):
        meta = json.load(open(os.path.join(V, "seeded", sid, "meta.json")))
        res = mx[sid]
        own = sid[:3]
        if "error" in res:
            out.append(f"| {sid} | {own} | {meta['title']} | | matrix error: {res['error'][:60]} | |")
            continue
        ownr = res.get(own, {})
        ownt = ", ".join(ownr.get("rules", [])) if ownr.get("rc") == 1 else ("ANALYSIS-ERROR" if ownr.get("rc") == 2 else "**missed**")
        others = ", ".join(f"{c} ({', '.join(r['rules'])})" for c, r in sorted(res.items()) if c != own and r["rc"] == 1)
        needs = meta["needs_to_manifest"].replace("|", "/").replace("\n", " ")
        needs = (needs[:260] + " ...") if len(needs) > 260 else needs
        title = re.sub(r"^C\d\d ?/ ?[a-d]\d? ?[-–—:]* ?", "", meta["title"]).replace("|", "/")
        out.append(f"| {sid} | {own} | {title} | {needs} | {ownt} | {others} |")
    return "\n".join(out)

def findings_table():
    k = json.load(open(os.path.join(V, "known_findings.json")))
    out = ["| property | rule | construct key | what fails | demonstrating input |", "|---|---|---|---|---|"]
    for f in k["findings"]:
        out.append(f"| {f['property']} | {f['rule']} | `{f['key'][:70]}` | {f['what'][:300].replace('|','/')} | `{f.get('input','')[:90].replace('|','/')}` |")
    fx = ["| property | fix commit in /repo | rule that found it / what failed |", "|---|---|---|"]
    for line in k["fixed"]:
        m = re.match(r"fixed: property=(\S+) (\S+) (.*)", line)
        fx.append(f"| {m.group(1)} | {m.group(2)} | {m.group(3)[:400].replace('|','/')} |")
    return "\n".join(out), "\n".join(fx)

def silent_table():
    out = ["| variant | refactoring | checks that stay silent |", "|---|---|---|"]
    mp = os.path.join(V, "silent", "MATRIX.json")
    mx = json.load(open(mp)) if os.path.exists(mp) else {}
    lp = os.path.join(V, "silent", "KNOWN_LIMITS.json")
    limits = {k: v for k, v in (json.load(open(lp)) if os.path.exists(lp) else {}).items() if not k.startswith("_")}

    def key(d):
        m = re.match(r"R(\d+)-(\d+)", os.path.basename(os.path.dirname(d)))
        return (int(m.group(1)), int(m.group(2))) if m else (999, 0)
    for f in sorted(glob.glob(os.path.join(V, "silent", "*", "meta.json")), key=key):
        meta = json.load(open(f))
        sid = meta["variant"]
        title = meta["title"].replace("|", "/")
        lim = limits.get(sid)
        out.append(f"| {sid} | {title[:150]} | " + ("all 19 (re-run by `bin/vcheck selftest`)" if not lim else f"all but {', '.join(lim['checks'])} - known limit: {lim['why'][:160]}") + " |")
    return "\n".join(out)

def main():
    p = os.path.join(V, "DESIGN.md")
    s = open(p).read()
    kf, fx = findings_table()
    for name, body in (("rules", rules_table()), ("seeds", seeds_table()), ("known", kf), ("fixed", fx), ("silent", silent_table())):
        a, b = f"<!-- BEGIN GENERATED:{name} -->", f"<!-- END GENERATED:{name} -->"
        if a not in s:
            print("marker missing:", name); continue
        s = s[:s.index(a) + len(a)] + "\n" + body + "\n" + s[s.index(b):]
    open(p, "w").write(s)
    print("DESIGN.md tables regenerated")
main()
