#!/usr/bin/env python3
"""usage: tools/mkvariant.py <silent-name | R<k>-<n> | seed-id> <dst>   materialise one self-test variant (scratch copy of /repo's pycparser + utils) for investigation"""
import os, subprocess, sys
V = os.path.dirname(os.path.dirname(os.path.abspath(__file__)))
sys.path.insert(0, V)
from sa import selftest as T  # noqa: E402
name, dst = sys.argv[1:3]
subprocess.run(["rm", "-rf", dst])
T._copy_repo(dst)
if name in T.SILENT:
    T.SILENT[name](dst)
else:
    for d in ("silent", "seeded"):
        pd = os.path.join(V, d, name, "patch.diff")
        if os.path.isfile(pd):
            r = subprocess.run(["patch", "-p1", "-s", "--no-backup-if-mismatch", "-i", pd], cwd=dst)
            sys.exit(r.returncode)
    sys.exit("unknown variant " + name)
