#!/usr/bin/env python3
"""Run every check of MANIFEST.json against every seeded change, each in its own scratch worktree of /repo's HEAD
(VERIF_REPO points the checks at the worktree), and write seeded/MATRIX.json.   usage: tools/seed_matrix.py [seed-id ...]"""
import json, os, subprocess, sys, shutil, re
from concurrent.futures import ThreadPoolExecutor
V = os.path.dirname(os.path.dirname(os.path.abspath(__file__)))
SEEDS = os.path.join(V, "seeded")
ids = sys.argv[1:] or sorted(d for d in os.listdir(SEEDS) if os.path.isdir(os.path.join(SEEDS, d)))
checks = [c["property_id"] for c in json.load(open(os.path.join(V, "MANIFEST.json")))["checks"]]

def one(sid):
    wt = f"/tmp/sm/{sid}"
    subprocess.run(["git", "-C", "/repo", "worktree", "remove", "--force", wt], capture_output=True)
    os.makedirs("/tmp/sm", exist_ok=True)
    subprocess.run(["git", "-C", "/repo", "worktree", "add", "-q", "--detach", wt, "HEAD"], check=True)
    res = {}
    try:
        r = subprocess.run(["git", "apply", os.path.join(SEEDS, sid, "patch.diff")], cwd=wt, capture_output=True, text=True)
        if r.returncode:
            return sid, {"error": "patch does not apply: " + r.stderr[:200]}
        env = dict(os.environ, VERIF_REPO=wt, VERIF_EVIDENCE_DIR=f"/tmp/sm/ev_{sid}", VERIF_REPLAY_DIR=f"/tmp/sm/rp_{sid}")
        for c in checks:
            p = subprocess.run([os.path.join(V, "bin", "vcheck"), c], cwd=V, env=env, capture_output=True, text=True)
            rules = sorted(set(re.findall(r"^\[%s\] (R-[A-Z0-9.]+)" % c, p.stdout, re.M)))
            known = set(re.findall(r"^KNOWN-FINDING: property=%s (R-[A-Z0-9.]+)" % c, p.stdout, re.M))
            res[c] = {"rc": p.returncode, "rules": [r_ for r_ in rules] if p.returncode == 1 else [], "error": p.stdout.strip().splitlines()[-1][:200] if p.returncode == 2 else None}
    finally:
        subprocess.run(["git", "-C", "/repo", "worktree", "remove", "--force", wt], capture_output=True)
        shutil.rmtree(f"/tmp/sm/ev_{sid}", ignore_errors=True); shutil.rmtree(f"/tmp/sm/rp_{sid}", ignore_errors=True)
    return sid, res

out = {}
path = os.path.join(SEEDS, "MATRIX.json")
if os.path.exists(path) and sys.argv[1:]:
    out = json.load(open(path))
with ThreadPoolExecutor(12) as ex:
    for sid, res in ex.map(one, ids):
        out[sid] = res
        if "error" in res:
            print(sid, "ERROR", res["error"]); continue
        own = sid[:3]
        caught = [c for c, r in res.items() if r["rc"] == 1]
        broken = [c for c, r in res.items() if r["rc"] not in (0, 1)]
        print(f"{sid}: own check {'CATCHES' if own in caught else 'MISSES '}; caught by {caught}" + (f"; analysis-error in {broken}" if broken else ""), flush=True)
json.dump(out, open(path, "w"), indent=1, sort_keys=True)
