#!/usr/bin/env python3
"""Write one prompt per property for a fresh adversarial sub-agent (round N): property text + one-line titles of earlier seeds only.
usage: tools/gen_seed_prompts.py <round> <letters e.g. gh> <outdir-prompts> <outdir-seeds>"""
import json, os, sys, glob, re
rnd, letters, pdir, sdir = sys.argv[1:5]
V = os.path.dirname(os.path.dirname(os.path.abspath(__file__)))
props = [json.loads(l) for l in open(os.path.join(V, "properties.jsonl")) if l.strip()]
os.makedirs(pdir, exist_ok=True)
a, b = letters
for p in props:
    pid = p["id"]
    wt = f"/tmp/wt/{pid}r{rnd}"
    titles = []
    for m in sorted(glob.glob(os.path.join(V, "seeded", pid + "?", "meta.json"))):
        t = json.load(open(m)).get("title", "")
        t = re.sub(r"^C\d\d\s*/\s*\w+\s*[-:]\s*", "", t)
        titles.append("   - " + t)
    txt = f"""You are helping evaluate a verification framework for the Python library pycparser (eliben/pycparser, version 3.00: a hand-written recursive-descent C parser, regex lexer, C code generator). Your job is to act as a careful adversary: produce realistic code changes ("seeded defects") that BREAK one stated semantic property of the library while the library still imports and its existing test suite still passes completely.

You have your own scratch git worktree of the repository at {wt} (work ONLY there; never touch /repo, never read or write anything under /verif). Python to use: /venv/bin/python. Run the test-suite with:
    cd {wt} && /venv/bin/python -m pytest -q -p no:cacheprovider
(running from that directory makes the worktree's pycparser package the one imported; verify with `/venv/bin/python -c "import pycparser; print(pycparser.__file__)"` from that directory). The sandbox has no network.

THE PROPERTY (id {pid}): {p.get('title','')}
Statement: {p.get('statement','')}
Quantifier: {p['quantifier']['text']}
Why the existing tests cannot settle it: {p['why_tests_cant']}
Code anchors (where the mechanism lives): {json.dumps(p['anchors'].get('mechanism', []))}
State anchors: {json.dumps(p['anchors'].get('state', []))}


EARLIER ROUNDS: other adversaries already produced the following changes for this property. Yours must be DIFFERENT in mechanism and place (do not redo these ideas or close variations of them). Look for clauses of the property statement, code anchors, sibling functions and cooperating sites that none of these touch; subtle changes that preserve the "shape" of the code (a changed constant, comparison, slice bound, operand order, condition, default argument, regular-expression detail, table entry, a removed or widened guard, a swapped pair of arguments, an early return, a value computed from the wrong variable of the same type) are especially welcome, and so are changes OUTSIDE the listed anchors that still break the stated behaviour (a helper the anchors rely on, a base class, a module-level table, a default):
{chr(10).join(titles)}
Note that the repository HEAD in your worktree already contains a number of small bug fixes relative to the 3.00 release; treat HEAD as the original code. If, while exploring, you notice that the UNMODIFIED HEAD already violates the property for some input, do not use it as a seed, but report it briefly at the end of your answer (input and observed behaviour).

TASK: produce TWO independent, different changes (call them {a} and {b}) to the library source (files under pycparser/ or utils/fake_libc_include/, not the tests), each of which:
 1. breaks the property above (a real behavioural violation of the statement, not just a style change);
 2. still imports/compiles and passes the ENTIRE existing test suite (all 135 tests) unchanged;
 3. is realistic - the kind of slip or plausible-looking "refactor"/"optimisation"/"cleanup" a maintainer could actually commit (an off-by-one, a dropped case, a wrong table entry, a reordered statement, a changed comparison, a cache added, a helper simplified...), small (a few lines), and NOT flagged by any comment;
 4. needs something SPECIFIC to manifest: an unusual input, a particular combination of constructs, a multi-step sequence of operations, a particular interleaving, or two cooperating sites that each look fine alone. Do NOT produce changes that ordinary everyday use would expose at once.
 The two changes should touch different mechanisms / different places in the code if at all possible.

For each change X in {{{a}, {b}}} write into {sdir}/{pid}/X/ :
  - patch.diff : produced with `git -C {wt} diff` (unified diff relative to the unmodified HEAD, applying cleanly with `git apply` at the repository root; ONLY that one change in it);
  - demo.py : a small stand-alone program, run as `cd <repo root> && /venv/bin/python demo.py`-style with the repo root as the working directory (it must import pycparser from the current directory), which exits 0 (prints PASS) on the ORIGINAL code and exits 1 (prints FAIL and why) on the changed code. It should check the property's behaviour, not the text of the source;
  - notes.md : 5-10 lines: what was changed and why it is plausible, exactly which input/sequence makes it manifest, why the existing tests do not notice.
Procedure for each change: make the edit in the worktree; run the full test suite (must be all green); run demo.py (must FAIL); save the diff; then `git -C {wt} checkout -- .` to restore the tree; run demo.py again (must PASS). Do change {a}, restore, then change {b}, restore. Leave the worktree clean (git status empty) at the end. Do not commit anything.

Report back briefly: for each of {a} and {b}, one paragraph with the file/function changed, the triggering input, and confirmation of the three runs (tests green with change, demo fails with change, demo passes without).
"""
    open(os.path.join(pdir, pid + ".txt"), "w").write(txt)
print("wrote", len(props), "prompts to", pdir)
