#!/usr/bin/env python3
"""usage: tools/import_silent.py <area dir with equiv.py and N/patch.diff, N/notes.md> <prefix>
Confirms every behaviour-preserving refactoring in a scratch worktree of /repo HEAD (the repository's tests pass with it and the digest printed by
the author's equiv.py is byte-identical before and after), stores it under /verif/silent/<prefix><N>/, then runs all checks on it (expected: every rc 0)."""
import json, os, re, shutil, subprocess, sys, hashlib
from concurrent.futures import ThreadPoolExecutor
V = os.path.dirname(os.path.dirname(os.path.abspath(__file__)))
HEAD = subprocess.run(["git", "-C", "/repo", "rev-parse", "--short", "HEAD"], capture_output=True, text=True).stdout.strip()
src, prefix = sys.argv[1], sys.argv[2]
checks = [c["property_id"] for c in json.load(open(os.path.join(V, "MANIFEST.json")))["checks"]]

def sh(cmd, cwd=None, env=None):
    return subprocess.run(cmd, shell=True, cwd=cwd, capture_output=True, text=True, env=env)

def one(n):
    sid = f"{prefix}{n}"
    d = os.path.join(src, n)
    wt = f"/tmp/cs/{sid}"
    os.makedirs("/tmp/cs", exist_ok=True)
    sh(f"git -C /repo worktree remove --force {wt}")
    if sh(f"git -C /repo worktree add -q --detach {wt} HEAD").returncode:
        return sid, "worktree failed", {}
    try:
        shutil.copy(os.path.join(src, "equiv.py"), f"{wt}/_equiv.py")
        base = sh("/venv/bin/python _equiv.py", wt)
        ap = sh(f"git apply {d}/patch.diff || patch -p1 --fuzz=3 -s --no-backup-if-mismatch < {d}/patch.diff", wt)
        if ap.returncode:
            return sid, "patch does not apply", {}
        t = sh("/venv/bin/python -m pytest -q -p no:cacheprovider -x tests", wt)
        summary = t.stdout.strip().splitlines()[-1] if t.stdout.strip() else ""
        after = sh("/venv/bin/python _equiv.py", wt)
        os.remove(f"{wt}/_equiv.py")
        same = base.returncode == 0 and after.returncode == 0 and base.stdout == after.stdout and len(base.stdout) > 1000
        if t.returncode or not same:
            return sid, f"NOT CONFIRMED tests_rc={t.returncode} digest_same={same} (baseline rc={base.returncode} {len(base.stdout)} bytes, after rc={after.returncode} {len(after.stdout)} bytes) [{summary}]", {}
        diff = sh("git add -A && git diff --cached HEAD", wt).stdout
        res = {}
        env = dict(os.environ, VERIF_REPO=wt, VERIF_EVIDENCE_DIR=f"/tmp/cs/ev_{sid}", VERIF_REPLAY_DIR=f"/tmp/cs/rp_{sid}")
        for c in checks:
            p = subprocess.run([os.path.join(V, "bin", "vcheck"), c], cwd=V, env=env, capture_output=True, text=True)
            msg = [l for l in p.stdout.splitlines() if l.startswith(("ANALYSIS-ERROR", f"[{c}] R-"))][:2]
            res[c] = {"rc": p.returncode, "first": [m[:300] for m in msg]}
        dst = os.path.join(V, "silent", sid)
        os.makedirs(dst, exist_ok=True)
        open(f"{dst}/patch.diff", "w").write(diff)
        shutil.copy(f"{d}/notes.md", f"{dst}/notes.md")
        shutil.copy(os.path.join(src, "equiv.py"), f"{dst}/equiv.py")
        notes = open(f"{d}/notes.md").read()
        meta = {"variant": sid, "kind": "behaviour-preserving refactoring", "title": notes.strip().splitlines()[0].lstrip("# ").strip(),
                "confirmed": {"by": f"tools/import_silent.py in a scratch worktree of /repo HEAD ({HEAD})", "test_suite_with_change": summary,
                              "behaviour_digest": f"equiv.py output byte-identical before and after ({len(base.stdout)} bytes, sha1 {hashlib.sha1(base.stdout.encode()).hexdigest()[:12]})"},
                "origin": "written by a fresh sub-agent that saw only its task text and its own scratch worktree"}
        json.dump(meta, open(f"{dst}/meta.json", "w"), indent=1)
        bad = {c: r for c, r in res.items() if r["rc"] != 0}
        return sid, "confirmed; " + ("ALL CHECKS SILENT" if not bad else "ALARMS: " + json.dumps(bad)[:900]), res
    finally:
        sh(f"git -C /repo worktree remove --force {wt}")
        shutil.rmtree(f"/tmp/cs/ev_{sid}", ignore_errors=True); shutil.rmtree(f"/tmp/cs/rp_{sid}", ignore_errors=True)

ns = sorted(n for n in os.listdir(src) if os.path.isfile(os.path.join(src, n, "patch.diff")))
out = {}
mp = os.path.join(V, "silent", "MATRIX.json")
if os.path.exists(mp):
    out = json.load(open(mp))
with ThreadPoolExecutor(int(os.environ.get("JOBS", "5"))) as ex:
    for sid, msg, res in ex.map(one, ns):
        print(sid, msg, flush=True)
        if res:
            out[sid] = res
os.makedirs(os.path.join(V, "silent"), exist_ok=True)
json.dump(out, open(mp, "w"), indent=1, sort_keys=True)
