#!/usr/bin/env python3
"""Regenerate /verif/MANIFEST.json from the table below (keeps it schema-valid)."""
import json, os, sys
HERE = os.path.dirname(os.path.dirname(os.path.abspath(__file__)))
sys.path.insert(0, HERE)
from tools.manifest_table import CHECKS, NOT_APPLICABLE, ENGINES, NOTES, SOURCE_COMMITS  # noqa: E402

BASE = ("cd /repo && /venv/bin/python -m pytest -ra -q -p no:cacheprovider --timeout=900 "
        "--continue-on-collection-errors")
m = {
    "version": 1,
    "setup_cmd": "true",
    "hooks": {
        "guard": "PYCPARSER_VERIF",
        "enable": "no source hooks exist: the checks are static analyses that read /repo's working tree and never import it; the guard names nothing in the "
                  "code. source_commits lists the unguarded 'fix:' commits (repairs of genuine defects), which are the only changes made to /repo",
        "baseline_off_cmd": BASE,
        "source_commits": SOURCE_COMMITS,
        "add_only": True,     # vacuously: there are no hook patches (the fix: commits listed above do rewrite lines, as repairs must)
    },
    "engines": ENGINES,
    "checks": [],
    "notes": NOTES,
    "not_applicable": NOT_APPLICABLE,
}
for c in CHECKS:
    pid = c["id"]
    m["checks"].append({
        "property_id": pid,
        "quick_cmd": f"bin/vcheck {pid} --tier quick",
        "thorough_cmd": f"bin/vcheck {pid} --tier thorough",
        "evidence_file": f"/verif/evidence/{pid}.json",
        "replay_cmd_template": f"bin/vcheck {pid} --replay {{path}}",
        "engine": c["engine"],
        "level_claimed": {"category": c["level"], "text": c["text"], "design_ref": c["design_ref"]},
        "level_note": c["note"],
        "technique": c["technique"],
    })
with open(os.path.join(HERE, "MANIFEST.json"), "w") as f:
    json.dump(m, f, indent=1)
print("MANIFEST.json written:", len(m["checks"]), "checks,", len(m["not_applicable"]), "not applicable")
