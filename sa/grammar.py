"""Grammar-level analyses over the automata extracted by E1 (rdmodel).

Each production clone becomes a clean automaton with single-event edges:
  ('t', typeset)                 consume one token of that type set
  ('c', prodkey, la1, la2)       call of a production, with the look-ahead facts known at the call
  None                           epsilon (guards live in the node's look-ahead facts)
Speculative segments that end in reset(mark) are replaced by a jump from the mark's node.
"""
from __future__ import annotations

from collections import deque

from . import rdmodel as RD
from .core import AnalysisError

EOF = RD.EOF
OPEN = {"LPAREN": "RPAREN", "LBRACKET": "RBRACKET", "LBRACE": "RBRACE"}
CLOSE = {v: k for k, v in OPEN.items()}


class PA:
    def __init__(self, key):
        self.key = key
        self.n = 0
        self.la = []            # node -> (la1, la2) | None
        self.line = []
        self.edges = []         # (src, ev, dst, ann) ann = tuple of annotation events attached before ev
        self.start = 0
        self.finals = {}        # node -> return value
        self.errors = set()
        self.raises = []        # (node, text, line)
        self.spec = []          # speculative segments: (origin, events erased, line)
        self.out = {}

    def add_node(self, la, line):
        self.la.append(la)
        self.line.append(line)
        self.n += 1
        return self.n - 1

    def index(self):
        self.out = {}
        self.inn = {}
        for i, (s, ev, d, ann) in enumerate(self.edges):
            self.out.setdefault(s, []).append(i)
            self.inn.setdefault(d, []).append(i)

    def live_nodes(self):
        """Nodes reachable from start and co-reachable to a normal return."""
        fw = {self.start}
        dq = deque([self.start])
        while dq:
            x = dq.popleft()
            for i in self.out.get(x, []):
                d = self.edges[i][2]
                if d not in fw:
                    fw.add(d)
                    dq.append(d)
        bw = set(self.finals)
        dq = deque(bw)
        while dq:
            x = dq.popleft()
            for i in self.inn.get(x, []):
                s = self.edges[i][0]
                if s not in bw:
                    bw.add(s)
                    dq.append(s)
        return fw & bw, fw


class Grammar:
    def __init__(self, ex: RD.Extractor):
        self.ex = ex
        self.U = ex.U
        self.pa: dict[tuple, PA] = {}
        for key, prod in ex.prods.items():
            self.pa[key] = self._convert(prod)
        self._first = None
        self._nullable = None

    # ------------------------------------------------------------------
    def _convert(self, prod: RD.Prod) -> PA:
        pa = PA(prod.key)
        for info in prod.node_info:
            pa.add_node(info.get("la"), info.get("line", 0))
        pa.start = prod.start
        pa.finals = dict(prod.returns)
        pa.errors = set(prod.error_nodes)
        # raw form for the recogniser: speculation kept as ('m', origin) / ('r', origin) pseudo events
        pa.redges = []
        pa.rn = len(prod.node_info)
        for e in prod.edges:
            cur = e.src
            seq = []
            for ev in e.events:
                if ev[0] == "consume":
                    seq.append(("t", ev[1]))
                elif ev[0] == "call":
                    seq.append(("c", (ev[1], ev[2]), ev[3][0], ev[3][1]))
                elif ev[0] == "mark":
                    seq.append(("m", ev[1]))
                elif ev[0] == "reset":
                    seq.append(("r", ev[1]))
                elif ev[0] == "guard":
                    seq.append(("g", ev[1][0], ev[1][1]))
            if not seq:
                pa.redges.append((cur, None, e.dst))
            for j, ev in enumerate(seq):
                last = j == len(seq) - 1
                if last:
                    dst = e.dst
                else:
                    dst = pa.rn
                    pa.rn += 1
                pa.redges.append((cur, ev, dst))
                cur = dst
        pa.rout = {}
        for i, (s_, ev, d) in enumerate(pa.redges):
            pa.rout.setdefault(s_, []).append(i)
        for e in prod.edges:
            events = list(e.events)
            src = e.src
            # speculative segments: ... ('mark', o) ... ('reset', o) ...
            while True:
                idx = next((j for j, ev in enumerate(events) if ev[0] == "reset"), None)
                if idx is None:
                    break
                origin = events[idx][1]
                erased = events[:idx]
                rstack = events[idx][2] if len(events[idx]) > 2 else ()
                pa.spec.append({"origin": origin, "erased": tuple(erased), "src": src, "reset_stack": rstack, "dst": e.dst,
                                "mark_stack": next((ev[2] for ev in erased if ev[0] == "mark" and len(ev) > 2), None),
                                "rest": tuple(events[idx + 1:])})
                # a mark taken in this very edge must come before any consumption of the edge
                if origin == src:
                    pass
                src = origin
                events = events[idx + 1:]
            cur = src
            ann = []
            seq = []
            for ev in events:
                k = ev[0]
                if k == "consume":
                    seq.append((("t", ev[1]), tuple(ann), ev[2]))
                    ann = []
                elif k == "call":
                    seq.append((("c", (ev[1], ev[2]), ev[3][0], ev[3][1]), tuple(ann), ev[4]))
                    ann = []
                elif k == "raise":
                    pa.raises.append((e.dst, ev[1], ev[2]))
                    ann.append(ev)
                else:
                    ann.append(ev)
            if not seq:
                pa.edges.append((cur, None, e.dst, tuple(ann)))
                continue
            for j, (ev, a, line) in enumerate(seq):
                last = j == len(seq) - 1
                dst = e.dst if last else pa.add_node(None, line)
                pa.edges.append((cur, ev, dst, a + (tuple(ann) if last else ())))
                cur = dst
        pa.index()
        return pa

    # ------------------------------------------------------------------
    def first_sets(self):
        """nullable / FIRST_1 of every production clone (guards honoured through the consume sets and call facts)."""
        if self._first is not None:
            return self._nullable, self._first
        nullable = {k: False for k in self.pa}
        first = {k: set() for k in self.pa}
        changed = True
        while changed:
            changed = False
            for k, pa in self.pa.items():
                live, _ = pa.live_nodes()
                # epsilon-reachability from start through eps edges and nullable calls
                seen = {pa.start}
                dq = deque([pa.start])
                f = set()
                nul = False
                while dq:
                    x = dq.popleft()
                    if x in pa.finals:
                        nul = True
                    for i in pa.out.get(x, []):
                        s, ev, d, _ = pa.edges[i]
                        if d not in live:
                            continue
                        if ev is None:
                            nxt = True
                        elif ev[0] == "t":
                            f |= set(ev[1])
                            nxt = False
                        else:
                            ck = ev[1]
                            f |= (first.get(ck, set()) & set(ev[2]))
                            nxt = nullable.get(ck, False)
                        if nxt and d not in seen:
                            seen.add(d)
                            dq.append(d)
                if nul and not nullable[k]:
                    nullable[k] = True
                    changed = True
                if not f <= first[k]:
                    first[k] |= f
                    changed = True
        self._nullable, self._first = nullable, first
        return nullable, first

    def first2(self):
        """FIRST_2: for every production clone the set of <=2-token prefixes of the words it can consume
        (() = it can consume nothing, (t,) = it can consume exactly the one token t)."""
        if getattr(self, "_first2", None) is not None:
            return self._first2
        F = {k: set() for k in self.pa}
        live = {k: pa.live_nodes()[0] for k, pa in self.pa.items()}
        changed = True
        rounds = 0
        while changed:
            changed = False
            rounds += 1
            if rounds > 60:
                raise AnalysisError("FIRST_2 computation does not converge")
            for k, pa in self.pa.items():
                lv = live[k]
                if pa.start not in lv:
                    continue
                seen = {(pa.start, ())}
                dq = deque(seen)
                out = set()
                while dq:
                    x, p = dq.popleft()
                    if len(p) == 2:
                        out.add(p)
                        continue
                    if x in pa.finals:
                        out.add(p)
                    for i in pa.out.get(x, []):
                        s_, ev, d, _ = pa.edges[i]
                        if d not in lv:
                            continue
                        if ev is None:
                            nxt = [p]
                        elif ev[0] == "t":
                            nxt = [p + (t,) for t in ev[1]]
                        else:
                            ck, l1, l2 = ev[1], ev[2], ev[3]
                            nxt = []
                            for q in F.get(ck, ()):
                                if len(p) == 0:
                                    if (len(q) >= 1 and q[0] not in l1) or (len(q) >= 2 and q[1] not in l2):
                                        continue
                                elif len(p) == 1:
                                    if len(q) >= 1 and q[0] not in l1:
                                        continue
                                nxt.append((p + q)[:2])
                        for p2 in nxt:
                            if (d, p2) not in seen:
                                seen.add((d, p2))
                                dq.append((d, p2))
                if not out <= F[k]:
                    F[k] |= out
                    changed = True
        self._first2 = F
        return F

    def feasible(self, key):
        """Edge indices of production `key` that are not call edges made under look-ahead facts (on the next two tokens)
        with which the callee cannot start."""
        if not hasattr(self, "_feasible"):
            self._feasible = {}
        if key in self._feasible:
            return self._feasible[key]
        F = self.first2()
        pa = self.pa[key]
        ok = set()
        for i, (s, ev, d, _) in enumerate(pa.edges):
            if ev is not None and ev[0] == "c":
                ck, l1, l2 = ev[1], ev[2], ev[3]
                if ck in self.pa:
                    good = False
                    for q in F[ck]:
                        if len(q) == 0 or (q[0] in l1 and (len(q) == 1 or q[1] in l2)):
                            good = True
                            break
                    if not good:
                        continue
            ok.add(i)
        self._feasible[key] = ok
        return ok

    def can_return_from(self, key, node):
        pa = self.pa[key]
        ok = self.feasible(key)
        seen = {node}
        dq = deque([node])
        while dq:
            x = dq.popleft()
            if x in pa.finals:
                return True
            for i in pa.out.get(x, []):
                if i in ok and pa.edges[i][2] not in seen:
                    seen.add(pa.edges[i][2])
                    dq.append(pa.edges[i][2])
        return False

    def first_of_name(self, name):
        _, first = self.first_sets()
        out = set()
        for (n, sig), f in first.items():
            if n == name:
                out |= f
        return out

    # ------------------------------------------------------------------
    def balance(self, key):
        """Dyck check of one production automaton: returns list of problems [(kind, node, detail)]."""
        pa = self.pa[key]
        live, _ = pa.live_nodes()
        problems = []
        if pa.start not in live:
            return problems
        stack_at = {pa.start: ()}
        dq = deque([pa.start])
        while dq:
            x = dq.popleft()
            st = stack_at[x]
            if x in pa.finals and st != ():
                problems.append(("returns with open brackets", x, st))
            for i in pa.out.get(x, []):
                s, ev, d, _ = pa.edges[i]
                if d not in live:
                    continue
                ns = st
                if ev is not None and ev[0] == "t":
                    ts = set(ev[1])
                    br = ts & (set(OPEN) | set(CLOSE))
                    if br and len(ts) > 1:
                        problems.append(("untyped consumption may take a bracket", x, tuple(sorted(ts))[:6]))
                        continue
                    if br:
                        t = next(iter(br))
                        if t in OPEN:
                            ns = st + (t,)
                        else:
                            if not st or st[-1] != CLOSE[t]:
                                problems.append(("closing bracket does not match", x, (st, t)))
                                continue
                            ns = st[:-1]
                if d in stack_at:
                    if stack_at[d] != ns:
                        problems.append(("paths reach the same point with different open brackets", d, (stack_at[d], ns)))
                else:
                    if len(ns) > 12:
                        problems.append(("unbounded bracket depth in a loop", d, ns))
                        continue
                    stack_at[d] = ns
                    dq.append(d)
        return problems

    # ------------------------------------------------------------------
    def progress_problems(self):
        """Left recursion (call cycles without consumption) and loops whose iterations may consume nothing."""
        nullable, _ = self.first_sets()
        problems = []
        # left-call graph
        left = {}
        for k, pa in self.pa.items():
            live, _ = pa.live_nodes()
            seen = {pa.start}
            dq = deque([pa.start])
            lc = set()
            while dq:
                x = dq.popleft()
                for i in pa.out.get(x, []):
                    s, ev, d, _ = pa.edges[i]
                    if d not in live:
                        continue
                    if ev is None:
                        nxt = True
                    elif ev[0] == "t":
                        nxt = False
                    else:
                        lc.add(ev[1])
                        nxt = nullable.get(ev[1], False)
                    if nxt and d not in seen:
                        seen.add(d)
                        dq.append(d)
            left[k] = lc
        # cycle detection
        color = {}
        def dfs(k, path):
            color[k] = 1
            for c in left.get(k, ()):
                if c not in self.pa:
                    continue
                if color.get(c) == 1:
                    problems.append(("left recursion", k, path + [c]))
                elif c not in color:
                    dfs(c, path + [c])
            color[k] = 2
        import sys
        sys.setrecursionlimit(10000)
        for k in self.pa:
            if k not in color:
                dfs(k, [k])
        # epsilon cycles inside one production (a loop iteration that can consume nothing)
        for k, pa in self.pa.items():
            live, _ = pa.live_nodes()
            adj = {}
            for s, ev, d, ann in pa.edges:
                if s in live and d in live:
                    eps = ev is None or (ev[0] == "c" and nullable.get(ev[1], False))
                    if any(a[0] == "foriter" for a in ann):
                        eps = False   # iteration over a finite Python list built earlier
                    if eps:
                        adj.setdefault(s, []).append(d)
            col = {}
            for root in list(adj):
                if root in col:
                    continue
                stack = [(root, iter(adj.get(root, ())))]
                col[root] = 1
                while stack:
                    v, it = stack[-1]
                    adv = False
                    for w in it:
                        if col.get(w) == 1:
                            problems.append(("loop iteration may consume no token", k, pa.line[w]))
                        elif w not in col:
                            col[w] = 1
                            stack.append((w, iter(adj.get(w, ()))))
                            adv = True
                            break
                    if not adv:
                        col[v] = 2
                        stack.pop()
        return problems

    # ------------------------------------------------------------------
    def token_types_used(self):
        used = set()
        for pa in self.pa.values():
            live, fw = pa.live_nodes()
            for s, ev, d, _ in pa.edges:
                if ev is not None and ev[0] == "t" and d in live:
                    used |= set(ev[1])
        return used


class Recognizer:
    """Memoised nondeterministic recogniser over the extracted automata (semantic predicates = free choices).

    accepts(prodkey, tokens) is True iff some path of the extracted model consumes exactly the token-type sequence.
    """

    def __init__(self, g: Grammar):
        self.g = g

    def accepts(self, key, toks):
        toks = tuple(toks)
        memo = {}
        n = len(toks)

        def la_ok(la, pos):
            if la is None:
                return True
            t1 = toks[pos] if pos < n else EOF
            t2 = toks[pos + 1] if pos + 1 < n else EOF
            return t1 in la[0] and t2 in la[1]

        def ends(k, pos, depth=0):
            mk = (k, pos)
            if mk in memo:
                return memo[mk]
            memo[mk] = set()      # cycle guard (no left recursion expected)
            pa = self.g.pa[k]
            res = set()
            seen = set()
            stack = [(pa.start, pos, ())]
            while stack:
                cfg = stack.pop()
                if cfg in seen:
                    continue
                seen.add(cfg)
                x, p, marks = cfg
                if x < pa.n and not la_ok(pa.la[x], p):
                    continue
                if x in pa.finals:
                    res.add(p)
                for i in pa.rout.get(x, []):
                    s, ev, d = pa.redges[i]
                    if ev is None:
                        stack.append((d, p, marks))
                    elif ev[0] == "t":
                        if p < n and toks[p] in ev[1]:
                            stack.append((d, p + 1, marks))
                    elif ev[0] == "m":
                        stack.append((d, p, tuple(sorted(dict(marks, **{ev[1]: p}).items())) if False else tuple(sorted({**dict(marks), ev[1]: p}.items()))))
                    elif ev[0] == "g":
                        if la_ok((ev[1], ev[2]), p):
                            stack.append((d, p, marks))
                    elif ev[0] == "r":
                        mp = dict(marks).get(ev[1])
                        if mp is not None:
                            stack.append((d, mp, marks))
                    else:
                        t1 = toks[p] if p < n else EOF
                        t2 = toks[p + 1] if p + 1 < n else EOF
                        if t1 in ev[2] and t2 in ev[3] and ev[1] in self.g.pa:
                            for q in ends(ev[1], p, depth + 1):
                                stack.append((d, q, marks))
            memo[mk] = res
            return res

        return n in ends(key, 0)
