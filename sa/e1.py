"""Shared, per-process cached access to the E1 extraction of CParser."""
from __future__ import annotations

from . import grammar as GR
from . import rdmodel as RD

ROOTS = ("parse", "_lex_error_func", "_lex_on_lbrace_func", "_lex_on_rbrace_func", "_lex_type_lookup_func")
_cache = {}


def get():
    if "g" not in _cache:
        ex = RD.Extractor()
        roots = tuple(r for r in ROOTS if r in ex.methods)
        if "parse" not in roots:
            from .core import AnalysisError
            raise AnalysisError("anchor CParser.parse vanished")
        ex.run(roots=roots)
        _cache["ex"] = ex
        _cache["g"] = GR.Grammar(ex)
    return _cache["ex"], _cache["g"]


def sig_text(key):
    name, sig = key
    if not sig:
        return name
    return name + "(" + ", ".join(f"{p}={'?' if v == '?' else v[1] if v[0] == 'o' else repr(v[1])}" for p, v in sig) + ")"


def token_sites():
    """(line, col) of a token-helper call in a production -> union of the token-type sets it can consume (over all clones)."""
    if "toksites" not in _cache:
        ex, g = get()
        out = {}
        for key, prod in ex.prods.items():
            live, _ = g.pa[key].live_nodes()
            for e in prod.edges:
                if e.dst not in live:
                    continue     # only tokens consumed on a path that can still succeed
                for ev in e.events:
                    if ev[0] == "consume" and len(ev) > 3 and isinstance(ev[3], tuple):
                        out.setdefault(ev[3], set()).update(ev[1])
        _cache["toksites"] = out
    return _cache["toksites"]


def call_la():
    """(callee production, line of the call) -> union of the look-ahead sets (next token) with which that call is made, over all clones"""
    if "call_la" not in _cache:
        ex, g = get()
        out = {}
        for key, prod in ex.prods.items():
            for e in prod.edges:
                for ev in e.events:
                    if ev[0] == "call" and len(ev) > 4:
                        out.setdefault((ev[1], ev[4]), set()).update(ev[3][0])
        _cache["call_la"] = out
    return _cache["call_la"]
