"""Tokeniser function model (E2 composed with the folded lexer tables) and the reference lexical languages.

Model of CLexer._match_token at one position:  text suffix -> winner among
  * the leftmost-first result of the master regex (label, length r), and
  * the first bucket entry that is a prefix (label, length f),
combined by the comparison extracted from the source (`length > best[0]`).
"""
from __future__ import annotations

import ast
from collections import deque

from . import rxmodel as R
from . import srcmodel as S
from .core import AnalysisError

# ---------------------------------------------------------------------------
# reference languages (ISO/IEC 9899:1999 6.4.x, independent transcription)
# ---------------------------------------------------------------------------
digit = R.cls("0-9")
nonzero = R.cls("1-9")
octd = R.cls("0-7")
hexd = R.cls("0-9a-fA-F")
nondigit = R.cls("a-zA-Z_")
u_ = R.cls("uU")


def _isuffix():
    l1 = R.cls("lL")
    ll = R.alt(R.lit("ll"), R.lit("LL"))
    return R.alt(R.seq(u_, R.opt(l1)), R.seq(u_, ll), R.seq(l1, R.opt(u_)), R.seq(ll, R.opt(u_)))


def _lenient_isuffix():
    return _isuffix()


exp = R.seq(R.cls("eE"), R.opt(R.cls("+-")), R.plus(digit))
bexp = R.seq(R.cls("pP"), R.opt(R.cls("+-")), R.plus(digit))
fsuffix = R.cls("fFlL")

STRICT_SIMPLE_ESC = R.seq(R.lit("\\"), R.cls("'\"?\\abfnrtv"))
STRICT_OCT_ESC = R.seq(R.lit("\\"), R.rep(1, 3, octd))
STRICT_HEX_ESC = R.seq(R.lit("\\x"), R.plus(hexd))
# 6.4.3p2: a universal character name shall not be below 00A0 (except $ @ `) nor in D800-DFFF
_h = hexd
_UCN4 = R.alt(R.seq(R.lit("00"), R.cls("a-fA-F"), _h), R.seq(R.lit("0"), R.cls("1-9a-fA-F"), _h, _h),
              R.seq(R.cls("1-9a-cA-CeEfF"), _h, _h, _h), R.seq(R.cls("dD"), R.cls("0-7"), _h, _h))
STRICT_UCN = R.alt(R.seq(R.lit("\\u"), _UCN4),
                   R.seq(R.lit("\\U"), R.alt(R.seq(R.lit("0000"), _UCN4), R.seq(R.lit("000"), R.cls("1-9a-fA-F"), _h, _h, _h, _h),
                                             R.seq(R.lit("0010"), _h, _h, _h, _h))))
STRICT_ESC = R.alt(STRICT_SIMPLE_ESC, STRICT_OCT_ESC, STRICT_HEX_ESC, STRICT_UCN)
# lenient escapes documented in c_lexer.py's comments: any letter, a few punctuation characters (Windows paths in
# #line directives), decimal digit runs of any length, \x with hex digits
LENIENT_ESC_START = R.cls("a-zA-Z._~!=&^\\'\"?-")
LENIENT_ESC = R.alt(R.seq(R.lit("\\"), LENIENT_ESC_START), R.seq(R.lit("\\"), R.plus(digit)), R.seq(R.lit("\\x"), R.plus(hexd)))

C_ORD = R.ncls("'\\\n")
S_ORD = R.ncls("\"\\\n")


PLAIN_ESC = R.alt(STRICT_SIMPLE_ESC, STRICT_OCT_ESC, STRICT_HEX_ESC)


def _charconst(prefix, esc, lo=1, hi=1):
    return R.seq(R.lit(prefix + "'") if prefix else R.lit("'"), R.rep(lo, hi, R.alt(C_ORD, esc)), R.lit("'"))


def _string(prefix, esc):
    # in strings an escape only has to *start* validly: the rest is ordinary string characters
    return R.seq(R.lit(prefix + '"') if prefix else R.lit('"'), R.star(R.alt(S_ORD, esc)), R.lit('"'))


STRING_LENIENT_ESC = R.seq(R.lit("\\"), R.cls("0-9a-zA-Z._~!=&^\\'\"?-"))

_FLOAT = R.seq(R.alt(R.seq(R.alt(R.seq(R.star(digit), R.lit("."), R.plus(digit)), R.seq(R.plus(digit), R.lit("."))), R.opt(exp)),
                     R.seq(R.plus(digit), exp)), R.opt(fsuffix))
_HEXFLOAT = R.seq(R.lit("0"), R.cls("xX"),
                  R.alt(R.seq(R.star(hexd), R.lit("."), R.plus(hexd)), R.seq(R.plus(hexd), R.opt(R.lit(".")))), bexp, R.opt(fsuffix))

EMPTY = R.alt()   # the empty language

# token class -> (strict lower bound split into named parts, lenient extension) ; regex ASTs (EMPTY for none).
# A violation of the lower bound is keyed by (class, part), so a known finding about one part never hides another.
REFERENCE = {
    "INT_CONST_DEC": (R.seq(nonzero, R.star(digit), R.opt(_isuffix())), EMPTY),
    "INT_CONST_OCT": (R.seq(R.lit("0"), R.star(octd), R.opt(_isuffix())), EMPTY),
    "INT_CONST_HEX": (R.seq(R.lit("0"), R.cls("xX"), R.plus(hexd), R.opt(_isuffix())), EMPTY),
    "INT_CONST_BIN": (EMPTY, R.seq(R.lit("0"), R.cls("bB"), R.plus(R.cls("01")), R.opt(_isuffix()))),
    "FLOAT_CONST": (_FLOAT, EMPTY),
    "HEX_FLOAT_CONST": (_HEXFLOAT, EMPTY),
    "CHAR_CONST": ({"plain": _charconst("", PLAIN_ESC), "ucn": _charconst("", STRICT_UCN)}, _charconst("", LENIENT_ESC)),
    "WCHAR_CONST": ({"plain": _charconst("L", PLAIN_ESC), "ucn": _charconst("L", STRICT_UCN)}, _charconst("L", LENIENT_ESC)),
    "U8CHAR_CONST": (EMPTY, _charconst("u8", LENIENT_ESC)),
    "U16CHAR_CONST": ({"plain": _charconst("u", PLAIN_ESC), "ucn": _charconst("u", STRICT_UCN)}, _charconst("u", LENIENT_ESC)),
    "U32CHAR_CONST": ({"plain": _charconst("U", PLAIN_ESC), "ucn": _charconst("U", STRICT_UCN)}, _charconst("U", LENIENT_ESC)),
    "INT_CONST_CHAR": (EMPTY, _charconst("", LENIENT_ESC, 2, 4)),
    "STRING_LITERAL": (_string("", STRICT_ESC), _string("", STRING_LENIENT_ESC)),
    "WSTRING_LITERAL": (_string("L", STRICT_ESC), _string("L", STRING_LENIENT_ESC)),
    "U8STRING_LITERAL": (_string("u8", STRICT_ESC), _string("u8", STRING_LENIENT_ESC)),
    "U16STRING_LITERAL": (_string("u", STRICT_ESC), _string("u", STRING_LENIENT_ESC)),
    "U32STRING_LITERAL": (_string("U", STRICT_ESC), _string("U", STRING_LENIENT_ESC)),
    # C99 6.4.2.1: identifier-nondigit is a nondigit or a universal character name
    "ID": ({"plain": R.seq(nondigit, R.star(R.alt(nondigit, digit))),
            "ucn": R.seq(R.star(R.alt(nondigit)), STRICT_UCN, R.star(R.alt(nondigit, digit, STRICT_UCN)))},
           R.seq(R.cls("a-zA-Z_$"), R.star(R.cls("0-9a-zA-Z_$")))),
}

def strict_parts(strict):
    return strict if isinstance(strict, dict) else {"all": strict}


# malformed whole strings that must be reported through the error callback (C10: error routing)
MALFORMED = {
    "octal constant with digit 8/9": R.seq(R.lit("0"), R.star(octd), R.cls("89"), R.star(digit)),
    "empty character constant": R.lit("''"),
    "unterminated character constant (end of input)": R.seq(R.lit("'"), R.star(R.ncls("'\\\n"))),
    "unterminated character constant (end of line)": R.seq(R.lit("'"), R.star(R.ncls("'\\\n")), R.lit("\n")),
    "NONFINAL-NL unterminated character constant with more text on the following lines": R.seq(R.lit("'"), R.star(R.ncls("'\\\n")), R.lit("\n"), R.plus(R.setof(R.cs_neg(())))),
    "character constant with more than four characters": R.seq(R.lit("'"), R.rep(5, None, R.ncls("'\\\n")), R.lit("'")),
    "character constant with an invalid escape": R.seq(R.lit("'\\"), R.ncls("a-zA-Z._~^!=&\\'\"?0-9\n-"), R.star(R.ncls("'\n")), R.lit("'")),
    "string literal with an invalid escape": R.seq(R.lit('"'), R.star(S_ORD), R.lit("\\"), R.ncls("a-zA-Z._~^!=&\\'\"?0-9\n-"), R.star(S_ORD), R.lit('"')),
    "string literal with several invalid escapes": R.seq(R.lit('"'), R.star(S_ORD), R.plus(R.seq(R.lit("\\"), R.ncls("a-zA-Z._~^!=&\\'\"?0-9\n-"), R.star(S_ORD))), R.lit('"')),
    "character constant with an invalid escape after the first character": R.seq(R.lit("'"), R.plus(R.ncls("'\\\n")), R.lit("\\"), R.ncls("a-zA-Z._~^!=&\\'\"?0-9\n-"), R.star(R.ncls("'\n\\")), R.lit("'")),
    "C comment opener": R.seq(R.lit("/*"), R.star(R.setof(R.cs_neg(())))),
    "C++ comment opener": R.seq(R.lit("//"), R.star(R.setof(R.cs_neg(())))),
}

PUNCTUATORS = ["[", "]", "(", ")", "{", "}", ".", "->", "++", "--", "&", "*", "+", "-", "~", "!", "/", "%", "<<", ">>", "<", ">",
               "<=", ">=", "==", "!=", "^", "|", "&&", "||", "?", ":", ";", "...", "=", "*=", "/=", "%=", "+=", "-=", "<<=", ">>=",
               "&=", "^=", "|=", ","]
DIGRAPHS = ["<:", ":>", "<%", "%>"]
# the class of every punctuator (C99 6.4.6 / 6.5: which operator or delimiter the spelling is) under the lexer's documented token vocabulary;
# clients of CLexer and the parser's operator tables select on these names
PUNCTUATOR_CLASS = {
    "[": "LBRACKET", "]": "RBRACKET", "(": "LPAREN", ")": "RPAREN", "{": "LBRACE", "}": "RBRACE", ".": "PERIOD", "->": "ARROW",
    "++": "PLUSPLUS", "--": "MINUSMINUS", "&": "AND", "*": "TIMES", "+": "PLUS", "-": "MINUS", "~": "NOT", "!": "LNOT", "/": "DIVIDE", "%": "MOD",
    "<<": "LSHIFT", ">>": "RSHIFT", "<": "LT", ">": "GT", "<=": "LE", ">=": "GE", "==": "EQ", "!=": "NE", "^": "XOR", "|": "OR", "&&": "LAND",
    "||": "LOR", "?": "CONDOP", ":": "COLON", ";": "SEMI", "...": "ELLIPSIS", "=": "EQUALS", "*=": "TIMESEQUAL", "/=": "DIVEQUAL", "%=": "MODEQUAL",
    "+=": "PLUSEQUAL", "-=": "MINUSEQUAL", "<<=": "LSHIFTEQUAL", ">>=": "RSHIFTEQUAL", "&=": "ANDEQUAL", "^=": "XOREQUAL", "|=": "OREQUAL", ",": "COMMA",
}

C99_KEYWORDS = ("auto break case char const continue default do double else enum extern float for goto if inline int long "
                "register restrict return short signed sizeof static struct switch typedef union unsigned void volatile while "
                "_Bool _Complex").split()
C11_KEYWORDS = "_Alignas _Alignof _Atomic _Noreturn _Static_assert _Thread_local".split()
EXT_KEYWORDS = "_Pragma offsetof __int128".split()


# ---------------------------------------------------------------------------
class LexModel:
    def __init__(self, extra_sets=()):
        self.t = S.tables()
        master = R.from_pattern(self.t.regex_master)
        alts = master[1] if master[0] == "alt" else [master]
        self.rules = []
        for a in alts:
            if a[0] != "group" or a[1] is None:
                raise AnalysisError("master regex alternative is not a named group: lastgroup would be None")
            if a[1] not in self.t.regex_actions:
                raise AnalysisError(f"master regex group {a[1]} has no entry in _regex_actions")
            self.rules.append((a[1], a[2], self.t.regex_actions[a[1]][0]))
        sets = []
        for _, node, _ in self.rules:
            sets += list(R.charsets(node))
        for strict, len_ in REFERENCE.values():
            for part in strict_parts(strict).values():
                sets += list(R.charsets(part))
            sets += list(R.charsets(len_))
        for m in MALFORMED.values():
            sets += list(R.charsets(m))
        for _, lit in self.t.fixed_tokens:
            sets += [((ord(c), ord(c)),) for c in lit]
        for p in PUNCTUATORS + DIGRAPHS:
            sets += [((ord(c), ord(c)),) for c in p]
        sets += [R.cs_chars(" \t"), R.cs_chars("#"), R.cs_chars("@`\\"), R.cs_chars("ul"), R.cs_chars("UL"), R.cs_chars("fF")]
        sets += list(extra_sets)
        self.alpha = R.Alphabet(sets)
        self.action = {n: a for n, _, a in self.rules}
        self._built = {}
        self.combine_op = extract_combine_op()

    def nfa(self, eos_nl=True):
        key = ("nfa", eos_nl)
        if key not in self._built:
            nfa = R.NFA(self.alpha, eos_before_newline=eos_nl)
            root = nfa.new()
            for n, node, _ in self.rules:
                nfa.add_rule(root, node, n)
            self._built[key] = (nfa, root)
        return self._built[key]

    def prio(self, eos_nl=True):
        key = ("prio", eos_nl)
        if key not in self._built:
            nfa, root = self.nfa(eos_nl)
            self._built[key] = R.PrioDFA(nfa, root)
        return self._built[key]

    def subset(self):
        if "subset" not in self._built:
            nfa, root = self.nfa(True)
            self._built["subset"] = R.SubsetDFA(nfa, root)
        return self._built["subset"]

    # -- fixed-token trie over minterms ---------------------------------
    def trie(self):
        """Model of the bucket scan: node = tuple of symbols read; value = label returned by the FIRST bucket entry that is a prefix."""
        if "trie" in self._built:
            return self._built["trie"]
        a = self.alpha
        buckets = self.t.fixed_by_first
        maxlen = max((len(l) for _, l in self.t.fixed_tokens), default=0)
        self._built["trie"] = (buckets, maxlen)
        return self._built["trie"]

    def fixed_result(self, text):
        """(label, length) of the bucket scan on a concrete text prefix, per the extracted first-hit discipline."""
        buckets, _ = self.trie()
        if not text:
            return None
        for tok_type, lit in buckets.get(text[0], []):
            if text.startswith(lit):
                return tok_type, len(lit)
        return None

    # -- combined tokeniser over symbol words -----------------------------
    def run(self, syms_word):
        """Exact model result on the concrete representative text of a symbol word: (kind, label, length) or ('nomatch',None,0)."""
        text = self.alpha.word(syms_word)
        D = self.prio()
        st, last = D.start, None
        for i in range(len(syms_word) + 1):
            a = syms_word[i] if i < len(syms_word) else R.END
            nxt, ev = D.trans[(st, a)]
            if ev is not None:
                last = (ev, i)
            st = nxt
            if a == R.END:
                break
        fx = self.fixed_result(text)
        return self.combine(last, fx)

    def combine(self, rx, fx):
        best = None
        if rx is not None:
            best = ("regex", rx[0], rx[1])
        if fx is not None:
            if best is None or self._cmp(fx[1], best[2]):
                best = ("fixed", fx[0], fx[1])
        return best or ("nomatch", None, 0)

    def _cmp(self, f, r):
        op = self.combine_op
        return {"Gt": f > r, "GtE": f >= r, "Lt": f < r, "LtE": f <= r, "Eq": f == r, "NotEq": f != r}[op]


def extract_combine_op() -> str:
    """The comparison used in _match_token to let a fixed token replace the regex match: `length <op> best[0]`."""
    mod = S.module("c_lexer")
    fn = mod.method("CLexer", "_match_token")
    found = []
    for n in ast.walk(fn):
        if isinstance(n, ast.Compare) and len(n.ops) == 1:
            l, r = n.left, n.comparators[0]
            def is_best0(e):
                return isinstance(e, ast.Subscript) and isinstance(e.value, ast.Name) and isinstance(e.slice, ast.Constant) and e.slice.value == 0
            if is_best0(r) and isinstance(l, ast.Name):
                found.append(type(n.ops[0]).__name__)
            elif is_best0(l) and isinstance(r, ast.Name):
                found.append({"Gt": "Lt", "Lt": "Gt", "GtE": "LtE", "LtE": "GtE"}.get(type(n.ops[0]).__name__, type(n.ops[0]).__name__))
    if len(found) != 1:
        raise AnalysisError(f"cannot identify the regex-vs-fixed-token length comparison in CLexer._match_token (found {found})")
    return found[0]


# ---------------------------------------------------------------------------
# The combined tokeniser as one deterministic automaton over minterm symbols
# ---------------------------------------------------------------------------
class TokAutomaton:
    """States track: leftmost-first regex state, subset (no-cut) regex state, progress of the fixed-literal scan,
    the last regex event (label, length capped at CAP), the last position at which ANY rule or literal could end
    (capped), and whether that position is later than the regex winner's.  `outcome[i]` is the model's answer when
    the input ends in state i."""

    CAP = 4

    def __init__(self, model: LexModel, eos_nl=True):
        """eos_nl: how a `$` anchor is read when the next character is a newline - True: it matches (exact when that newline is the last character of
        the text), False: it does not (exact when more text follows the newline).  Python's `$` (no MULTILINE) matches at the very end and before a
        FINAL newline only; one character of look-ahead cannot tell the two situations apart, so each obligation uses the reading that is exact for it."""
        self.m = model
        D, N = model.prio(eos_nl), model.subset()
        self.D, self.N = D, N
        alpha = model.alpha
        self.n_syms = alpha.n
        lits = [l for _, l in model.t.fixed_tokens]
        self.maxlen = max((len(l) for l in lits), default=0)
        if self.maxlen >= self.CAP:
            raise AnalysisError("fixed token longer than the model's length cap")
        viable = {l[:k] for l in lits for k in range(0, len(l) + 1)}
        chr_of = {}
        for l in lits:
            for c in l:
                chr_of[alpha.of_char(c)] = c

        def fix_step(fs, a):
            if fs[0] == "done":
                return fs
            text = fs[1]
            c = chr_of.get(a)
            if c is not None and (text + c) in viable:
                return ("scan", text + c)
            return ("done", model.fixed_result(text + (c or "\x00")))

        def fix_final(fs):
            return fs[1] if fs[0] == "done" else model.fixed_result(fs[1])

        start = (D.start, N.start, ("scan", ""), None, 0, 0, False, 0)
        self.index = {start: 0}
        self.keys = [start]
        self.trans = {}
        self.outcome = []
        self.empty_match = None
        dq = deque([start])
        CAP = self.CAP
        while dq:
            key = dq.popleft()
            i = self.index[key]
            ds, ns, fs, lab, rcap, na_cap, later, ncap = key
            # outcome if the input ends here
            _, ev_end = D.trans[(ds, R.END)]
            _, evs_end = N.trans[(ns, R.END)]
            rx = (ev_end, ncap) if ev_end is not None else ((lab, rcap) if lab is not None else None)
            rx_full = ev_end is not None
            fx = fix_final(fs)
            win = model.combine(rx, fx)
            later_f = (bool(evs_end) and ev_end is None) or (later and ev_end is None)
            na_f = ncap if evs_end else na_cap
            kind, wl, wlen = win
            if kind == "regex":
                mm_bad = later_f or (fx is not None and fx[1] > wlen)
                full = rx_full
            elif kind == "fixed":
                mm_bad = na_f > wlen or (rx is not None and rx[1] > wlen)
                full = (ncap == wlen and ncap < CAP)
            else:
                mm_bad = bool(na_f) or fx is not None
                full = False
            self.outcome.append({"kind": kind, "label": wl, "full": full, "mm_bad": mm_bad,
                                 "action": model.action.get(wl) if kind == "regex" else ("TOKEN" if kind == "fixed" else None),
                                 "len_cap": wlen})
            if ncap == 0 and ev_end is not None and self.empty_match is None:
                self.empty_match = ev_end
            for a in range(alpha.n):
                nds, ev = D.trans[(ds, a)]
                nns, evs = N.trans[(ns, a)]
                if ncap == 0 and ev is not None and self.empty_match is None:
                    self.empty_match = ev
                lab2, rcap2 = (ev, ncap) if ev is not None else (lab, rcap)
                if evs:
                    na2 = ncap
                    later2 = ev is None
                else:
                    na2 = na_cap
                    later2 = later and ev is None
                nfs = fix_step(fs, a)
                if not nds and not nns and nfs[0] == "done":
                    # every matcher is dead: later symbols cannot change the answer -> absorb
                    nk = ((), N.trans[(ns, a)][0], nfs, lab2, rcap2, na2, later2, min(ncap + 1, CAP))
                else:
                    nk = (nds, nns, nfs, lab2, rcap2, na2, later2, min(ncap + 1, CAP))
                j = self.index.get(nk)
                if j is None:
                    j = len(self.keys)
                    self.index[nk] = j
                    self.keys.append(nk)
                    dq.append(nk)
                    if j > 400000:
                        raise AnalysisError("tokeniser automaton exceeded its state limit")
                self.trans[(i, a)] = j

    def dfa(self, pred) -> R.DFA:
        return R.DFA(self.n_syms, 0, self.trans, {i for i, o in enumerate(self.outcome) if pred(o)})

    def witness(self, pred):
        seen = {0: None}
        dq = deque([0])
        while dq:
            i = dq.popleft()
            if pred(self.outcome[i]):
                w, cur = [], i
                while seen[cur] is not None:
                    cur, s = seen[cur]
                    w.append(s)
                return list(reversed(w))
            for a in range(self.n_syms):
                j = self.trans[(i, a)]
                if j not in seen:
                    seen[j] = (i, a)
                    dq.append(j)
        return None
