"""E5 - state, write-effect and alias analyses over the package sources.

Flow-insensitive, field-based may-alias analysis inside one function, exact
Python scoping (a name bound anywhere in a function is local to it).  Every
write effect (attribute / subscript store, del, augmented assignment, mutator
method call, global statement) is attributed to the root object it can reach.
"""
from __future__ import annotations

import ast

from . import srcmodel as S

MUTATORS = {
    "append", "extend", "insert", "pop", "remove", "clear", "sort", "reverse", "add", "update", "setdefault",
    "discard", "popitem", "__setitem__", "__delitem__", "difference_update", "intersection_update",
    "symmetric_difference_update", "appendleft", "popleft", "extendleft", "rotate", "__iadd__",
}
# element-returning accessors: the result aliases (part of) the receiver
ACCESSORS = {"get", "values", "items", "keys", "setdefault", "pop", "copy_is_not_alias"}
PURE_BUILTINS = {"len", "enumerate", "isinstance", "iter", "reversed", "sorted", "zip", "list", "tuple", "set",
                 "frozenset", "dict", "str", "repr", "bool", "any", "all", "min", "max", "sum", "range", "print",
                 "hasattr", "getattr", "type", "id", "int"}


def iter_functions(mod: S.Module):
    """Yield (qualname, fn, class_name|None) for every def / lambda-free function, nested ones included."""
    def rec(node, prefix, cls):
        for ch in ast.iter_child_nodes(node):
            if isinstance(ch, ast.ClassDef):
                yield from rec(ch, prefix + [ch.name], ch.name)
            elif isinstance(ch, (ast.FunctionDef, ast.AsyncFunctionDef)):
                yield ".".join(prefix + [ch.name]), ch, cls
                yield from rec(ch, prefix + [ch.name], cls)
            elif not isinstance(ch, ast.Lambda):
                yield from rec(ch, prefix, cls)
    yield from rec(mod.tree, [], None)


def own_nodes(fn):
    """Nodes of fn's own body, not descending into nested defs (lambdas and comprehensions are included)."""
    stack = list(fn.body) if not isinstance(fn, ast.Lambda) else [fn.body]
    while stack:
        n = stack.pop()
        yield n
        for ch in ast.iter_child_nodes(n):
            if isinstance(ch, (ast.FunctionDef, ast.AsyncFunctionDef, ast.ClassDef)):
                continue
            stack.append(ch)


def params(fn) -> list[str]:
    a = fn.args
    out = [x.arg for x in a.posonlyargs + a.args + a.kwonlyargs]
    if a.vararg:
        out.append(a.vararg.arg)
    if a.kwarg:
        out.append(a.kwarg.arg)
    return out


_local_cache: dict = {}


def local_names(fn) -> set[str]:
    """Names bound in fn's own scope (exact Python rule, minus global/nonlocal declarations)."""
    r = _local_cache.get(id(fn))
    if r is None or r[0] is not fn:
        r = (fn, _local_names(fn))
        _local_cache[id(fn)] = r
    return r[1]


def _local_names(fn) -> set[str]:
    out = set(params(fn))
    declared = set()
    for n in own_nodes(fn):
        if isinstance(n, ast.Name) and isinstance(n.ctx, (ast.Store, ast.Del)):
            out.add(n.id)
        elif isinstance(n, (ast.Global, ast.Nonlocal)):
            declared |= set(n.names)
        elif isinstance(n, ast.ExceptHandler) and n.name:
            out.add(n.name)
        elif isinstance(n, (ast.Import, ast.ImportFrom)):
            for al in n.names:
                out.add((al.asname or al.name).split(".")[0])
        elif isinstance(n, ast.MatchAs) and n.name:
            out.add(n.name)
        elif isinstance(n, ast.MatchStar) and n.name:
            out.add(n.name)
    for ch in ast.iter_child_nodes(fn):
        pass
    for n in fn.body if not isinstance(fn, ast.Lambda) else []:
        for ch in ast.walk(n):
            if isinstance(ch, (ast.FunctionDef, ast.AsyncFunctionDef, ast.ClassDef)) and S.enclosing_function(ch) is fn:
                out.add(ch.name)
    return out - declared


def enclosing_chain(fn):
    out = []
    cur = S.enclosing_function(fn)
    while cur is not None:
        out.append(cur)
        cur = S.enclosing_function(cur)
    return out


def mutable_default_params(fn) -> dict[str, ast.expr]:
    a = fn.args
    pos = a.posonlyargs + a.args
    out = {}
    for p, d in zip(pos[len(pos) - len(a.defaults):], a.defaults):
        if _is_mutable_ctor(d):
            out[p.arg] = d
    for p, d in zip(a.kwonlyargs, a.kw_defaults):
        if d is not None and _is_mutable_ctor(d):
            out[p.arg] = d
    return out


def _is_mutable_ctor(e) -> bool:
    if isinstance(e, (ast.List, ast.Dict, ast.Set, ast.ListComp, ast.DictComp, ast.SetComp)):
        return True
    if isinstance(e, ast.Call) and isinstance(e.func, ast.Name) and e.func.id in ("list", "dict", "set", "bytearray", "defaultdict", "OrderedDict", "deque"):
        return True
    return False


def root_of(e):
    """Peel subscripts / attributes / accessor calls; return (root_expr, path) where path lists the peeled steps."""
    path = []
    while True:
        if isinstance(e, ast.Subscript):
            path.append("[]")
            e = e.value
        elif isinstance(e, ast.Attribute):
            path.append("." + e.attr)
            e = e.value
        elif isinstance(e, ast.Call) and isinstance(e.func, ast.Attribute) and e.func.attr in ACCESSORS:
            path.append("()" + e.func.attr)
            e = e.func.value
        elif isinstance(e, ast.Starred):
            e = e.value
        else:
            return e, list(reversed(path))


class ClassInfo:
    def __init__(self, mod: S.Module, node: ast.ClassDef):
        self.mod, self.node, self.name = mod, node, node.name
        self.class_attrs: dict[str, ast.expr | None] = {}
        for st in node.body:
            if isinstance(st, ast.Assign):
                for t in st.targets:
                    if isinstance(t, ast.Name):
                        self.class_attrs[t.id] = st.value
            elif isinstance(st, ast.AnnAssign) and isinstance(st.target, ast.Name) and st.value is not None:
                self.class_attrs[st.target.id] = st.value
        self.methods = {n.name: n for n in node.body if isinstance(n, (ast.FunctionDef, ast.AsyncFunctionDef))}
        # instance attribute stores  self.X = v  (method name -> list of (attr, node))
        self.inst_stores: list[tuple[str, str, ast.stmt]] = []
        for mname, m in self.methods.items():
            selfname = m.args.args[0].arg if m.args.args else None
            for n in ast.walk(m):
                tgts = []
                if isinstance(n, ast.Assign):
                    tgts = n.targets
                elif isinstance(n, (ast.AnnAssign, ast.AugAssign)):
                    tgts = [n.target]
                for t in tgts:
                    for tt in ast.walk(t):
                        if isinstance(tt, ast.Attribute) and isinstance(tt.ctx, ast.Store) and isinstance(tt.value, ast.Name) and tt.value.id == selfname:
                            self.inst_stores.append((mname, tt.attr, n))

    def init_assigns_fresh(self, attr) -> bool:
        """__init__ assigns self.attr unconditionally at the top level of its body."""
        init = self.methods.get("__init__")
        if init is None:
            return False
        selfname = init.args.args[0].arg
        for st in init.body:
            if isinstance(st, (ast.Assign, ast.AnnAssign)):
                tg = st.targets if isinstance(st, ast.Assign) else [st.target]
                for t in tg:
                    if isinstance(t, ast.Attribute) and isinstance(t.value, ast.Name) and t.value.id == selfname and t.attr == attr:
                        return True
        return False


def classes(mod: S.Module) -> dict[str, ClassInfo]:
    out = {}
    for n in ast.walk(mod.tree):
        if isinstance(n, ast.ClassDef):
            out[n.name] = ClassInfo(mod, n)
    return out


class WriteSite:
    __slots__ = ("kind", "node", "target", "fn", "qual", "mod")

    def __init__(self, kind, node, target, fn, qual, mod):
        self.kind, self.node, self.target, self.fn, self.qual, self.mod = kind, node, target, fn, qual, mod

    def text(self):
        return S.unparse(self.node)


def write_sites(mod: S.Module, qual: str, fn) -> list[WriteSite]:
    """All syntactic write effects of fn's own body."""
    out = []
    for n in own_nodes(fn):
        if isinstance(n, ast.Assign):
            for t in n.targets:
                for tt in _store_targets(t):
                    out.append(WriteSite("store", n, tt, fn, qual, mod))
        elif isinstance(n, ast.AnnAssign) and n.value is not None:
            for tt in _store_targets(n.target):
                out.append(WriteSite("store", n, tt, fn, qual, mod))
        elif isinstance(n, ast.AugAssign):
            out.append(WriteSite("aug", n, n.target, fn, qual, mod))
        elif isinstance(n, ast.Delete):
            for t in n.targets:
                out.append(WriteSite("del", n, t, fn, qual, mod))
        elif isinstance(n, ast.Call) and isinstance(n.func, ast.Attribute) and n.func.attr in MUTATORS:
            out.append(WriteSite("mutcall:" + n.func.attr, n, n.func.value, fn, qual, mod))
        elif isinstance(n, ast.Call) and isinstance(n.func, ast.Name) and n.func.id in ("setattr", "delattr") and n.args:
            out.append(WriteSite("setattr", n, n.args[0], fn, qual, mod))
        elif isinstance(n, (ast.For, ast.AsyncFor)):
            for tt in _store_targets(n.target):
                out.append(WriteSite("store", n, tt, fn, qual, mod))
        elif isinstance(n, ast.NamedExpr):
            out.append(WriteSite("store", n, n.target, fn, qual, mod))
        elif isinstance(n, (ast.With, ast.AsyncWith)):
            for it in n.items:
                if it.optional_vars is not None:
                    for tt in _store_targets(it.optional_vars):
                        out.append(WriteSite("store", n, tt, fn, qual, mod))
    return out


def _store_targets(t):
    if isinstance(t, (ast.Tuple, ast.List)):
        for e in t.elts:
            yield from _store_targets(e)
    elif isinstance(t, ast.Starred):
        yield from _store_targets(t.value)
    else:
        yield t


class FnScope:
    """Resolution context of one function: locals, enclosing locals, module globals, aliases of shared objects."""

    def __init__(self, mod: S.Module, fn, cls: ClassInfo | None, all_classes: dict[str, ClassInfo]):
        self.mod, self.fn, self.cls, self.all_classes = mod, fn, cls, all_classes
        self.locals = local_names(fn)
        self.enclosing = [local_names(f) for f in enclosing_chain(fn)]
        self.selfname = None
        top = fn
        for f in [fn] + enclosing_chain(fn):
            top = f
        if cls is not None and isinstance(top, (ast.FunctionDef, ast.AsyncFunctionDef)) and top.args.args:
            decos = [S.unparse(d) for d in top.decorator_list]
            if "staticmethod" not in decos:
                self.selfname = top.args.args[0].arg
                self.is_classmethod = "classmethod" in decos
        self.module_names = set(mod.assigns) | set(mod.classes) | set(mod.functions)
        self.imports = {}
        for n in mod.tree.body:
            if isinstance(n, ast.Import):
                for al in n.names:
                    self.imports[(al.asname or al.name).split(".")[0]] = al.name
            elif isinstance(n, ast.ImportFrom):
                for al in n.names:
                    self.imports[al.asname or al.name] = (n.module or "") + "." + al.name
        self.mutdefaults = {}
        for f in [fn] + enclosing_chain(fn):
            if not isinstance(f, ast.Lambda):
                for k, v in mutable_default_params(f).items():
                    self.mutdefaults.setdefault(k, v)
        self.aliases: dict[str, str] = {}   # local name -> description of the shared origin
        self._compute_aliases()

    # classification of a root expression -----------------------------
    def is_local(self, name) -> bool:
        if name in self.locals:
            return True
        return any(name in e for e in self.enclosing)

    def classify(self, e) -> tuple[str, str]:
        """Return (kind, detail): kind in LOCAL, PARAM, MUTDEFAULT, SELF, INSTANCE, CLASSATTR, SHARED, FRESH, UNKNOWN."""
        root, path = root_of(e)
        if isinstance(root, ast.Name):
            n = root.id
            if n == self.selfname:
                if not path:
                    return "SELF", n
                first = path[0]
                if first.startswith("."):
                    attr = first[1:]
                    if attr == "__class__":
                        return "CLASSATTR", f"{self.cls.name}.__class__"
                    if self.cls is not None and getattr(self, "is_classmethod", False):
                        return "CLASSATTR", f"{self.cls.name}.{attr}"
                    ca = self._class_attr_value(attr)
                    if ca is not None and _is_mutable_ctor(ca) and not self.cls.init_assigns_fresh(attr):
                        return "CLASSATTR", f"{self.cls.name}.{attr} (mutable class-level default reached through self)"
                    return "INSTANCE", attr
                return "SELF", n
            if self.is_local(n):
                if n in self.aliases:
                    return "SHARED", self.aliases[n]
                if n in self.mutdefaults:
                    return "MUTDEFAULT", n
                if n in params(self.fn) or any(n in params(f) for f in enclosing_chain(self.fn) if not isinstance(f, ast.Lambda)):
                    return "PARAM", n
                return "LOCAL", n
            if n in self.module_names:
                if n in self.mod.classes and path and path[0].startswith("."):
                    return "CLASSATTR", f"{n}{path[0]}"
                return "SHARED", f"module-level {self.mod.name}.{n}"
            if n in self.imports:
                return "SHARED", f"imported {self.imports[n]}"
            return "UNKNOWN", n
        if isinstance(root, ast.Call):
            f = root.func
            if isinstance(f, ast.Name) and f.id == "type" and path:
                return "CLASSATTR", "type(...)" + path[0]
            if isinstance(f, ast.Name) and f.id in ("globals", "vars", "locals"):
                return "SHARED", f.id + "()"
            return "FRESH", S.unparse(root)[:60]
        if isinstance(root, (ast.List, ast.Dict, ast.Set, ast.Tuple, ast.ListComp, ast.DictComp, ast.SetComp, ast.BinOp, ast.Constant, ast.JoinedStr)):
            return "FRESH", type(root).__name__
        return "UNKNOWN", S.unparse(root)[:60]

    def _class_attr_value(self, attr):
        c = self.cls
        seen = set()
        while c is not None and c.name not in seen:
            seen.add(c.name)
            if attr in c.class_attrs:
                return c.class_attrs[attr]
            nxt = None
            for b in c.node.bases:
                bn = b.attr if isinstance(b, ast.Attribute) else getattr(b, "id", None)
                if bn in self.all_classes:
                    nxt = self.all_classes[bn]
                    break
            c = nxt
        return None

    def _compute_aliases(self):
        changed = True
        rounds = 0
        while changed and rounds < 10:
            changed = False
            rounds += 1
            for n in own_nodes(self.fn):
                pairs = []
                if isinstance(n, ast.Assign):
                    for t in n.targets:
                        pairs += list(_pair(t, n.value))
                elif isinstance(n, ast.AnnAssign) and n.value is not None:
                    pairs += list(_pair(n.target, n.value))
                elif isinstance(n, ast.NamedExpr):
                    pairs.append((n.target, n.value))
                elif isinstance(n, (ast.For, ast.AsyncFor, ast.comprehension)):
                    for tt in _store_targets(n.target):
                        pairs.append((tt, n.iter))
                for t, v in pairs:
                    if not isinstance(t, ast.Name) or t.id in self.aliases:
                        continue
                    for cand in _alias_sources(v):
                        kind, detail = self.classify(cand)
                        if kind in ("SHARED", "CLASSATTR"):
                            self.aliases[t.id] = f"{detail} (via {S.unparse(v)[:50]})"
                            changed = True
                            break


def _pair(t, v):
    if isinstance(t, (ast.Tuple, ast.List)) and isinstance(v, (ast.Tuple, ast.List)) and len(t.elts) == len(v.elts):
        for a, b in zip(t.elts, v.elts):
            yield from _pair(a, b)
    elif isinstance(t, (ast.Tuple, ast.List)):
        for a in t.elts:
            yield from _pair(a, v)
    else:
        yield t, v


def _alias_sources(v):
    """Expressions whose object (or part of it) the value of v may be."""
    if isinstance(v, ast.IfExp):
        yield from _alias_sources(v.body)
        yield from _alias_sources(v.orelse)
    elif isinstance(v, ast.BoolOp):
        for x in v.values:
            yield from _alias_sources(x)
    elif isinstance(v, ast.NamedExpr):
        yield from _alias_sources(v.value)
    elif isinstance(v, ast.Call) and isinstance(v.func, ast.Name) and v.func.id == "cast" and len(v.args) == 2:
        yield from _alias_sources(v.args[1])   # typing.cast(T, x) is x
    elif isinstance(v, ast.Call) and isinstance(v.func, ast.Name) and v.func.id in ("reversed", "iter", "enumerate", "zip") and v.args:
        for a in v.args:
            yield from _alias_sources(a)
    elif isinstance(v, (ast.Name, ast.Attribute, ast.Subscript)):
        if isinstance(v, ast.Subscript) and isinstance(v.slice, ast.Slice):
            return  # slicing copies
        yield v
    elif isinstance(v, ast.Call) and isinstance(v.func, ast.Attribute) and v.func.attr in ACCESSORS:
        yield v


def _element_alias_sources(v, depth=1):
    """(expression, depth): objects stored INSIDE a fresh container display / constructor - `[X, dict()]`, `(X,)`, `{k: X}`, `list((X, ...))`:
    the container is fresh, its element is not; a mutation reaches X only `depth` levels below the container."""
    if isinstance(v, (ast.List, ast.Tuple, ast.Set)):
        for e in v.elts:
            e = e.value if isinstance(e, ast.Starred) else e
            for c in _alias_sources(e):
                yield c, depth
            yield from _element_alias_sources(e, depth + 1)
    elif isinstance(v, ast.Dict):
        for e in v.values:
            for c in _alias_sources(e):
                yield c, depth
            yield from _element_alias_sources(e, depth + 1)
    elif isinstance(v, ast.Call) and isinstance(v.func, ast.Name) and v.func.id in ("list", "tuple", "dict", "set", "deque") and v.args:
        for a in v.args:
            yield from _element_alias_sources(a, depth)
    elif isinstance(v, ast.IfExp):
        yield from _element_alias_sources(v.body, depth)
        yield from _element_alias_sources(v.orelse, depth)
    elif isinstance(v, ast.BinOp) and isinstance(v.op, ast.Add):
        yield from _element_alias_sources(v.left, depth)
        yield from _element_alias_sources(v.right, depth)
