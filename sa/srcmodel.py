"""E0 - resolved program model of the repository under analysis.

Parses the package sources with `ast` (never imports them), indexes classes /
functions / module-level bindings, folds module-level table initialisers with a
small total evaluator (compile-time constant propagation: no function of the
analysed package is ever called), and resolves calls between the package's
functions.
"""
from __future__ import annotations

import ast
import re
import os

from .core import PKG, REPO, AnalysisError

MODULES = ["__init__", "c_parser", "c_lexer", "c_ast", "c_generator", "ast_transforms", "_ast_gen"]


class _ChainsToMatch(ast.NodeTransformer):
    """Rewrites if/elif chains with three or more arms that test ONE side-effect-free subject against constants (==, in a display of
    constants, isinstance) into the equivalent match statement, so that rules see the same shape whichever way the source spells a dispatch."""

    MIN_ARMS = 3

    @staticmethod
    def _const(e):
        return isinstance(e, ast.Constant) or (isinstance(e, ast.Attribute) and isinstance(e.value, (ast.Name, ast.Attribute)))

    def _arm(self, test):
        """(subject text, pattern, guard) for one arm, or None"""
        guard = None
        if isinstance(test, ast.BoolOp) and isinstance(test.op, ast.And) and len(test.values) >= 2:
            first, rest = test.values[0], test.values[1:]
            guard = rest[0] if len(rest) == 1 else ast.BoolOp(op=ast.And(), values=rest)
            test = first
        if isinstance(test, ast.BoolOp) and isinstance(test.op, ast.Or):
            parts = [self._arm(v) for v in test.values]
            if all(p_ and p_[2] is None for p_ in parts) and len({p_[0] for p_ in parts}) == 1:
                pats = []
                for p_ in parts:
                    pats += p_[1].patterns if isinstance(p_[1], ast.MatchOr) else [p_[1]]
                return parts[0][0], ast.MatchOr(patterns=pats), guard
            return None
        if isinstance(test, ast.Compare) and len(test.ops) == 1 and isinstance(test.left, (ast.Name, ast.Attribute)):
            c = test.comparators[0]
            if isinstance(test.ops[0], ast.Eq) and self._const(c):
                return ast.unparse(test.left), ast.MatchValue(value=c), guard
            if isinstance(test.ops[0], ast.In) and isinstance(c, (ast.Tuple, ast.Set, ast.List)) and c.elts and all(self._const(x) for x in c.elts):
                pats = [ast.MatchValue(value=x) for x in c.elts]
                return ast.unparse(test.left), (pats[0] if len(pats) == 1 else ast.MatchOr(patterns=pats)), guard
        if isinstance(test, ast.Call) and isinstance(test.func, ast.Name) and test.func.id == "isinstance" and len(test.args) == 2 and not test.keywords and isinstance(test.args[0], (ast.Name, ast.Attribute)):
            cls = test.args[1]
            classes = cls.elts if isinstance(cls, ast.Tuple) else [cls]
            if all(isinstance(x, (ast.Name, ast.Attribute)) for x in classes):
                pats = [ast.MatchClass(cls=x, patterns=[], kwd_attrs=[], kwd_patterns=[]) for x in classes]
                return ast.unparse(test.args[0]), (pats[0] if len(pats) == 1 else ast.MatchOr(patterns=pats)), guard
        return None

    def visit_If(self, node):
        m = self._convert(node)
        if m is None:
            self.generic_visit(node)
            return node
        for case in m.cases:            # now the nested statements
            case.body = [self.visit(st) for st in case.body]
        return m

    def _convert(self, node):
        arms, cur = [], node
        while True:
            arms.append(cur)
            if len(cur.orelse) == 1 and isinstance(cur.orelse[0], ast.If):
                cur = cur.orelse[0]
            else:
                break
        if len(arms) < self.MIN_ARMS and not (len(arms) == 2 and arms[-1].orelse):
            return None
        parsed = [self._arm(a.test) for a in arms]
        if not all(parsed) or len({p_[0] for p_ in parsed}) != 1:
            return None
        first = arms[0].test
        while isinstance(first, ast.BoolOp):
            first = first.values[0]
        subject = first.left if isinstance(first, ast.Compare) else first.args[0]
        cases = [ast.copy_location(ast.match_case(pattern=p_[1], guard=p_[2], body=a.body), a) for a, p_ in zip(arms, parsed)]
        if arms[-1].orelse:
            cases.append(ast.match_case(pattern=ast.MatchAs(pattern=None, name=None), guard=None, body=arms[-1].orelse))
        return ast.copy_location(ast.Match(subject=subject, cases=cases), node)


class _TablesToMatch:
    """Table-driven dispatch reads as the equivalent match statement.  A dispatch table is a dict display with constant keys that is bound
    once (module level `T = {...}`, or `self.t = {...}` in __init__) and never written afterwards.  A simple statement S that CALLS the
    looked-up value - `T[k](...)`, `T.get(k, d)(...)`, or `v(...)` after `v = T[k]` / `v = T.get(k, d)` with v used for nothing else - becomes
        match k:  case K1 | K2: S[callee := value of K1]  ...  case _: S[callee := d]
    (for `T[k]` without default the last arm keeps the original statement, unless an enclosing `match k` arm already restricts k to keys of T)."""

    def __init__(self, tree):
        self.tree = tree
        self.mod_tables = {}
        writes = set()
        for st in tree.body:
            tgt, val = self._single_target(st)
            if isinstance(tgt, ast.Name) and self._is_table(val):
                self.mod_tables[tgt.id] = (val, st)
        for n in ast.walk(tree):
            t = self._written(n)
            if t:
                writes.add(t)
        binds = {}
        for n in ast.walk(tree):
            if isinstance(n, (ast.Assign, ast.AnnAssign, ast.AugAssign)):
                for t in (n.targets if isinstance(n, ast.Assign) else [n.target]):
                    if isinstance(t, ast.Name):
                        binds[t.id] = binds.get(t.id, 0) + 1
        self.mod_tables = {k: v for k, v in self.mod_tables.items() if k not in writes and binds.get(k, 0) == 1}

    @staticmethod
    def _single_target(st):
        if isinstance(st, ast.Assign) and len(st.targets) == 1:
            return st.targets[0], st.value
        if isinstance(st, ast.AnnAssign) and st.value is not None:
            return st.target, st.value
        return None, None

    @staticmethod
    def _is_table(v):
        return isinstance(v, ast.Dict) and len(v.keys) >= 2 and all(isinstance(k, ast.Constant) for k in v.keys) \
            and all(isinstance(x, (ast.Name, ast.Attribute)) for x in v.values)

    @staticmethod
    def _written(n):
        """text of a container that node n mutates (subscript store / delete, mutator call)"""
        if isinstance(n, ast.Subscript) and isinstance(n.ctx, (ast.Store, ast.Del)):
            return ast.unparse(n.value)
        if isinstance(n, ast.Call) and isinstance(n.func, ast.Attribute) and n.func.attr in ("update", "pop", "popitem", "clear", "setdefault", "__setitem__", "__delitem__"):
            return ast.unparse(n.func.value)
        return None

    def run(self):
        for c in ast.walk(self.tree):
            if isinstance(c, ast.ClassDef):
                self._class(c)
        for f in self.tree.body:
            if isinstance(f, ast.FunctionDef):
                self._function(f, dict(self.mod_tables_text()))

    def mod_tables_text(self):
        return {k: v[0] for k, v in self.mod_tables.items()}

    def _class(self, c):
        tables = dict(self.mod_tables_text())
        init = next((m for m in c.body if isinstance(m, ast.FunctionDef) and m.name == "__init__"), None)
        stores = {}
        for m in c.body:
            if isinstance(m, ast.FunctionDef):
                for n in ast.walk(m):
                    if isinstance(n, ast.Attribute) and isinstance(n.ctx, (ast.Store, ast.Del)) and isinstance(n.value, ast.Name):
                        stores[n.attr] = stores.get(n.attr, 0) + 1
        written = {self._written(n) for n in ast.walk(c)} - {None}
        if init is not None and init.args.args:
            me = init.args.args[0].arg
            for st in init.body:
                tgt, val = self._single_target(st)
                if isinstance(tgt, ast.Attribute) and isinstance(tgt.value, ast.Name) and tgt.value.id == me and self._is_table(val) \
                        and stores.get(tgt.attr) == 1 and f"{me}.{tgt.attr}" not in written:
                    tables[f"{me}.{tgt.attr}"] = val
        for m in c.body:
            if isinstance(m, ast.FunctionDef) and m is not init:
                self._function(m, tables)

    # ---- one function ----------------------------------------------------------
    def _lookup(self, e, tables):
        """(table display, key expression, default expression or None, has_default) when e is T[k] / T.get(k[, d])"""
        if isinstance(e, ast.Subscript) and ast.unparse(e.value) in tables and isinstance(e.slice, (ast.Name, ast.Attribute)):
            return tables[ast.unparse(e.value)], e.slice, None, False
        if isinstance(e, ast.Call) and isinstance(e.func, ast.Attribute) and e.func.attr == "get" and ast.unparse(e.func.value) in tables \
                and not e.keywords and len(e.args) in (1, 2) and isinstance(e.args[0], (ast.Name, ast.Attribute)):
            if len(e.args) == 2 and isinstance(e.args[1], (ast.Name, ast.Attribute)):
                return tables[ast.unparse(e.func.value)], e.args[0], e.args[1], True
        return None

    def _function(self, fn, tables):
        if not tables:
            return
        # v = T[k] / T.get(k, d), v bound once and only ever called
        self.vars = {}
        binds, uses = {}, {}
        for n in ast.walk(fn):
            if isinstance(n, ast.Name):
                (binds if isinstance(n.ctx, ast.Store) else uses).setdefault(n.id, []).append(n)
        call_funcs = {id(n.func) for n in ast.walk(fn) if isinstance(n, ast.Call)}
        self.drop = set()
        for n in ast.walk(fn):
            tgt, val = self._single_target(n) if isinstance(n, ast.stmt) else (None, None)
            if isinstance(tgt, ast.Name) and val is not None:
                lk = self._lookup(val, tables)
                if lk and len(binds.get(tgt.id, [])) == 1 and uses.get(tgt.id) and all(id(u) in call_funcs for u in uses[tgt.id]):
                    key_names = {x.id for x in ast.walk(lk[1]) if isinstance(x, ast.Name)}
                    if all(len(binds.get(k, [])) <= 1 for k in key_names):
                        self.vars[tgt.id] = lk
                        self.drop.add(id(n))
        self.tables = tables
        self._block_owner(fn, [])

    def _block_owner(self, node, ctx):
        for field in ("body", "orelse", "finalbody"):
            b = getattr(node, field, None)
            if isinstance(b, list) and b and isinstance(b[0], ast.stmt):
                setattr(node, field, self._block(b, ctx))
        for h in getattr(node, "handlers", []) or []:
            h.body = self._block(h.body, ctx)
        if isinstance(node, ast.Match):
            subj = ast.unparse(node.subject)
            for c in node.cases:
                keys = self._pattern_keys(c.pattern)
                c.body = self._block(c.body, ctx + ([(subj, keys)] if keys is not None else []))

    @staticmethod
    def _pattern_keys(p):
        pats = p.patterns if isinstance(p, ast.MatchOr) else [p]
        if all(isinstance(x, ast.MatchValue) and isinstance(x.value, ast.Constant) for x in pats):
            return {x.value.value for x in pats}
        return None

    def _block(self, stmts, ctx):
        out = []
        for st in stmts:
            if id(st) in self.drop:
                continue
            if isinstance(st, (ast.Return, ast.Assign, ast.AnnAssign, ast.AugAssign, ast.Expr)):
                out.append(self._simple(st, ctx))
            else:
                if not isinstance(st, (ast.FunctionDef, ast.ClassDef)):
                    self._block_owner(st, ctx)
                out.append(st)
        return out

    def _simple(self, st, ctx):
        sites = []
        for n in ast.walk(st):
            if isinstance(n, ast.Call):
                lk = self.vars.get(n.func.id) if isinstance(n.func, ast.Name) else self._lookup(n.func, self.tables)
                if lk:
                    sites.append((n, lk))
        if len(sites) != 1:
            return st
        call, (table, key, default, has_default) = sites[0]
        keytext = ast.unparse(key)
        restrict = None
        for subj, keys in ctx:
            if subj == keytext:
                restrict = keys if restrict is None else restrict & keys
        groups = {}
        for k, v in zip(table.keys, table.values):
            if restrict is not None and k.value not in restrict:
                continue
            groups.setdefault(ast.unparse(v), (v, []))[1].append(k)
        import copy
        cases = []

        def arm(func_expr):
            old = call.func
            call.func = func_expr
            try:
                return copy.deepcopy(st)
            finally:
                call.func = old
        for _txt, (v, ks) in groups.items():
            pats = [ast.MatchValue(value=copy.deepcopy(k)) for k in ks]
            cases.append(ast.match_case(pattern=pats[0] if len(pats) == 1 else ast.MatchOr(patterns=pats), guard=None, body=[arm(copy.deepcopy(v))]))
        covered = restrict is not None and restrict <= {k.value for k in table.keys}
        if not covered:
            if has_default:
                cases.append(ast.match_case(pattern=ast.MatchAs(pattern=None, name=None), guard=None, body=[arm(copy.deepcopy(default))]))
            else:
                orig = copy.deepcopy(st)
                if isinstance(call.func, ast.Name):      # v(...) with v = T[k]: keep the look-up visible
                    return st
                cases.append(ast.match_case(pattern=ast.MatchAs(pattern=None, name=None), guard=None, body=[orig]))
        if not cases:
            return st
        m = ast.Match(subject=copy.deepcopy(key), cases=cases)
        ast.copy_location(m, st)
        for c in cases:
            for b in c.body:
                ast.copy_location(b, st)
        return m


def _namedtuples_to_tuples(tree):
    """A private NamedTuple (or frozen dataclass used the same way) that only bundles values reads as the plain tuple: `NT(a, b, c)` is
    `(a, b, c)` and `x.field` is `x[i]`.  Only module-level classes whose every member is an annotated field, and only field names that
    occur in no other role in the module (no c_ast slot, no assigned attribute of that name), are rewritten."""
    nts = {}
    for st in tree.body:
        if isinstance(st, ast.ClassDef) and any((isinstance(b, ast.Name) and b.id == "NamedTuple") or (isinstance(b, ast.Attribute) and b.attr == "NamedTuple") for b in st.bases):
            body = [x for x in st.body if not (isinstance(x, ast.Expr) and isinstance(x.value, ast.Constant))]
            if body and all(isinstance(x, ast.AnnAssign) and isinstance(x.target, ast.Name) and x.value is None for x in body):
                nts[st.name] = [x.target.id for x in body]
    if not nts:
        return
    # type-directed: `x.field` is rewritten only where x is known to hold one of these tuples - a variable / parameter annotated with the class,
    # a variable bound to `NT(...)` or to the result of a function whose return annotation names the class, or such a call itself
    def nt_in(ann):
        if ann is None:
            return None
        txt = ast.unparse(ann) if not (isinstance(ann, ast.Constant) and isinstance(ann.value, str)) else ann.value
        hits = [n_ for n_ in nts if re.search(r"(?<![A-Za-z0-9_])" + re.escape(n_) + r"(?![A-Za-z0-9_])", txt)]
        return hits[0] if len(hits) == 1 else None
    ret_nt = {}
    for f_ in ast.walk(tree):
        if isinstance(f_, ast.FunctionDef):
            h = nt_in(f_.returns)
            if h:
                ret_nt[f_.name] = h

    def call_nt(v):
        if isinstance(v, ast.Call):
            if isinstance(v.func, ast.Name) and v.func.id in nts:
                return v.func.id
            nm = v.func.id if isinstance(v.func, ast.Name) else (v.func.attr if isinstance(v.func, ast.Attribute) else None)
            return ret_nt.get(nm)
        return None

    def typed_vars(scope):
        tv, bad = {}, set()
        if isinstance(scope, ast.FunctionDef):
            for a in scope.args.args + scope.args.kwonlyargs:
                h = nt_in(a.annotation)
                if h:
                    tv[a.arg] = h
        for n in ast.walk(scope):
            if isinstance(n, ast.AnnAssign) and isinstance(n.target, ast.Name):
                h = nt_in(n.annotation)
                if h:
                    tv[n.target.id] = h
            elif isinstance(n, (ast.Assign, ast.NamedExpr)):
                tgts = n.targets if isinstance(n, ast.Assign) else [n.target]
                for t in tgts:
                    if isinstance(t, ast.Name):
                        h = call_nt(n.value)
                        if h:
                            tv.setdefault(t.id, h)
                        elif not (isinstance(n.value, ast.Constant) and n.value.value is None) and not (isinstance(n.value, ast.Name) and n.value.id in tv):
                            bad.add(t.id)
        return {k: v for k, v in tv.items() if k not in bad or any(isinstance(n, ast.AnnAssign) and isinstance(n.target, ast.Name) and n.target.id == k for n in ast.walk(scope))}

    class T(ast.NodeTransformer):
        def __init__(self):
            self.tv = [typed_vars(tree)]

        def visit_FunctionDef(self, n):
            self.tv.append({**self.tv[-1], **typed_vars(n)})
            self.generic_visit(n)
            self.tv.pop()
            return n

        def visit_Call(self, n):
            self.generic_visit(n)
            if isinstance(n.func, ast.Name) and n.func.id in nts and not any(isinstance(a, ast.Starred) for a in n.args):
                fields = nts[n.func.id]
                vals = dict(zip(fields, n.args))
                for k in n.keywords:
                    if k.arg is None:
                        return n
                    vals[k.arg] = k.value
                if set(vals) == set(fields):
                    return ast.copy_location(ast.Tuple(elts=[vals[f] for f in fields], ctx=ast.Load()), n)
            return n

        def visit_Attribute(self, n):
            holder = None
            if isinstance(n.ctx, ast.Load):
                if isinstance(n.value, ast.Name):
                    holder = self.tv[-1].get(n.value.id)
                else:
                    holder = call_nt(n.value)
            self.generic_visit(n)
            if holder and n.attr in nts[holder]:
                return ast.copy_location(ast.Subscript(value=n.value, slice=ast.Constant(value=nts[holder].index(n.attr)), ctx=ast.Load()), n)
            return n
    T().visit(tree)


def _inline_class_tuples(tree):
    """`isinstance(x, _NAMES)` with `_NAMES = (c_ast.A, c_ast.B, ...)` bound once at module level reads as `isinstance(x, (c_ast.A, c_ast.B, ...))`"""
    import copy
    tuples, binds = {}, {}
    for n in ast.walk(tree):
        if isinstance(n, ast.Name) and isinstance(n.ctx, (ast.Store, ast.Del)):
            binds[n.id] = binds.get(n.id, 0) + 1
    for st in tree.body:
        tgt = st.targets[0] if isinstance(st, ast.Assign) and len(st.targets) == 1 else (st.target if isinstance(st, ast.AnnAssign) and st.value is not None else None)
        if isinstance(tgt, ast.Name) and isinstance(st.value, ast.Tuple) and st.value.elts and all(isinstance(e, (ast.Name, ast.Attribute)) for e in st.value.elts) and binds.get(tgt.id) == 1:
            tuples[tgt.id] = st.value
    if not tuples:
        return
    for n in ast.walk(tree):
        if isinstance(n, ast.Call) and isinstance(n.func, ast.Name) and n.func.id == "isinstance" and len(n.args) == 2 and isinstance(n.args[1], ast.Name) and n.args[1].id in tuples:
            n.args[1] = ast.copy_location(copy.deepcopy(tuples[n.args[1].id]), n.args[1])


class _CharTestsToIn(ast.NodeTransformer):
    """`c == " " or c == "\t"` and `c in (" ", "\t")` read as `c in " \t"`: one spelling of a test of a character against a small set"""

    def visit_BoolOp(self, node):
        self.generic_visit(node)
        if isinstance(node.op, ast.Or) and len(node.values) >= 2 and all(
                isinstance(v, ast.Compare) and len(v.ops) == 1 and isinstance(v.ops[0], ast.Eq) and isinstance(v.comparators[0], ast.Constant)
                and isinstance(v.comparators[0].value, str) and len(v.comparators[0].value) == 1 for v in node.values) \
                and len({ast.unparse(v.left) for v in node.values}) == 1 and isinstance(node.values[0].left, (ast.Name, ast.Subscript, ast.Attribute)) \
                and not any(isinstance(x, ast.Call) for x in ast.walk(node.values[0].left)):
            chars = "".join(v.comparators[0].value for v in node.values)
            return ast.copy_location(ast.Compare(left=node.values[0].left, ops=[ast.In()], comparators=[ast.Constant(value=chars)]), node)
        return node

    def visit_Compare(self, node):
        self.generic_visit(node)
        if len(node.ops) == 1 and isinstance(node.ops[0], (ast.In, ast.NotIn)) and isinstance(node.comparators[0], (ast.Tuple, ast.List, ast.Set)) and len(node.comparators[0].elts) >= 2 \
                and all(isinstance(e, ast.Constant) and isinstance(e.value, str) and len(e.value) == 1 for e in node.comparators[0].elts) \
                and isinstance(node.left, ast.Subscript):        # a character taken out of a text (`text[pos] in (" ", "\t")`), not a token value
            node.comparators = [ast.copy_location(ast.Constant(value="".join(e.value for e in node.comparators[0].elts)), node.comparators[0])]
        return node


def _static_to_method(tree):
    """`@staticmethod def m(a, b)` in a class reads as `def m(self, a, b)`: whether a helper that does not use its instance is declared static
    is no difference in behaviour for calls made through an instance, and every engine can rely on parameter 0 being the receiver."""
    for c in ast.walk(tree):
        if not isinstance(c, ast.ClassDef):
            continue
        for m in c.body:
            if isinstance(m, ast.FunctionDef) and any(isinstance(d, ast.Name) and d.id == "staticmethod" for d in m.decorator_list):
                used = {a.arg for a in m.args.posonlyargs + m.args.args + m.args.kwonlyargs} | {n.id for n in ast.walk(m) if isinstance(n, ast.Name)}
                name = "self" if "self" not in used else "__self"
                m.decorator_list = [d for d in m.decorator_list if not (isinstance(d, ast.Name) and d.id == "staticmethod")]
                m.args.args.insert(0, ast.arg(arg=name, annotation=None, lineno=m.lineno, col_offset=m.col_offset, end_lineno=m.lineno, end_col_offset=m.col_offset))
                m._was_static = True  # type: ignore[attr-defined]


def _inline_self_aliases(tree):
    """`f = self._helper` / `table = self.precedence_map` followed by uses of the local reads as the attribute itself, when the attribute is never
    re-bound outside __init__ (a method, a class-level table, an attribute set once by the constructor): the local is then only another name for
    the same object for the whole call.  (A local that snapshots an attribute which methods re-assign - a cursor, a counter - is left alone.)"""
    import copy
    for c in ast.walk(tree):
        if not isinstance(c, ast.ClassDef):
            continue
        rebound = set()
        for m in c.body:
            if not isinstance(m, ast.FunctionDef) or m.name == "__init__" or not m.args.args:
                continue
            sn = m.args.args[0].arg
            for n in ast.walk(m):
                if isinstance(n, ast.Attribute) and isinstance(n.ctx, (ast.Store, ast.Del)) and isinstance(n.value, ast.Name) and n.value.id == sn:
                    rebound.add(n.attr)
        for m in c.body:
            if not isinstance(m, ast.FunctionDef) or not m.args.args:
                continue
            sn = m.args.args[0].arg
            a_ = m.args
            params = {x.arg for x in a_.posonlyargs + a_.args + a_.kwonlyargs} | ({a_.vararg.arg} if a_.vararg else set()) | ({a_.kwarg.arg} if a_.kwarg else set())
            stores = {}
            for n in ast.walk(m):
                if isinstance(n, ast.Name) and isinstance(n.ctx, (ast.Store, ast.Del)):
                    stores[n.id] = stores.get(n.id, 0) + 1
                elif isinstance(n, (ast.Global, ast.Nonlocal)):
                    for nm in n.names:
                        stores[nm] = stores.get(nm, 0) + 2
                elif isinstance(n, (ast.FunctionDef, ast.Lambda)) and n is not m:
                    b_ = n.args
                    for nm in [x.arg for x in b_.posonlyargs + b_.args + b_.kwonlyargs] + ([b_.vararg.arg] if b_.vararg else []) + ([b_.kwarg.arg] if b_.kwarg else []):
                        stores[nm] = stores.get(nm, 0) + 2       # a nested scope re-uses the name: leave it alone
            aliases = {}
            for st in list(m.body):
                if isinstance(st, ast.Assign) and len(st.targets) == 1 and isinstance(st.targets[0], ast.Name) and isinstance(st.value, ast.Attribute) \
                        and isinstance(st.value.value, ast.Name) and st.value.value.id == sn and st.value.attr not in rebound \
                        and stores.get(st.targets[0].id) == 1 and st.targets[0].id not in params and sn not in stores:
                    aliases[st.targets[0].id] = (st, st.value)
            if not aliases:
                continue

            class T(ast.NodeTransformer):
                def visit_Name(self, n):
                    if isinstance(n.ctx, ast.Load) and n.id in aliases:
                        return ast.copy_location(copy.deepcopy(aliases[n.id][1]), n)
                    return n
            gone = {id(st) for st, _ in aliases.values()}
            m.body = [st for st in m.body if id(st) not in gone] or [ast.copy_location(ast.Pass(), m)]
            for i, st in enumerate(m.body):
                m.body[i] = T().visit(st)


class Module:
    def __init__(self, name, path, src=None):
        self.name = name
        self.path = path
        self.rel = os.path.relpath(path, REPO) if src is None else path
        if src is None:
            with open(path) as f:
                src = f.read()
        self.src = src
        try:
            self.tree = ast.parse(self.src, filename=path)
        except SyntaxError as e:  # the tree must at least compile
            raise AnalysisError(f"{path} does not parse: {e}")
        _namedtuples_to_tuples(self.tree)
        _inline_class_tuples(self.tree)
        self.tree = _ChainsToMatch().visit(self.tree)     # one normal form for dispatch on a value: `if x == A: .. elif x == B: .. else: ..` (3+ arms) reads as match/case
        _static_to_method(self.tree)
        _inline_self_aliases(self.tree)
        _TablesToMatch(self.tree).run()
        self.tree = _CharTestsToIn().visit(self.tree)
        ast.fix_missing_locations(self.tree)
        self.classes: dict[str, ast.ClassDef] = {}
        self.functions: dict[str, ast.FunctionDef] = {}
        self.assigns: dict[str, list[ast.stmt]] = {}
        for node in self.tree.body:
            if isinstance(node, ast.ClassDef):
                self.classes[node.name] = node
            elif isinstance(node, (ast.FunctionDef, ast.AsyncFunctionDef)):
                self.functions[node.name] = node
            elif isinstance(node, (ast.Assign, ast.AnnAssign, ast.AugAssign)):
                for t in _targets(node):
                    self.assigns.setdefault(t, []).append(node)
        for node in ast.walk(self.tree):
            for child in ast.iter_child_nodes(node):
                child._parent = node  # type: ignore[attr-defined]

    def methods(self, cls: str) -> dict[str, ast.FunctionDef]:
        c = self.classes.get(cls)
        if c is None:
            raise AnalysisError(f"anchor class {cls} vanished from {self.rel}")
        return {n.name: n for n in c.body if isinstance(n, (ast.FunctionDef, ast.AsyncFunctionDef))}

    def method(self, cls: str, name: str) -> ast.FunctionDef:
        m = self.methods(cls).get(name)
        if m is None:
            raise AnalysisError(f"anchor method {cls}.{name} vanished from {self.rel}")
        return m

    def function(self, name: str) -> ast.FunctionDef:
        f = self.functions.get(name)
        if f is None:
            raise AnalysisError(f"anchor function {name} vanished from {self.rel}")
        return f


def _targets(node):
    out = []
    if isinstance(node, ast.Assign):
        for t in node.targets:
            out += [n.id for n in ast.walk(t) if isinstance(n, ast.Name)]
    elif isinstance(node, (ast.AnnAssign, ast.AugAssign)):
        if isinstance(node.target, ast.Name):
            out.append(node.target.id)
    return out


_cache: dict[str, Module] = {}


def module(name: str) -> Module:
    if name not in _cache:
        path = os.path.join(PKG, name + ".py")
        if not os.path.exists(path):
            raise AnalysisError(f"anchor module {path} vanished")
        _cache[name] = Module(name, path)
    return _cache[name]


def all_modules() -> list[Module]:
    return [module(n) for n in MODULES]


def unparse(node) -> str:
    return " ".join(ast.unparse(node).split())


def positional_args(call, fn, bound=True):
    """The argument expressions of `call` in the parameter order of the FunctionDef `fn` (None where the parameter keeps its default), whether
    they were passed by position or by keyword; `bound`: the call goes through an instance/class (the first parameter of a plain method is
    implicit).  None when the call uses * / ** or does not fit the signature."""
    params = [a.arg for a in fn.args.posonlyargs + fn.args.args]
    static = any(isinstance(d, ast.Name) and d.id == "staticmethod" for d in fn.decorator_list)    # (not normalised by _static_to_method)
    if bound and not static and params:
        params = params[1:]
    kwonly = [a.arg for a in fn.args.kwonlyargs]
    if any(isinstance(a, ast.Starred) for a in call.args) or any(k.arg is None for k in call.keywords) or len(call.args) > len(params):
        return None
    out = dict.fromkeys(params + kwonly)
    for p, a in zip(params, call.args):
        out[p] = a
    for k in call.keywords:
        if k.arg not in out or out[k.arg] is not None:
            return None
        out[k.arg] = k.value
    return [out[p] for p in params + kwonly]


def path_aliases(fn):
    """local name -> the path expression it stands for, for locals bound exactly once to a call-free path (`scope = self._scope_stack[-1]`)
    in a function that does not rebind the path's root; reading through the alias is reading through the path"""
    binds, vals = {}, {}
    for n in ast.walk(fn):
        if isinstance(n, ast.Name) and isinstance(n.ctx, (ast.Store, ast.Del)):
            binds[n.id] = binds.get(n.id, 0) + 1
        if isinstance(n, ast.Assign) and len(n.targets) == 1 and isinstance(n.targets[0], ast.Name):
            vals[n.targets[0].id] = n.value
        elif isinstance(n, ast.AnnAssign) and isinstance(n.target, ast.Name) and n.value is not None:
            vals[n.target.id] = n.value
    params = {a.arg for a in fn.args.posonlyargs + fn.args.args + fn.args.kwonlyargs}
    out = {}
    for name, v in vals.items():
        if binds.get(name) != 1 or name in params:
            continue
        e = v
        while isinstance(e, (ast.Attribute, ast.Subscript)):
            if isinstance(e, ast.Subscript) and not (isinstance(e.slice, ast.Constant) or (isinstance(e.slice, ast.UnaryOp) and isinstance(e.slice.operand, ast.Constant))):
                break
            e = e.value
        if isinstance(e, ast.Name) and e.id != name and (e.id in params or binds.get(e.id, 0) == 0) and isinstance(v, (ast.Attribute, ast.Subscript)):
            out[name] = v
    return out


def unparse_resolved(expr, aliases) -> str:
    """text of expr with transparent aliases (path_aliases) replaced by the paths they stand for"""
    import copy

    class R(ast.NodeTransformer):
        def visit_Name(self, n):
            if n.id in aliases:
                return copy.deepcopy(aliases[n.id])
            return n
    return ast.unparse(R().visit(copy.deepcopy(expr)))


def enclosing_function(node):
    cur = getattr(node, "_parent", None)
    while cur is not None and not isinstance(cur, (ast.FunctionDef, ast.AsyncFunctionDef, ast.Lambda)):
        cur = getattr(cur, "_parent", None)
    return cur


def qualname(mod: Module, fn) -> str:
    names = []
    cur = fn
    while cur is not None and not isinstance(cur, ast.Module):
        if isinstance(cur, (ast.FunctionDef, ast.AsyncFunctionDef, ast.ClassDef)):
            names.append(cur.name)
        cur = getattr(cur, "_parent", None)
    return mod.name + ":" + ".".join(reversed(names))


# ---------------------------------------------------------------------------
# Constant folder for module-level (and class-level) table initialisers
# ---------------------------------------------------------------------------
class Record:
    """A folded dataclass-like record (e.g. _RegexRule, _FixedToken)."""

    def __init__(self, cls, fields):
        self.cls = cls
        self.fields = fields

    def __getattr__(self, k):
        try:
            return self.__dict__["fields"][k]
        except KeyError:
            raise AttributeError(k)

    def __repr__(self):
        return f"{self.cls}({self.fields})"


class EnumVal:
    def __init__(self, cls, name, value):
        self.cls, self.name, self.value = cls, name, value

    def __eq__(self, o):
        return isinstance(o, EnumVal) and (self.cls, self.name) == (o.cls, o.name)

    def __hash__(self):
        return hash((self.cls, self.name))

    def __repr__(self):
        return f"{self.cls}.{self.name}"


class Pattern:
    """A folded re.compile(...) value: only the pattern string is kept."""

    def __init__(self, pattern, flags=0):
        self.pattern, self.flags = pattern, flags

    def __repr__(self):
        return f"re.compile({self.pattern!r})"


class Opaque:
    """Something the folder does not evaluate (type aliases, functions...)."""

    def __init__(self, what):
        self.what = what

    def __repr__(self):
        return f"<opaque {self.what}>"


class FoldError(Exception):
    pass


_STR_METHODS = {"startswith", "endswith", "upper", "lower", "isalpha", "isdigit", "join", "strip", "lstrip",
                "rstrip", "format", "replace", "split"}
_LIST_MUTATORS = {"append", "extend", "insert", "sort", "reverse"}
_DICT_METHODS = {"setdefault", "get", "values", "keys", "items", "update"}


class Folder:
    """Total evaluator for a whitelisted subset of module-level Python.

    Only literals, operators on str/int/set/list/dict/tuple, comprehensions,
    f-strings, pure str/list/dict methods, record constructors of the module's
    own dataclasses, Enum members and `re.compile` (kept as a pattern string)
    are evaluated.  Anything else yields Opaque (for bindings nobody asks
    about) or raises FoldError when its value is requested.
    """

    def __init__(self, mod: Module):
        self.mod = mod
        self.env: dict[str, object] = {}
        self.enums: dict[str, dict[str, EnumVal]] = {}
        self.records: dict[str, list[str]] = {}
        self.errors: dict[str, str] = {}
        self._scan_classes()
        self._run(mod.tree.body, self.env)

    # -- classes -----------------------------------------------------
    def _scan_classes(self):
        for name, c in self.mod.classes.items():
            bases = [unparse(b) for b in c.bases]
            decos = [unparse(d) for d in c.decorator_list]
            if any(b in ("Enum", "enum.Enum") for b in bases):
                members = {}
                for st in c.body:
                    if isinstance(st, ast.Assign) and len(st.targets) == 1 and isinstance(st.targets[0], ast.Name):
                        try:
                            members[st.targets[0].id] = EnumVal(name, st.targets[0].id, ast.literal_eval(st.value))
                        except Exception:
                            pass
                self.enums[name] = members
            elif any(d.startswith("dataclass") for d in decos):
                fields = [st.target.id for st in c.body if isinstance(st, ast.AnnAssign) and isinstance(st.target, ast.Name)]
                self.records[name] = fields

    # -- statements --------------------------------------------------
    def _run(self, body, env):
        for st in body:
            try:
                self._stmt(st, env)
            except FoldError as e:
                # whatever the statement may write becomes opaque (fail closed on use)
                for name in self._written_names(st):
                    env[name] = Opaque(str(e))
                    self.errors[name] = str(e)

    @staticmethod
    def _written_names(st):
        out = set()
        for n in ast.walk(st):
            if isinstance(n, ast.Name) and isinstance(n.ctx, (ast.Store, ast.Del)):
                out.add(n.id)
            elif isinstance(n, (ast.Subscript, ast.Attribute)) and isinstance(getattr(n, "ctx", None), (ast.Store, ast.Del)):
                base = n.value
                while isinstance(base, (ast.Subscript, ast.Attribute)):
                    base = base.value
                if isinstance(base, ast.Name):
                    out.add(base.id)
            elif isinstance(n, ast.Call) and isinstance(n.func, ast.Attribute):
                base = n.func.value
                while True:
                    if isinstance(base, (ast.Subscript, ast.Attribute)):
                        base = base.value
                    elif isinstance(base, ast.Call) and isinstance(base.func, ast.Attribute):
                        base = base.func.value
                    else:
                        break
                if isinstance(base, ast.Name):
                    out.add(base.id)
        return out

    def _stmt(self, st, env):
        if isinstance(st, ast.Assign):
            v = self.ev(st.value, env)
            for t in st.targets:
                self._assign(t, v, env)
        elif isinstance(st, ast.AnnAssign):
            if st.value is not None:
                self._assign(st.target, self.ev(st.value, env), env)
        elif isinstance(st, ast.AugAssign):
            cur = self.ev(st.target, env)
            v = self._binop(st.op, cur, self.ev(st.value, env))
            self._assign(st.target, v, env)
        elif isinstance(st, ast.For):
            it = self.ev(st.iter, env)
            if isinstance(it, Opaque):
                raise FoldError("loop over opaque value")
            for x in list(it):
                self._assign(st.target, x, env)
                self._run_strict(st.body, env)
        elif isinstance(st, ast.If):
            if self.ev(st.test, env):
                self._run_strict(st.body, env)
            else:
                self._run_strict(st.orelse, env)
        elif isinstance(st, ast.Expr):
            if isinstance(st.value, ast.Constant):
                return
            self.ev(st.value, env)
        elif isinstance(st, (ast.Import, ast.ImportFrom, ast.FunctionDef, ast.ClassDef, ast.Pass)):
            if isinstance(st, ast.ClassDef):
                env[st.name] = Opaque("class " + st.name)
            elif isinstance(st, ast.FunctionDef):
                env[st.name] = Opaque("function " + st.name)
        else:
            raise FoldError(f"unsupported module-level statement {type(st).__name__} at line {st.lineno}")

    def _run_strict(self, body, env):
        for st in body:
            self._stmt(st, env)

    def _assign(self, t, v, env):
        if isinstance(t, ast.Name):
            env[t.id] = v
        elif isinstance(t, (ast.Tuple, ast.List)):
            vs = list(v)
            if len(vs) != len(t.elts):
                raise FoldError("unpack mismatch")
            for tt, vv in zip(t.elts, vs):
                self._assign(tt, vv, env)
        elif isinstance(t, ast.Subscript):
            obj = self.ev(t.value, env)
            if not isinstance(obj, (dict, list)):
                raise FoldError("subscript store on non-container")
            obj[self.ev(t.slice, env)] = v
        else:
            raise FoldError(f"unsupported assignment target {type(t).__name__}")

    # -- expressions -------------------------------------------------
    def ev(self, e, env):
        if isinstance(e, ast.Constant):
            return e.value
        if isinstance(e, ast.Name):
            if e.id in env:
                return env[e.id]
            if e.id in self.env:
                return self.env[e.id]
            if e.id in ("True", "False", "None"):
                return {"True": True, "False": False, "None": None}[e.id]
            return Opaque("name " + e.id)
        if isinstance(e, ast.Tuple):
            return tuple(self.ev(x, env) for x in e.elts)
        if isinstance(e, ast.List):
            return [self.ev(x, env) for x in e.elts]
        if isinstance(e, ast.Set):
            return {self._hashable(self.ev(x, env)) for x in e.elts}
        if isinstance(e, ast.Dict):
            out = {}
            for k, v in zip(e.keys, e.values):
                if k is None:
                    out.update(self.ev(v, env))
                else:
                    out[self._hashable(self.ev(k, env))] = self.ev(v, env)
            return out
        if isinstance(e, ast.BinOp):
            return self._binop(e.op, self.ev(e.left, env), self.ev(e.right, env))
        if isinstance(e, ast.UnaryOp):
            v = self.ev(e.operand, env)
            if isinstance(e.op, ast.Not):
                return not v
            if isinstance(e.op, ast.USub):
                return -v
            raise FoldError("unary op")
        if isinstance(e, ast.BoolOp):
            vals = e.values
            if isinstance(e.op, ast.And):
                r = True
                for x in vals:
                    r = self.ev(x, env)
                    if not r:
                        return r
                return r
            r = False
            for x in vals:
                r = self.ev(x, env)
                if r:
                    return r
            return r
        if isinstance(e, ast.Compare):
            left = self.ev(e.left, env)
            for op, c in zip(e.ops, e.comparators):
                right = self.ev(c, env)
                ok = self._cmp(op, left, right)
                if not ok:
                    return False
                left = right
            return True
        if isinstance(e, ast.JoinedStr):
            out = ""
            for part in e.values:
                if isinstance(part, ast.Constant):
                    out += part.value
                else:
                    v = self.ev(part.value, env)
                    if isinstance(v, Opaque):
                        raise FoldError("f-string over opaque value")
                    if part.conversion == 114:
                        v = repr(v)
                    out += format(v, self.ev(part.format_spec, env) if part.format_spec else "")
            return out
        if isinstance(e, ast.Subscript):
            obj = self.ev(e.value, env)
            if isinstance(obj, Opaque):
                return Opaque("subscript of " + obj.what)  # typing aliases such as Dict[str, str]
            if isinstance(e.slice, ast.Slice):
                lo = self.ev(e.slice.lower, env) if e.slice.lower else None
                hi = self.ev(e.slice.upper, env) if e.slice.upper else None
                return obj[lo:hi]
            return obj[self.ev(e.slice, env)]
        if isinstance(e, ast.Attribute):
            if isinstance(e.value, ast.Name) and e.value.id in self.enums:
                m = self.enums[e.value.id].get(e.attr)
                if m is None:
                    raise FoldError(f"unknown enum member {e.value.id}.{e.attr}")
                return m
            obj = self.ev(e.value, env)
            if isinstance(obj, Record):
                return obj.fields[e.attr]
            if isinstance(obj, Opaque):
                return Opaque(obj.what + "." + e.attr)
            raise FoldError(f"attribute {e.attr} of {type(obj).__name__}")
        if isinstance(e, ast.IfExp):
            return self.ev(e.body if self.ev(e.test, env) else e.orelse, env)
        if isinstance(e, (ast.ListComp, ast.SetComp, ast.GeneratorExp, ast.DictComp)):
            return self._comp(e, env)
        if isinstance(e, ast.Lambda):
            return ("lambda", e, env)
        if isinstance(e, ast.Call):
            return self._call(e, env)
        raise FoldError(f"unsupported expression {type(e).__name__} at line {getattr(e, 'lineno', '?')}")

    def _hashable(self, v):
        if isinstance(v, list):
            return tuple(v)
        return v

    def _binop(self, op, a, b):
        if isinstance(a, Opaque) or isinstance(b, Opaque):
            raise FoldError("operator on opaque value")
        if isinstance(op, ast.Add):
            return a + b
        if isinstance(op, ast.BitOr):
            return a | b
        if isinstance(op, ast.BitAnd):
            return a & b
        if isinstance(op, ast.Sub):
            return a - b
        if isinstance(op, ast.Mult):
            return a * b
        if isinstance(op, ast.Mod) and isinstance(a, str):
            return a % b
        raise FoldError("binary op " + type(op).__name__)

    def _cmp(self, op, a, b):
        if isinstance(op, ast.Eq):
            return a == b
        if isinstance(op, ast.NotEq):
            return a != b
        if isinstance(op, ast.In):
            return a in b
        if isinstance(op, ast.NotIn):
            return a not in b
        if isinstance(op, ast.Is):
            return a is b
        if isinstance(op, ast.IsNot):
            return a is not b
        if isinstance(op, ast.Lt):
            return a < b
        if isinstance(op, ast.LtE):
            return a <= b
        if isinstance(op, ast.Gt):
            return a > b
        if isinstance(op, ast.GtE):
            return a >= b
        raise FoldError("compare op")

    def _comp(self, e, env):
        results = []

        def rec(i, env2):
            if i == len(e.generators):
                if isinstance(e, ast.DictComp):
                    results.append((self.ev(e.key, env2), self.ev(e.value, env2)))
                else:
                    results.append(self.ev(e.elt, env2))
                return
            g = e.generators[i]
            for x in list(self.ev(g.iter, env2)):
                env3 = dict(env2)
                self._assign(g.target, x, env3)
                if all(self.ev(c, env3) for c in g.ifs):
                    rec(i + 1, env3)

        rec(0, dict(env))
        if isinstance(e, ast.SetComp):
            return set(results)
        if isinstance(e, ast.DictComp):
            return dict(results)
        return results

    def _apply(self, fn, args):
        if isinstance(fn, tuple) and fn and fn[0] == "lambda":
            _, lam, env = fn
            env2 = dict(env)
            for a, v in zip(lam.args.args, args):
                env2[a.arg] = v
            return self.ev(lam.body, env2)
        raise FoldError("call of non-lambda value")

    def _call(self, e, env):
        f = e.func
        args = [self.ev(a, env) for a in e.args]
        kwargs = {k.arg: self.ev(k.value, env) for k in e.keywords}
        if isinstance(f, ast.Name):
            if f.id in self.records:
                fields = dict(zip(self.records[f.id], args))
                fields.update(kwargs)
                return Record(f.id, fields)
            if f.id in ("len", "tuple", "list", "set", "frozenset", "dict", "sorted", "str", "int", "repr", "bool",
                        "min", "max", "sum", "reversed", "enumerate", "zip", "range", "any", "all"):
                if any(isinstance(a, Opaque) for a in args):
                    raise FoldError(f"{f.id}() of opaque value")
                if f.id == "sorted" and "key" in kwargs:
                    key = kwargs.pop("key")
                    return sorted(*args, key=lambda x: self._apply(key, [x]), **kwargs)
                fn = {"len": len, "tuple": tuple, "list": list, "set": set, "frozenset": frozenset, "dict": dict,
                      "sorted": sorted, "str": str, "int": int, "repr": repr, "bool": bool, "min": min, "max": max,
                      "sum": sum, "reversed": lambda x: list(reversed(x)), "enumerate": lambda *a: list(enumerate(*a)),
                      "zip": lambda *a: list(zip(*a)), "range": lambda *a: list(range(*a)), "any": any, "all": all}[f.id]
                return fn(*args, **kwargs)
            if f.id in ("cast",):
                return args[1]
            return Opaque("call " + f.id)
        if isinstance(f, ast.Attribute):
            if isinstance(f.value, ast.Name) and f.value.id == "re" and f.attr == "compile":
                if not isinstance(args[0], str):
                    raise FoldError("re.compile of non-constant pattern")
                return Pattern(args[0], args[1] if len(args) > 1 else 0)
            obj = self.ev(f.value, env)
            if isinstance(obj, Opaque):
                return Opaque(obj.what + "." + f.attr + "()")
            if isinstance(obj, str) and f.attr in _STR_METHODS:
                return getattr(obj, f.attr)(*args, **kwargs)
            if isinstance(obj, list) and f.attr in _LIST_MUTATORS | {"index", "count", "copy"}:
                if f.attr == "sort" and "key" in kwargs:
                    key = kwargs.pop("key")
                    return obj.sort(key=lambda x: self._apply(key, [x]), **kwargs)
                return getattr(obj, f.attr)(*args, **kwargs)
            if isinstance(obj, dict) and f.attr in _DICT_METHODS | {"copy"}:
                r = getattr(obj, f.attr)(*args, **kwargs)
                if f.attr in ("values", "keys", "items"):
                    return list(r)
                return r
            if isinstance(obj, (set, frozenset)) and f.attr in ("union", "copy", "add", "update", "intersection", "difference"):
                return getattr(obj, f.attr)(*args, **kwargs)
            if isinstance(obj, tuple) and f.attr in ("index", "count"):
                return getattr(obj, f.attr)(*args)
            raise FoldError(f"method {f.attr} on {type(obj).__name__}")
        raise FoldError("unsupported call")

    # -- public ------------------------------------------------------
    def get(self, name: str):
        if name not in self.env:
            raise AnalysisError(f"anchor binding {self.mod.name}.{name} vanished")
        v = self.env[name]
        if isinstance(v, Opaque):
            raise AnalysisError(f"module-level value {self.mod.name}.{name} is outside the foldable subset: {v.what}")
        return v


_folders: dict[str, Folder] = {}


def folded(modname: str) -> Folder:
    if modname not in _folders:
        _folders[modname] = Folder(module(modname))
    return _folders[modname]


def fold_class_attr(modname: str, cls: str, attr: str):
    """Fold a class-level constant (e.g. CGenerator.precedence_map)."""
    mod = module(modname)
    c = mod.classes.get(cls)
    if c is None:
        raise AnalysisError(f"anchor class {cls} vanished from {mod.rel}")
    fo = folded(modname)
    for st in c.body:
        if isinstance(st, ast.Assign) and any(isinstance(t, ast.Name) and t.id == attr for t in st.targets):
            try:
                return fo.ev(st.value, {})
            except FoldError as e:
                raise AnalysisError(f"{cls}.{attr} not foldable: {e}")
    raise AnalysisError(f"anchor attribute {cls}.{attr} vanished from {mod.rel}")


# ---------------------------------------------------------------------------
# Lexer / parser tables in one place
# ---------------------------------------------------------------------------
class Tables:
    def __init__(self):
        lx = folded("c_lexer")
        self.keywords = tuple(lx.get("_keywords"))
        self.keyword_map = dict(lx.get("_keyword_map"))
        self.fixed_tokens = [(r.tok_type, r.literal) for r in lx.get("_fixed_tokens")]
        self.fixed_by_first = {k: [(r.tok_type, r.literal) for r in v] for k, v in lx.get("_fixed_tokens_by_first").items()}
        self.regex_rules = [(r.tok_type, r.regex_pattern, r.action.name, r.error_message) for r in lx.get("_regex_rules")]
        self.regex_actions = {k: (v[0].name, v[1]) for k, v in lx.get("_regex_actions").items()}
        self.regex_master = lx.get("_regex_master").pattern
        self.line_pattern = lx.get("_line_pattern").pattern
        self.pragma_pattern = lx.get("_pragma_pattern").pattern
        self.lexer_strings = {k: v for k, v in lx.env.items() if isinstance(v, str) and k.startswith("_")}
        self.regex_action_members = set(lx.enums.get("_RegexAction", {}))
        px = folded("c_parser")
        self.parser_sets = {}
        for k, v in px.env.items():
            if k.startswith("_") and k[1:2].isupper() and isinstance(v, (set, frozenset, dict)):
                self.parser_sets[k] = v
        self.binary_precedence = dict(px.get("_BINARY_PRECEDENCE"))
        self.gen_precedence = dict(fold_class_attr("c_generator", "CGenerator", "precedence_map"))
        # token type universe: everything the lexer model can emit
        self.emittable = (set(self.keyword_map.values()) | {t for t, _ in self.fixed_tokens}
                          | {r[0] for r in self.regex_rules if r[2] == "TOKEN"})
        if any(r[2] == "ID" for r in self.regex_rules):
            self.emittable |= {"ID"}
        self.error_rules = {r[0] for r in self.regex_rules if r[2] == "ERROR"}


_tables = None


def tables() -> Tables:
    global _tables
    if _tables is None:
        _tables = Tables()
    return _tables
