"""Command-line entry: python -m sa.main <ID> [--tier quick|thorough] [--replay path]."""
from __future__ import annotations

import argparse
import importlib
import os
import sys

from . import core

LEVELS = {}


def main(argv=None) -> int:
    ap = argparse.ArgumentParser()
    ap.add_argument("target")
    ap.add_argument("--tier", default=os.environ.get("VERIF_TIER", "quick"), choices=["quick", "thorough"])
    ap.add_argument("--replay", default=None)
    ap.add_argument("--jobs", type=int, default=16)
    ap.add_argument("rest", nargs="*")
    a = ap.parse_args(argv)
    if a.target == "selftest":
        from . import selftest
        return selftest.main(a)
    pid = a.target.upper()
    try:
        mod = importlib.import_module(f"sa.props.{pid.lower()}")
    except ModuleNotFoundError:
        print(f"ANALYSIS-ERROR property={pid}: no checker")
        return 2
    from .props import share
    share._running.append((pid, a.tier))     # the property being checked is "running": borrowing it back from a rule it borrows from is a cycle
    return core.run(pid, a.tier, lambda ctx: mod.check(ctx), getattr(mod, "LEVEL", "other"), a.replay)


if __name__ == "__main__":
    import signal
    try:
        signal.signal(signal.SIGPIPE, signal.SIG_DFL)
    except Exception:
        pass
    try:
        rc = main()
    except SystemExit:
        raise
    except BaseException as e:  # never let a traceback look like a violation (exit 1)
        print(f"ANALYSIS-ERROR: {type(e).__name__}: {e}")
        rc = 2
    sys.stdout.flush()
    os._exit(rc)
