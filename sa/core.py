"""Runner plumbing shared by all property checkers.

Exit codes: 0 = property held on everything analysed (known findings are
printed, not alarms); 1 = at least one VIOLATION line; 2 = ANALYSIS-ERROR (the
analysis itself is broken: unknown construct, vanished anchor, too few rule
instances).  Nothing here ever imports or executes code from the repository
under analysis.
"""
from __future__ import annotations

import hashlib
import json
import os
import sys
import time
import traceback

VERIF = os.path.dirname(os.path.dirname(os.path.abspath(__file__)))
REPO = os.environ.get("VERIF_REPO", "/repo")
PKG = os.path.join(REPO, "pycparser")
EVIDENCE_DIR = os.environ.get("VERIF_EVIDENCE_DIR", os.path.join(VERIF, "evidence"))
REPLAY_DIR = os.environ.get("VERIF_REPLAY_DIR", os.path.join(VERIF, "out", "replay"))
KNOWN_FINDINGS = os.path.join(VERIF, "known_findings.json")


class AnalysisError(Exception):
    """The analysis cannot give a verdict (fail closed, exit 2)."""


def norm(text: str) -> str:
    """Normalise a construct text for use in keys (whitespace-insensitive)."""
    return " ".join(text.split())


class Finding:
    __slots__ = ("rule", "key", "file", "function", "line", "construct", "message", "extra")

    def __init__(self, rule, key, message, file="", function="", line=0, construct="", extra=None):
        self.rule = rule
        self.key = key
        self.message = message
        self.file = file
        self.function = function
        self.line = line
        self.construct = construct
        self.extra = extra or {}

    def as_dict(self):
        return {
            "rule": self.rule,
            "key": self.key,
            "message": self.message,
            "file": self.file,
            "function": self.function,
            "line": self.line,
            "construct": self.construct,
            "extra": self.extra,
        }


class Ctx:
    """Collects what one property run analysed and found."""

    def __init__(self, pid: str, tier: str):
        self.pid = pid
        self.tier = tier
        self.findings: list[Finding] = []
        self.obligations = 0
        self.discharged = 0
        self.distinct: set[str] = set()
        self.samples: list = []
        self.units: dict[str, int] = {}
        self.rules: dict[str, dict] = {}
        self.notes: list[str] = []
        self.assumptions: list[str] = []
        self.trusted: list[str] = []
        self.info: dict = {}

    # -- bookkeeping -------------------------------------------------
    def unit(self, kind: str, n: int = 1):
        self.units[kind] = self.units.get(kind, 0) + n

    def rule(self, rid: str, text: str):
        self.rules.setdefault(rid, {"text": text, "instances": 0, "violations": 0})

    def oblige(self, rid: str, construct: str, ok: bool, sample=None, nontrivial: bool = True):
        """Record one evaluated rule instance (an obligation)."""
        r = self.rules.setdefault(rid, {"text": "", "instances": 0, "violations": 0})
        r["instances"] += 1
        self.obligations += 1
        if ok:
            self.discharged += 1
        if nontrivial:
            self.distinct.add(rid + "|" + construct)
        if sample is not None and len(self.samples) < 40:
            self.samples.append(sample)
        elif len(self.samples) < 12:
            self.samples.append({"rule": rid, "construct": construct[:160], "verdict": "holds" if ok else "fails"})

    def violation(self, rule, key, message, **kw):
        f = Finding(rule, key, message, **kw)
        self.findings.append(f)
        r = self.rules.setdefault(rule, {"text": "", "instances": 0, "violations": 0})
        r["violations"] += 1
        return f

    def require_instances(self, rid: str, minimum: int):
        """Fail closed when a rule matched fewer sites than confirmed by reading."""
        got = self.rules.get(rid, {}).get("instances", 0)
        if got < minimum:
            raise AnalysisError(
                f"rule {rid} evaluated {got} instances, fewer than the {minimum} confirmed by reading "
                f"(a rule matching too few sites would pass vacuously)"
            )


def load_known():
    try:
        with open(KNOWN_FINDINGS) as f:
            data = json.load(f)
    except FileNotFoundError:
        return [], []
    return data.get("findings", []), data.get("fixed", [])


def _write_replay(pid, f: Finding):
    d = os.path.join(REPLAY_DIR, pid)
    os.makedirs(d, exist_ok=True)
    h = hashlib.sha1((f.rule + "|" + f.key).encode()).hexdigest()[:12]
    path = os.path.join(d, f"{f.rule}-{h}.json")
    with open(path, "w") as fh:
        json.dump({"property": pid, **f.as_dict()}, fh, indent=1)
    return path


def run(pid: str, tier: str, check, level: str, replay: str | None = None) -> int:
    """Run `check(ctx)` for property pid, write evidence, print the verdict."""
    t0 = time.time()
    seed = int(os.environ.get("VERIF_SEED", "0") or 0)
    ctx = Ctx(pid, tier)
    status = "ok"
    err = None
    try:
        check(ctx)
    except AnalysisError as e:
        status = "analysis-error"
        err = str(e)
    except Exception as e:  # a crash of the checker is an analysis error, never a verdict
        status = "analysis-error"
        err = f"{type(e).__name__}: {e}\n" + traceback.format_exc(limit=6)

    known, _fixed = load_known()
    known_idx = {(k["property"], k["rule"], k["key"]): k for k in known}
    new, listed = [], []
    for f in ctx.findings:
        k = known_idx.get((pid, f.rule, f.key))
        (listed if k else new).append((f, k))

    # replay mode: only the instance of the replay file matters
    if replay and status == "ok":
        with open(replay) as fh:
            want = json.load(fh)
        hit = [f for f, _ in new + listed if f.rule == want.get("rule") and f.key == want.get("key")]
        for f in hit:
            print(f"REPLAY: still violated: {f.rule} {f.key}: {f.message}")
        if hit:
            print(f"VIOLATION property={pid} replay={replay}")
            return 1
        print(f"REPLAY: instance {want.get('rule')} {want.get('key')} no longer violated")
        return 0

    wall = time.time() - t0
    print(f"[{pid}] tier={tier} status={status} obligations={ctx.obligations} discharged={ctx.discharged} "
          f"distinct={len(ctx.distinct)} wall={wall:.2f}s")
    for kind, n in sorted(ctx.units.items()):
        print(f"[{pid}] analysed {kind}: {n}")
    for rid, r in sorted(ctx.rules.items()):
        print(f"[{pid}] rule {rid}: instances={r['instances']} violations={r['violations']}")
    for n in ctx.notes:
        print(f"[{pid}] note: {n}")

    for f, k in listed:
        print(f"KNOWN-FINDING: property={pid} {f.rule} {f.key}: {f.message}")
    rc = 0
    if status != "ok" and not new:
        print(f"ANALYSIS-ERROR property={pid}: {err}")
        rc = 2
    elif status != "ok":
        # definite findings were made before the analysis had to give up: they stand, the rest is undecided
        print(f"[{pid}] analysis incomplete after the violations below: {err}")
    replay_paths = []
    if status == "ok" or new:
        for f, _ in new:
            p = _write_replay(pid, f)
            replay_paths.append(p)
            loc = f"{f.file}:{f.line}" if f.file else ""
            print(f"[{pid}] {f.rule} {loc} {f.function}: {f.message}")
            if f.construct:
                print(f"[{pid}]     construct: {f.construct[:300]}")
            print(f"VIOLATION property={pid} replay={p}")
            rc = 1

    coverage = {
        "evaluations": max(ctx.obligations, 0),
        "distinct_nontrivial": len(ctx.distinct),
        "rule": "one evaluation = one rule instance (obligation) decided on a construct of the current "
                "source; distinct = distinct (rule, construct) pairs; non-trivial = the rule had a real "
                "choice to make on that construct (instances that are trivially true by the shape of the "
                "rule are recorded with nontrivial=False and not counted)",
        "samples": ctx.samples[:40] or [{"note": "no instance evaluated"}],
        "obligations": ctx.obligations,
        "discharged": ctx.discharged if status == "ok" else 0,
        "checker_cmd": f"bin/vcheck {pid} --tier {tier}",
        "trusted_base": ctx.trusted or ["CPython ast parser", "reference tables in the checker source"],
        "explanation": ctx.info.get("explanation", "static analysis of the current source tree; see rules"),
        "exhaustive": bool(ctx.info.get("exhaustive", False)),
        "analysed_units": ctx.units,
        "rules": ctx.rules,
        "status": status,
        "error": err,
        "known_findings_printed": [f.rule + " " + f.key for f, _ in listed],
        "new_violations": [f.as_dict() for f, _ in new][:50],
        "repo": REPO,
    }
    for k, v in ctx.info.items():
        coverage.setdefault(k, v)
    ev = {
        "property_id": pid,
        "tier": tier,
        "seed": seed,
        "level": level,
        "coverage": coverage,
        "assumptions": ctx.assumptions,
        "wall_s": round(time.time() - t0, 3),
        "violations": len(new) if status == "ok" else 0,
    }
    os.makedirs(EVIDENCE_DIR, exist_ok=True)
    with open(os.path.join(EVIDENCE_DIR, f"{pid}.json"), "w") as fh:
        json.dump(ev, fh, indent=1, default=str)
    return rc
