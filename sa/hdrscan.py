"""E6 - static scanner of the fake libc header tree (utils/fake_libc_include).

The headers are data the package ships; they are read as text and analysed as a preprocessor *program*: comment stripping, line
splicing, directive recognition, conditional nesting with presence conditions, include resolution, macro tables.  Nothing is
preprocessed by cpp and nothing is parsed by pycparser; declaration text is tokenised with the tokeniser model (E2) and
recognised with the grammar model (E1) extracted from the parser source.
"""
from __future__ import annotations

import os
import re

from . import lexmodel as LM
from . import rxmodel as R
from . import srcmodel as S
from .core import REPO, AnalysisError

ROOT = os.path.join(REPO, "utils", "fake_libc_include")
DIRECTIVE = re.compile(r"^[ \t]*#[ \t]*([A-Za-z_]*)[ \t]*(.*)$", re.S)
IDENT = re.compile(r"[A-Za-z_$][A-Za-z0-9_$]*")


def strip_comments(text):
    """Replace comments by one blank (translation phase 3), keep newlines inside block comments so that line numbers stay exact."""
    out = []
    i, n = 0, len(text)
    while i < n:
        c = text[i]
        if c == '"' or c == "'":
            j = i + 1
            while j < n and text[j] != c and text[j] != "\n":
                j += 2 if text[j] == "\\" else 1
            out.append(text[i:j + 1])
            i = j + 1
        elif text.startswith("/*", i):
            j = text.find("*/", i + 2)
            if j < 0:
                raise AnalysisError("unterminated comment in a fake header")
            out.append(" " + "\n" * text.count("\n", i, j))
            i = j + 2
        elif text.startswith("//", i):
            j = text.find("\n", i)
            j = n if j < 0 else j
            out.append(" ")
            i = j
        else:
            out.append(c)
            i += 1
    return "".join(out)


class Item:
    __slots__ = ("kind", "line", "cond", "a", "b", "c")

    def __init__(self, kind, line, cond, a=None, b=None, c=None):
        self.kind, self.line, self.cond, self.a, self.b, self.c = kind, line, cond, a, b, c

    def __repr__(self):
        return f"<{self.kind}@{self.line} {self.a!r} {self.b!r} cond={self.cond}>"


class HFile:
    def __init__(self, rel, text):
        self.rel = rel
        self.items = []
        self.guard = None
        self.conds = []         # (line, directive, expression text)
        self._scan(text)

    def _scan(self, text):
        text = text.replace("\r\n", "\n")
        # phase 2: splice lines (remember how many physical lines were joined)
        phys = text.split("\n")
        logical = []
        i = 0
        while i < len(phys):
            ln = i + 1
            cur = phys[i]
            while cur.endswith("\\") and i + 1 < len(phys):
                i += 1
                cur = cur[:-1] + phys[i]
            logical.append((ln, cur))
            i += 1
        # comments may span lines: strip on the spliced text, then map back through newline counting
        joined = "\n".join(c for _, c in logical)
        stripped = strip_comments(joined).split("\n")
        if len(stripped) != len(logical):
            raise AnalysisError(f"{self.rel}: comment stripping changed the line structure")
        stack = []      # (expr, polarity, line)
        for (ln, _), s in zip(logical, stripped):
            if not s.strip():
                continue
            m = DIRECTIVE.match(s)
            cond = tuple((e, p) for e, p, _ in stack)
            if not m:
                self.items.append(Item("text", ln, cond, s))
                continue
            d, rest = m.group(1), m.group(2).strip()
            if d in ("ifdef", "ifndef", "if"):
                expr = rest if d == "if" else ("defined(%s)" % rest if d == "ifdef" else "!defined(%s)" % rest)
                self.conds.append((ln, d, rest))
                self.items.append(Item("if", ln, cond, d, rest))
                stack.append((expr, True, ln))
            elif d == "elif":
                if not stack:
                    raise AnalysisError(f"{self.rel}:{ln}: #elif without #if")
                e, p, l0 = stack.pop()
                stack.append((f"!({e}) && ({rest})", True, l0))
                self.conds.append((ln, d, rest))
            elif d == "else":
                if not stack:
                    raise AnalysisError(f"{self.rel}:{ln}: #else without #if")
                e, p, l0 = stack.pop()
                stack.append((e, not p, l0))
            elif d == "endif":
                if not stack:
                    raise AnalysisError(f"{self.rel}:{ln}: #endif without #if")
                stack.pop()
                self.items.append(Item("endif", ln, tuple((e, p) for e, p, _ in stack)))
            elif d == "include":
                mm = re.match(r'^(?:"([^"]+)"|<([^>]+)>)\s*$', rest)
                if not mm:
                    self.items.append(Item("include", ln, cond, "computed", rest))
                else:
                    self.items.append(Item("include", ln, cond, "quote" if mm.group(1) else "angle", mm.group(1) or mm.group(2)))
            elif d == "define":
                mm = re.match(r"^([A-Za-z_$][A-Za-z0-9_$]*)(\(([^)]*)\))?[ \t]*(.*)$", rest, re.S)
                if not mm:
                    raise AnalysisError(f"{self.rel}:{ln}: malformed #define")
                params = None if mm.group(2) is None else [p.strip() for p in mm.group(3).split(",") if p.strip()]
                self.items.append(Item("define", ln, cond, mm.group(1), params, mm.group(4).strip()))
            elif d == "undef":
                self.items.append(Item("undef", ln, cond, rest))
            elif d == "":
                continue    # null directive
            else:
                self.items.append(Item("other", ln, cond, d, rest))
        if stack:
            raise AnalysisError(f"{self.rel}: unterminated conditional opened at line {stack[-1][2]}")
        # include guard: first item `#ifndef G`, second `#define G`, and every item lies under it
        its = self.items
        if len(its) >= 2 and its[0].kind == "if" and its[0].a == "ifndef" and its[1].kind == "define" and its[1].a == its[0].b and not its[1].c:
            g = its[0].b
            inner = [x for x in its[1:] if not (x.kind == "endif" and x.cond == ())]
            if all(x.cond and x.cond[0] == (f"!defined({g})", True) for x in inner) and its[-1].kind == "endif" and its[-1].cond == ():
                self.guard = g

    def body_cond(self, it):
        """presence condition of an item without the file's own include guard"""
        c = it.cond
        if self.guard and c and c[0] == (f"!defined({self.guard})", True):
            c = c[1:]
        return c


_files = None


def files():
    global _files
    if _files is None:
        if not os.path.isdir(ROOT):
            raise AnalysisError("utils/fake_libc_include vanished")
        out = {}
        for dp, dn, fn in os.walk(ROOT):
            for f in sorted(fn):
                p = os.path.join(dp, f)
                rel = os.path.relpath(p, ROOT)
                with open(p, encoding="latin-1") as fh:
                    out[rel] = HFile(rel, fh.read())
        _files = out
    return _files


def resolve(includer_rel, form, target, fs):
    """cpp's search order with -I ROOT: quote form looks in the includer's directory first, then the -I directory."""
    cands = []
    if form == "quote":
        cands.append(os.path.normpath(os.path.join(os.path.dirname(includer_rel), target)))
    cands.append(os.path.normpath(target))
    for c in cands:
        if c in fs:
            return c
    return None


def cond_macros(expr):
    return set(IDENT.findall(expr)) - {"defined"}


# ---------------------------------------------------------------------------------------------------------------
class ModelLexer:
    """Tokenises declaration text with the tokeniser model extracted from c_lexer.py (no pycparser code runs)."""

    def __init__(self):
        self.lm = LM.LexModel()
        self.D = self.lm.prio()
        self.kw = self.lm.t.keyword_map
        self._sym = {}
        self._tokcache = {}

    def sym(self, ch):
        s = self._sym.get(ch)
        if s is None:
            s = self._sym[ch] = self.lm.alpha.of_char(ch)
        return s

    def tokens(self, line):
        """[(type, text)] for one logical line, or raises ValueError(position) when the model finds no token."""
        if line in self._tokcache:
            return list(self._tokcache[line])
        out = self._tokens(line)
        self._tokcache[line] = out
        return list(out)

    def _tokens(self, line):
        out = []
        i, n = 0, len(line)
        while i < n:
            if line[i] in " \t":
                i += 1
                continue
            st, last = self.D.start, None
            j = i
            while True:
                a = self.sym(line[j]) if j < n else R.END
                nxt, ev = self.D.trans[(st, a)]
                if ev is not None:
                    last = (ev, j - i)
                st = nxt
                if a == R.END:
                    break
                j += 1
            fx = self.lm.fixed_result(line[i:])
            kind, label, length = self.lm.combine(last, fx)
            if kind == "nomatch" or length == 0:
                raise ValueError(i)
            text = line[i:i + length]
            if kind == "regex":
                act = self.lm.action[label]
                if act == "ERROR":
                    raise ValueError(i)
                if act == "ID":
                    out.append((self.kw.get(text, "ID"), text))
                elif act == "TOKEN":
                    out.append((label, text))
                else:
                    raise AnalysisError(f"tokeniser action {act!r} is not modelled")
            else:
                out.append((label, text))
            i += length
        return out
