"""Forward information-flow (taint) analysis, flow-insensitive per function, with
tuple / collection shapes, return summaries and parameter propagation inside one module.

Taint values:  U (clean) | T (tainted) | ("tup", (v1..vn)) | ("coll", v)
"""
from __future__ import annotations

import ast

from . import srcmodel as S
from . import stateflow as F

U = "U"
T = "T"


def tup(vs):
    return ("tup", tuple(vs))


def coll(v):
    return ("coll", v)


def collapse(v) -> bool:
    if v == T:
        return True
    if isinstance(v, tuple):
        if v[0] == "tup":
            return any(collapse(x) for x in v[1])
        if v[0] == "coll":
            return collapse(v[1])
    return False


def join(a, b):
    if a == b:
        return a
    if a == U:
        return b
    if b == U:
        return a
    if isinstance(a, tuple) and isinstance(b, tuple) and a[0] == b[0]:
        if a[0] == "tup" and len(a[1]) == len(b[1]):
            return tup(join(x, y) for x, y in zip(a[1], b[1]))
        if a[0] == "coll":
            return coll(join(a[1], b[1]))
    return T if (collapse(a) or collapse(b)) else U


def elem(v):
    if isinstance(v, tuple):
        if v[0] == "coll":
            return v[1]
        if v[0] == "tup":
            out = U
            for x in v[1]:
                out = join(out, x)
            return out
    return v


class Spec:
    def __init__(self, source_attrs=(), source_self_attrs=(), source_calls=(), tainted_params=(), sink_attr_ok=(), node_ctor=None,
                 clean_calls=(), skip_classes=(), skip_functions=()):
        self.skip_classes = set(skip_classes)
        self.skip_functions = set(skip_functions)
        self.source_attrs = set(source_attrs)            # x.attr read is a source, whatever x is
        self.source_self_attrs = set(source_self_attrs)  # self.attr read is a source
        self.source_calls = set(source_calls)            # f(...) / self.f(...) result is tainted
        self.tainted_params = set(tainted_params)        # parameter names tainted on entry
        self.sink_attr_ok = set(sink_attr_ok)            # attribute stores that may receive taint
        self.node_ctor = node_ctor                       # callable(call) -> (class_name, coord_index, coord_kw) or None
        self.clean_calls = set(clean_calls)              # calls whose result is clean whatever the arguments


class Analysis:
    def __init__(self, mod: S.Module, spec: Spec):
        self.mod, self.spec = mod, spec
        self.funcs = {}        # qualname -> (fn, cls)
        self.by_method = {}    # (cls, name) -> qualname
        for qual, fn, cls in F.iter_functions(mod):
            if cls in spec.skip_classes or qual.split(".")[-1] in spec.skip_functions:
                continue
            self.funcs[qual] = (fn, cls)
            if S.enclosing_function(fn) is None:
                self.by_method[(cls, fn.name)] = qual
        self.env = {q: {} for q in self.funcs}
        self.ret = {q: U for q in self.funcs}
        self.violations = []   # (qual, node, kind, message)
        self.sites = []        # evaluated sink sites (qual, node, kind, ok)
        self._qual_of = {id(fn): q for q, (fn, _) in self.funcs.items()}
        for q, (fn, cls) in self.funcs.items():
            for p in F.params(fn):
                if p in spec.tainted_params:
                    self.env[q][p] = T

    # ------------------------------------------------------------------
    def run(self):
        for _ in range(12):
            before = (repr(self.env), repr(self.ret))
            for q in self.funcs:
                self._function(q, collect=False)
            if (repr(self.env), repr(self.ret)) == before:
                break
        self.violations, self.sites = [], []
        for q in self.funcs:
            self._function(q, collect=True)
        return self

    def lookup(self, q, name):
        fn, _ = self.funcs[q]
        cur = fn
        while cur is not None:
            cq = self._qual_of.get(id(cur))
            if cq is not None and name in F.local_names(cur):
                return self.env[cq].get(name, U)
            cur = S.enclosing_function(cur)
        return U

    def _set(self, q, name, v):
        fn, _ = self.funcs[q]
        cur = fn
        # nonlocal writes go to the defining scope
        while cur is not None:
            cq = self._qual_of.get(id(cur))
            if cq is not None and name in F.local_names(cur):
                self.env[cq][name] = join(self.env[cq].get(name, U), v)
                return
            cur = S.enclosing_function(cur)
        self.env[q][name] = join(self.env[q].get(name, U), v)

    # ------------------------------------------------------------------
    def te(self, q, e):
        sp = self.spec
        if e is None:
            return U
        if isinstance(e, ast.Name):
            return self.lookup(q, e.id)
        if isinstance(e, ast.Constant):
            return U
        if isinstance(e, ast.Attribute):
            if e.attr in sp.source_attrs:
                return T
            if e.attr in sp.source_self_attrs and isinstance(e.value, ast.Name) and e.value.id == self._selfname(q):
                return T
            base = self.te(q, e.value)
            return T if base == T else U
        if isinstance(e, ast.Tuple):
            return tup(self.te(q, x) for x in e.elts)
        if isinstance(e, (ast.List, ast.Set)):
            out = U
            for x in e.elts:
                out = join(out, self.te(q, x))
            return coll(out)
        if isinstance(e, ast.Dict):
            out = U
            for x in e.values:
                out = join(out, self.te(q, x))
            return coll(out)
        if isinstance(e, ast.Subscript):
            base = self.te(q, e.value)
            if isinstance(base, tuple) and base[0] == "tup" and isinstance(e.slice, ast.Constant) and isinstance(e.slice.value, int) and -len(base[1]) <= e.slice.value < len(base[1]):
                return base[1][e.slice.value]
            if isinstance(e.slice, ast.Slice):
                # which part of the text is taken depends on the bounds: a bound computed from position data makes the slice position-dependent
                if any(b is not None and collapse(self.te(q, b)) for b in (e.slice.lower, e.slice.upper, e.slice.step)):
                    return T
                return base
            idx = self.te(q, e.slice)
            r = elem(base)
            return T if collapse(idx) else r
        if isinstance(e, ast.Call):
            return self._call(q, e)
        if isinstance(e, ast.IfExp):
            return join(self.te(q, e.body), self.te(q, e.orelse))
        if isinstance(e, ast.NamedExpr):
            v = self.te(q, e.value)
            self._set(q, e.target.id, v)
            return v
        if isinstance(e, ast.BoolOp):
            out = U
            for x in e.values:
                out = join(out, self.te(q, x))
            return out
        if isinstance(e, ast.Compare):
            vals = [self.te(q, e.left)] + [self.te(q, c) for c in e.comparators]
            # identity / truthiness style tests on shaped containers do not depend on their tainted components
            flat = [v for v in vals if not isinstance(v, tuple)]
            return T if T in flat else U
        if isinstance(e, (ast.BinOp,)):
            return T if collapse(self.te(q, e.left)) or collapse(self.te(q, e.right)) else U
        if isinstance(e, ast.UnaryOp):
            v = self.te(q, e.operand)
            if isinstance(e.op, ast.Not):
                return T if v == T else U
            return T if collapse(v) else U
        if isinstance(e, ast.JoinedStr):
            return T if any(collapse(self.te(q, p.value)) for p in e.values if isinstance(p, ast.FormattedValue)) else U
        if isinstance(e, (ast.ListComp, ast.SetComp, ast.GeneratorExp)):
            for g in e.generators:
                self._bind(q, g.target, elem(self.te(q, g.iter)))
            return coll(self.te(q, e.elt))
        if isinstance(e, ast.DictComp):
            for g in e.generators:
                self._bind(q, g.target, elem(self.te(q, g.iter)))
            return coll(self.te(q, e.value))
        if isinstance(e, ast.Starred):
            return self.te(q, e.value)
        if isinstance(e, ast.Lambda):
            return U
        out = U
        for ch in ast.iter_child_nodes(e):
            if isinstance(ch, ast.expr):
                out = join(out, self.te(q, ch))
        return T if collapse(out) else U

    def _selfname(self, q):
        fn, cls = self.funcs[q]
        cur = fn
        top = fn
        while cur is not None:
            top = cur
            cur = S.enclosing_function(cur)
        if cls is not None and not isinstance(top, ast.Lambda) and top.args.args:
            return top.args.args[0].arg
        return None

    def resolve(self, q, call):
        f = call.func
        _, cls = self.funcs[q]
        if isinstance(f, ast.Attribute) and isinstance(f.value, ast.Name) and f.value.id == self._selfname(q):
            return self.by_method.get((cls, f.attr))
        if isinstance(f, ast.Name):
            # nested function of an enclosing scope, or module-level function
            fn, _ = self.funcs[q]
            cur = fn
            while cur is not None:
                cq = self._qual_of.get(id(cur))
                cand = (cq + "." + f.id) if cq else None
                if cand in self.funcs:
                    return cand
                cur = S.enclosing_function(cur)
            if f.id in self.funcs:
                return f.id
        return None

    def _call(self, q, e):
        sp = self.spec
        f = e.func
        fname = f.attr if isinstance(f, ast.Attribute) else (f.id if isinstance(f, ast.Name) else None)
        args = [self.te(q, a) for a in e.args]
        kws = {k.arg: self.te(q, k.value) for k in e.keywords}
        if fname in sp.source_calls:
            return T
        if fname in sp.clean_calls:
            return U
        if sp.node_ctor is not None and sp.node_ctor(e) is not None:
            return U
        if "coord" in kws and sp.node_ctor is not None:
            return U   # constructor-like call through a class-valued variable (klass(..., coord=...))
        callee = self.resolve(q, e)
        if callee is not None:
            cfn, _ = self.funcs[callee]
            ps = F.params(cfn)
            if self.funcs[callee][1] is not None and S.enclosing_function(cfn) is None and ps:
                ps = ps[1:]
            for p, a in zip(ps, args):
                self.env[callee][p] = join(self.env[callee].get(p, U), a)
            for k, a in kws.items():
                if k in ps:
                    self.env[callee][k] = join(self.env[callee].get(k, U), a)
            return self.ret[callee]
        # unknown callee: result depends on receiver and arguments
        out = U
        if isinstance(f, ast.Attribute):
            out = self.te(q, f.value)
            out = T if out == T else U
        for a in list(args) + list(kws.values()):
            if collapse(a):
                out = T
        return out

    def _bind(self, q, target, v):
        if isinstance(target, ast.Name):
            self._set(q, target.id, v)
        elif isinstance(target, (ast.Tuple, ast.List)):
            if isinstance(v, tuple) and v[0] == "tup" and len(v[1]) == len(target.elts):
                for t, x in zip(target.elts, v[1]):
                    self._bind(q, t, x)
            else:
                for t in target.elts:
                    self._bind(q, t, elem(v) if isinstance(v, tuple) else v)
        elif isinstance(target, ast.Starred):
            self._bind(q, target.value, v)
        elif isinstance(target, ast.Subscript):
            base, _ = F.root_of(target)
            if isinstance(base, ast.Name):
                self._set(q, base.id, coll(v) if not isinstance(v, tuple) or v[0] != "coll" else v)
        # attribute stores handled as sinks by the caller

    # ------------------------------------------------------------------
    def _function(self, q, collect):
        fn, cls = self.funcs[q]
        sp = self.spec

        def note(node, kind, ok, msg=""):
            if collect:
                self.sites.append((q, node, kind, ok))
                if not ok:
                    self.violations.append((q, node, kind, msg))

        body_nodes = list(F.own_nodes(fn))
        for n in body_nodes:
            if isinstance(n, ast.Assign):
                v = self.te(q, n.value)
                for t in n.targets:
                    self._assign(q, t, v, n, note)
            elif isinstance(n, ast.AnnAssign) and n.value is not None:
                self._assign(q, n.target, self.te(q, n.value), n, note)
            elif isinstance(n, ast.AugAssign):
                v = join(self.te(q, n.target), self.te(q, n.value))
                v = T if collapse(v) else U
                self._assign(q, n.target, v, n, note)
            elif isinstance(n, (ast.For, ast.AsyncFor)):
                self._bind(q, n.target, elem(self.te(q, n.iter)))
            elif isinstance(n, ast.Return) and n.value is not None:
                self.ret[q] = join(self.ret[q], self.te(q, n.value))
            elif isinstance(n, ast.Expr) and isinstance(n.value, ast.Call):
                c = n.value
                if isinstance(c.func, ast.Attribute) and c.func.attr in ("append", "add", "insert", "extend", "appendleft"):
                    base, _ = F.root_of(c.func.value)
                    if isinstance(base, ast.Name) and c.args:
                        v = self.te(q, c.args[-1])
                        if c.func.attr == "extend":
                            v = elem(v)
                        self._set(q, base.id, coll(v))
            # ---- conditions --------------------------------------------------
            cond = None
            if isinstance(n, (ast.If, ast.While, ast.IfExp)):
                cond = n.test
            elif isinstance(n, ast.Assert):
                cond = n.test
            elif isinstance(n, ast.Match):
                cond = n.subject
            elif isinstance(n, ast.comprehension):
                for c in n.ifs:
                    tv = self.te(q, c)
                    note(c, "branch", tv != T, "comprehension filter depends on position information")
            if cond is not None:
                tv = self.te(q, cond)
                if tv == T:
                    ok = isinstance(n, ast.If) and self._coord_only_block(q, n.body) and self._coord_only_block(q, n.orelse)
                    note(n, "branch", ok, f"branch condition `{S.unparse(cond)[:80]}` depends on position information and selects more than which coordinate to store")
                else:
                    note(n, "branch", True)
            if isinstance(n, ast.match_case) and n.guard is not None:
                tv = self.te(q, n.guard)
                note(n.guard, "branch", tv != T, "case guard depends on position information")
            # ---- constructor argument sinks -------------------------------------
            if isinstance(n, ast.Call) and sp.node_ctor is not None:
                info = sp.node_ctor(n)
                if info is None and any(k.arg == "coord" for k in n.keywords) and not isinstance(n.func, ast.Attribute):
                    info = (S.unparse(n.func), None)
                if info is not None:
                    cname, cidx = info
                    for i, a in enumerate(n.args):
                        tv = collapse(self.te(q, a))
                        if i != cidx:
                            note(a, "ctor-arg", not tv, f"position information flows into field #{i} of {cname}(...) (only the coord argument may carry it)")
                        else:
                            note(a, "ctor-coord", True)
                    for k in n.keywords:
                        tv = collapse(self.te(q, k.value))
                        if k.arg != "coord":
                            note(k.value, "ctor-arg", not tv, f"position information flows into field `{k.arg}` of {cname}(...) (only coord may carry it)")
                        else:
                            note(k.value, "ctor-coord", True)

    def _assign(self, q, t, v, stmt, note):
        sp = self.spec
        if isinstance(t, ast.Attribute):
            ok = (not collapse(v)) or t.attr in sp.sink_attr_ok
            note(stmt, "attr-store", ok, f"position information is stored in attribute `.{t.attr}` (only {sorted(sp.sink_attr_ok)} may carry it)")
            return
        if isinstance(t, (ast.Tuple, ast.List)):
            for el in t.elts:
                if isinstance(el, ast.Attribute):
                    self._assign(q, el, v, stmt, note)
        self._bind(q, t, v)

    def _coord_only_block(self, q, body) -> bool:
        """Block that only chooses which coordinate to store."""
        for st in body:
            if isinstance(st, ast.Pass):
                continue
            if isinstance(st, ast.Assign) and len(st.targets) == 1:
                t = st.targets[0]
                if isinstance(t, ast.Attribute) and t.attr in self.spec.sink_attr_ok:
                    continue
                if isinstance(t, ast.Name) and collapse(self.lookup(q, t.id)) and not isinstance(self.lookup(q, t.id), tuple):
                    continue
            return False
        return True
