"""Intra-class call graph of CParser-style classes: self.m(...) calls and bound-method references."""
from __future__ import annotations

import ast

from . import srcmodel as S


class ClassCalls:
    def __init__(self, modname: str, cls: str):
        self.mod = S.module(modname)
        self.cls = cls
        self.methods = self.mod.methods(cls)
        self.calls: dict[str, list[tuple[str, ast.Call]]] = {}
        self.refs: dict[str, set[str]] = {}
        for name, fn in self.methods.items():
            selfname = fn.args.args[0].arg if fn.args.args else "self"
            cs, rs = [], set()
            for n in ast.walk(fn):
                if isinstance(n, ast.Call) and isinstance(n.func, ast.Attribute) and isinstance(n.func.value, ast.Name) and n.func.value.id == selfname and n.func.attr in self.methods:
                    cs.append((n.func.attr, n))
                elif isinstance(n, ast.Attribute) and isinstance(n.value, ast.Name) and n.value.id == selfname and n.attr in self.methods and not (isinstance(getattr(n, "_parent", None), ast.Call) and n._parent.func is n):
                    rs.add(n.attr)
            self.calls[name] = cs
            self.refs[name] = rs

    def callees(self, name):
        return {c for c, _ in self.calls.get(name, [])} | self.refs.get(name, set())

    def reachable(self, starts):
        seen, stack = set(), list(starts)
        while stack:
            m = stack.pop()
            if m in seen:
                continue
            seen.add(m)
            stack += [c for c in self.callees(m) if c not in seen]
        return seen

    def callers(self, name):
        return {m for m in self.methods if name in self.callees(m)}
