"""E3 - emission model of c_generator.CGenerator.

For every visit_X: which fields of the node are read, and through which emission idiom each node-valued field goes
(bare visit, _visit_expr, _parenthesize_unless_simple, _parenthesize_if with its predicate, explicit "(" ... ")").
Parenthesisation predicates are evaluated on the finite abstraction (child class, child operator, parent operator,
reduce_parentheses), which is everything they can observe.
"""
from __future__ import annotations

import ast

from . import srcmodel as S
from .core import AnalysisError

LEVEL = {"expression": 0, "assignment": 1, "conditional": 2, "binary": 3, "cast": 13, "unary": 14, "postfix": 15, "primary": 16}
C_LEVELS = [["||"], ["&&"], ["|"], ["^"], ["&"], ["==", "!="], ["<", ">", "<=", ">="], ["<<", ">>"], ["+", "-"], ["*", "/", "%"]]
BINOPS = [o for lv in C_LEVELS for o in lv]
BIN_LEVEL = {o: i for i, lv in enumerate(C_LEVELS) for o in lv}
PREFIX_OPS = ["&", "*", "+", "-", "~", "!", "++", "--", "sizeof", "_Alignof"]
POSTFIX_OPS = ["p++", "p--"]

# GNU statement expressions ( `({ ... })`, a Compound in expression position) are outside C99/C11 and not modelled
EXPR_CLASSES = ["ID", "Constant", "ArrayRef", "FuncCall", "StructRef", "CompoundLiteral", "UnaryOp", "Cast", "BinaryOp", "TernaryOp", "Assignment", "ExprList"]


def produced_level(cls, op=None):
    """Grammar level at which the parser produces a node of this class (Appendix B)."""
    if cls in ("ID", "Constant"):
        return LEVEL["primary"]
    if cls in ("ArrayRef", "FuncCall", "StructRef", "CompoundLiteral"):
        return LEVEL["postfix"]
    if cls == "UnaryOp":
        return LEVEL["postfix"] if op in POSTFIX_OPS else LEVEL["unary"]
    if cls == "Cast":
        return LEVEL["cast"]
    if cls == "BinaryOp":
        return LEVEL["binary"] + BIN_LEVEL[op]
    if cls == "TernaryOp":
        return LEVEL["conditional"]
    if cls == "Assignment":
        return LEVEL["assignment"]
    if cls in ("ExprList", "Compound"):
        return LEVEL["expression"] - (1 if cls == "Compound" else 0)   # a statement expression exists only inside its own parentheses
    raise AnalysisError(f"no grammar level for class {cls}")


def children_abstract():
    """Finite set of abstract children (class, op)."""
    out = []
    for c in EXPR_CLASSES:
        if c == "UnaryOp":
            out += [(c, o) for o in PREFIX_OPS + POSTFIX_OPS]
        elif c == "BinaryOp":
            out += [(c, o) for o in BINOPS]
        elif c == "Assignment":
            out.append((c, "="))
        else:
            out.append((c, None))
    return out


class Gen:
    def __init__(self):
        self.mod = S.module("c_generator")
        self.methods = self.mod.methods("CGenerator")
        fn = self.methods.get("_is_simple_node")
        if fn is None:
            raise AnalysisError("anchor CGenerator._is_simple_node vanished")
        self.simple = {n.attr for n in ast.walk(fn) if isinstance(n, ast.Attribute) and isinstance(n.value, ast.Name) and n.value.id == "c_ast"}
        if not self.simple:
            raise AnalysisError("_is_simple_node: class tuple not found")
        self.prec = S.tables().gen_precedence
        ve = self.methods.get("_visit_expr")
        if ve is None:
            raise AnalysisError("anchor CGenerator._visit_expr vanished")
        self.visit_expr_wrap = self._visit_expr_model(ve)

    def _visit_expr_model(self, fn):
        """class -> 'paren' | 'brace' for the classes _visit_expr wraps."""
        out = {}
        for m in ast.walk(fn):
            if isinstance(m, ast.match_case):
                classes = [n.func.attr if isinstance(n.func, ast.Attribute) else None for n in ast.walk(m.pattern) if isinstance(n, ast.Call)] if False else \
                          [c.cls.attr for c in ast.walk(m.pattern) if isinstance(c, ast.MatchClass) and isinstance(c.cls, ast.Attribute)]
                strs = [c.value for st in m.body for c in ast.walk(st) if isinstance(c, ast.Constant) and isinstance(c.value, str)]
                kind = "paren" if "(" in strs and ")" in strs else "brace" if "{" in strs and "}" in strs else None
                for c in classes:
                    if kind:
                        out[c] = kind
        return out

    # ------------------------------------------------------------------
    def field_emissions(self, cls):
        """field -> list of (idiom, node, extra) for visit_<cls> (loop variables over a field count as that field)."""
        fn = self.methods.get("visit_" + cls)
        if fn is None:
            return None
        return self._emissions(fn)

    def _emissions(self, fn):
        nvar = fn.args.args[1].arg
        aliases = {}   # local name -> field (for x in n.f / x = n.f)
        for n in ast.walk(fn):
            if isinstance(n, (ast.For, ast.comprehension)) and isinstance(n.target, ast.Name) and self._field_of(n.iter, nvar, aliases):
                aliases[n.target.id] = self._field_of(n.iter, nvar, aliases)
            if isinstance(n, ast.Assign) and len(n.targets) == 1 and isinstance(n.targets[0], ast.Name) and self._field_of(n.value, nvar, aliases):
                aliases[n.targets[0].id] = self._field_of(n.value, nvar, aliases)
        out = {}
        for n in ast.walk(fn):
            if not isinstance(n, ast.Call):
                continue
            f = n.func
            name = f.attr if isinstance(f, ast.Attribute) and isinstance(f.value, ast.Name) and f.value.id == "self" else None
            if name is None:
                continue
            args = (S.positional_args(n, self.methods[name]) if name in self.methods else None) or list(n.args)
            if not args or args[0] is None:
                continue
            fld = self._field_of(args[0], nvar, aliases)
            if fld is None:
                continue
            ops = self._case_ops(n, fn, nvar)
            if name == "visit":
                idiom = "paren_always" if self._explicit_parens(n) else "visit"
                out.setdefault(fld, []).append((idiom, n, None, ops))
            elif name == "_visit_expr":
                idiom = "paren_always" if self._explicit_parens(n) else "visit_expr"
                out.setdefault(fld, []).append((idiom, n, None, ops))
            elif name == "_parenthesize_unless_simple":
                out.setdefault(fld, []).append(("unless_simple", n, None, ops))
            elif name == "_parenthesize_if":
                out.setdefault(fld, []).append(("paren_if", n, args[1] if len(args) > 1 else None, ops))
            elif name.startswith("_generate") or name.startswith("visit_"):
                out.setdefault(fld, []).append((name, n, None, ops))
        return out

    def _case_ops(self, node, fn, nvar):
        """If the emission sits in a `match n.op` case: ('in', ops) for constant patterns, ('notin', ops) for the default case."""
        cur = node
        while cur is not None and cur is not fn:
            par = getattr(cur, "_parent", None)
            if isinstance(par, ast.match_case):
                m = getattr(par, "_parent", None)
                if isinstance(m, ast.Match) and isinstance(m.subject, ast.Attribute) and m.subject.attr == "op" and isinstance(m.subject.value, ast.Name) and m.subject.value.id == nvar:
                    def consts(c):
                        pats = c.pattern.patterns if isinstance(c.pattern, ast.MatchOr) else [c.pattern]
                        return [p.value.value for p in pats if isinstance(p, ast.MatchValue) and isinstance(p.value, ast.Constant)]
                    if isinstance(par.pattern, ast.MatchAs) and par.pattern.pattern is None:
                        others = [o for c in m.cases if c is not par for o in consts(c)]
                        return ("notin", tuple(others))
                    return ("in", tuple(consts(par)))
            cur = par
        return None

    def _field_of(self, e, nvar, aliases):
        if isinstance(e, ast.Attribute) and isinstance(e.value, ast.Name) and e.value.id == nvar:
            return e.attr
        if isinstance(e, ast.Name) and e.id in aliases:
            return aliases[e.id]
        if isinstance(e, ast.Subscript):
            return self._field_of(e.value, nvar, aliases)
        return None

    def _explicit_parens(self, call):
        """The call's text is emitted directly between "(" and ")" string pieces."""
        par = getattr(call, "_parent", None)
        if isinstance(par, ast.FormattedValue):
            js = getattr(par, "_parent", None)
            if isinstance(js, ast.JoinedStr):
                i = js.values.index(par)
                before = js.values[i - 1] if i > 0 else None
                after = js.values[i + 1] if i + 1 < len(js.values) else None
                return (isinstance(before, ast.Constant) and str(before.value).endswith("(")) and (isinstance(after, ast.Constant) and str(after.value).startswith(")"))
            return False
        # "(" + X + ")"   possibly nested in a longer + chain
        cur, node = par, call
        left_ok = right_ok = False
        while isinstance(cur, ast.BinOp) and isinstance(cur.op, ast.Add):
            if cur.right is node and not left_ok:
                l = cur.left
                while isinstance(l, ast.BinOp):
                    l = l.right
                left_ok = isinstance(l, ast.Constant) and str(l.value).endswith("(")
            elif cur.left is node and not right_ok:
                r = cur.right
                while isinstance(r, ast.BinOp):
                    r = r.left
                right_ok = isinstance(r, ast.Constant) and str(r.value).startswith(")")
            node, cur = cur, getattr(cur, "_parent", None)
            if left_ok and right_ok:
                return True
        return False

    # ------------------------------------------------------------------
    def parenthesised(self, idiom, extra, child, parent_op, reduce):
        """Does this idiom put parentheses (or braces) around the given abstract child?"""
        ccls, cop = child
        wrapped = self.visit_expr_wrap.get(ccls) == "paren"
        if idiom == "paren_always":
            return True
        if idiom == "visit":
            return False
        if idiom == "visit_expr":
            return wrapped
        if idiom == "unless_simple":
            return wrapped or ccls not in self.simple
        if idiom == "paren_if":
            if wrapped:
                return True
            return bool(self.eval_pred(extra, child, parent_op, reduce))
        raise AnalysisError(f"emission idiom {idiom} cannot be judged for parenthesisation")

    def eval_pred(self, lam, child, parent_op, reduce):
        if isinstance(lam, ast.Name):
            # a named local predicate: `def pred(d): return <expr>` in the enclosing visitor
            cur = lam
            while cur is not None and not isinstance(cur, ast.FunctionDef):
                cur = getattr(cur, "_parent", None)
            defs = [f for f in ast.walk(cur) if isinstance(f, ast.FunctionDef) and f.name == lam.id and f is not cur] if cur is not None else []
            body = [st for st in defs[0].body if not (isinstance(st, ast.Expr) and isinstance(st.value, ast.Constant))] if len(defs) == 1 else []
            if len(body) == 1 and isinstance(body[0], ast.Return) and body[0].value is not None and defs[0].args.args:
                return self._ev(body[0].value, defs[0].args.args[0].arg, child, parent_op, reduce)
            raise AnalysisError(f"parenthesisation predicate `{lam.id}` is not a one-expression local function")
        if isinstance(lam, ast.Attribute) and isinstance(lam.value, ast.Name):
            # a bound method of the generator used as predicate: `self._is_x` with `def _is_x(self, d): return <expr>`
            m_ = self.methods.get(lam.attr) if hasattr(self, "methods") else None
            body = [st for st in m_.body if not (isinstance(st, ast.Expr) and isinstance(st.value, ast.Constant))] if m_ is not None else []
            if len(body) == 1 and isinstance(body[0], ast.Return) and body[0].value is not None and len(m_.args.args) >= 2:
                return self._ev(body[0].value, m_.args.args[1].arg, child, parent_op, reduce)
            raise AnalysisError(f"parenthesisation predicate `{ast.unparse(lam)}` is not a one-expression method")
        if not isinstance(lam, ast.Lambda):
            raise AnalysisError("parenthesisation predicate is neither a lambda nor a local one-expression function")
        dvar = lam.args.args[0].arg
        return self._ev(lam.body, dvar, child, parent_op, reduce)

    def _ev(self, e, dvar, child, parent_op, reduce):
        ccls, cop = child
        if isinstance(e, ast.BoolOp):
            vals = (self._ev(v, dvar, child, parent_op, reduce) for v in e.values)
            if isinstance(e.op, ast.And):
                r = True
                for v in e.values:
                    r = self._ev(v, dvar, child, parent_op, reduce)
                    if not r:
                        return r
                return r
            r = False
            for v in e.values:
                r = self._ev(v, dvar, child, parent_op, reduce)
                if r:
                    return r
            return r
        if isinstance(e, ast.UnaryOp) and isinstance(e.op, ast.Not):
            return not self._ev(e.operand, dvar, child, parent_op, reduce)
        if isinstance(e, ast.Call):
            f = e.func
            if isinstance(f, ast.Attribute) and f.attr == "_is_simple_node":
                return ccls in self.simple
            if isinstance(f, ast.Name) and f.id == "isinstance" and len(e.args) == 2:
                target = e.args[0]
                classes = {n.attr for n in ast.walk(e.args[1]) if isinstance(n, ast.Attribute) and isinstance(n.value, ast.Name) and n.value.id == "c_ast"}
                if isinstance(target, ast.Name) and target.id == dvar:
                    return ccls in classes
                raise AnalysisError("isinstance test on something other than the child")
            raise AnalysisError(f"call {S.unparse(e)[:40]} in a parenthesisation predicate")
        if isinstance(e, ast.Attribute):
            if e.attr == "reduce_parentheses":
                return reduce
            if e.attr == "op":
                return cop if (isinstance(e.value, ast.Name) and e.value.id == dvar) else parent_op
            raise AnalysisError(f"attribute {S.unparse(e)} in a parenthesisation predicate")
        if isinstance(e, ast.Subscript) and isinstance(e.value, ast.Attribute) and e.value.attr == "precedence_map":
            k = self._ev(e.slice, dvar, child, parent_op, reduce)
            if k not in self.prec:
                return None
            return self.prec[k]
        if isinstance(e, ast.Compare) and len(e.ops) == 1:
            a, b = self._ev(e.left, dvar, child, parent_op, reduce), self._ev(e.comparators[0], dvar, child, parent_op, reduce)
            if a is None or b is None:
                return False
            op = e.ops[0]
            return {ast.Gt: a > b, ast.GtE: a >= b, ast.Lt: a < b, ast.LtE: a <= b, ast.Eq: a == b, ast.NotEq: a != b}[type(op)] if not isinstance(op, (ast.In, ast.NotIn)) else ((a in b) != isinstance(op, ast.NotIn))
        if isinstance(e, ast.Constant):
            return e.value
        if isinstance(e, (ast.Tuple, ast.Set, ast.List)):
            return tuple(self._ev(x, dvar, child, parent_op, reduce) for x in e.elts)
        raise AnalysisError(f"construct {type(e).__name__} in a parenthesisation predicate is outside the evaluated subset")

    # ------------------------------------------------------------------
    def reads(self, fn, nvar=None):
        """Fields of the node parameter read in fn (n.<field>)."""
        nvar = nvar or fn.args.args[1].arg
        return {n.attr for n in ast.walk(fn) if isinstance(n, ast.Attribute) and isinstance(n.value, ast.Name) and n.value.id == nvar}
