"""E1 - recursive-descent model extractor.

Abstract interpretation of the CParser methods over the *token-stream effect*
domain.  Token helpers that have token effects are inlined down to the four
stream primitives (`self._tokens.peek/next/mark/reset`) and the error channel
(`self._parse_error`, NoReturn); `_parse_*` methods are nonterminals and become
`call` events; every other method / constructor is an opaque builder.

For each production clone (method + constant arguments) the result is an event
automaton: nodes = (program point, look-ahead facts, live control-relevant
values), edges labelled with sequences of events.
"""
from __future__ import annotations

import ast
from collections import deque

from . import srcmodel as S
from .core import AnalysisError

EOF = "$EOF"


def _freeze(v):
    return v


class Val:
    """Abstract values (immutable tuples)."""
    NONE = ("none",)
    UNK = ("unk",)
    OBJ = ("obj",)      # some non-None object
    NODE = ("node",)    # result of a production: nullness unknown

    @staticmethod
    def const(v):
        return ("const", v)


_NOCONST = object()
_mcd = {}


def _module_const_dict(modname, name):
    """a module-level dict bound once whose keys and values are all plain constants (str / int / bool / None), else None"""
    key = (modname, name)
    if key not in _mcd:
        out = None
        try:
            v = S.folded(modname).env.get(name)
        except Exception:
            v = None
        if isinstance(v, dict) and v and all(isinstance(k, (str, int)) and (x is None or isinstance(x, (str, int, bool))) for k, x in v.items()):
            mod = S.module(modname)
            if len(mod.assigns.get(name, [])) == 1:
                out = dict(v)
        _mcd[key] = out
    return _mcd[key]


def is_none(v):
    return v == Val.NONE or v == ("const", None)


class Universe:
    def __init__(self):
        t = S.tables()
        self.tokens = frozenset(t.emittable | {"TYPEID", "PPHASH", "PPPRAGMA", "PPPRAGMASTR"})
        self.all = frozenset(self.tokens | {EOF})
        self.tables = {k: frozenset(v) for k, v in t.parser_sets.items()}


class State:
    __slots__ = ("la", "envs", "marks")

    def __init__(self, la, envs, marks=()):
        self.la = la          # (la1, la2) frozensets
        self.envs = envs      # tuple of dicts (one per active frame: production frame + inlined helper frames)
        self.marks = marks    # tuple of (origin, t1, t2, n): what is known about the two tokens after each live mark

    def copy(self, la=None, envs=None):
        return State(self.la if la is None else la, self.envs if envs is None else envs, self.marks)

    def bind(self, name, v):
        e = dict(self.envs[-1])
        e[name] = v
        return State(self.la, self.envs[:-1] + (e,), self.marks)

    def get(self, name):
        return self.envs[-1].get(name, Val.UNK)

    def with_la(self, k, fs):
        la = list(self.la)
        la[k - 1] = fs
        return State(tuple(la), self.envs, self.marks)

    def upd_marks(self, consumed):
        """Record what the current look-ahead facts say about the tokens right after each live mark, then account for
        `consumed` tokens (1 = one token, 9 = unknown many)."""
        out = []
        for origin, t1, t2, n in self.marks:
            if n == 0:
                t1, t2 = t1 & self.la[0], t2 & self.la[1]
            elif n == 1:
                t2 = t2 & self.la[0]
            out.append((origin, t1, t2, min(9, n + consumed)))
        return tuple(out)


def _fold_refinements(events):
    """A token consumed by an untyped advance and then tested (`tok = advance(); if tok.type != T: error`) is, on each branch, a token of the
    refined type set: fold every ('refine', site, types) into the ('consume', ...) event of the same site earlier on the same edge, so that the
    consumption reads the same whether the expected type was a literal at the call or a value computed before it."""
    if not any(ev[0] == "refine" for ev in events):
        return events
    out = list(events)
    for i, ev in enumerate(out):
        if ev[0] != "refine":
            continue
        for j in range(i - 1, -1, -1):
            c = out[j]
            if c[0] == "consume" and len(c) > 2 and c[2] == ev[1]:
                out[j] = ("consume", frozenset(c[1]) & frozenset(ev[2])) + tuple(c[2:])
                break
    return tuple(out)


class Edge:
    __slots__ = ("src", "events", "dst")

    def __init__(self, src, events, dst):
        self.src, self.events, self.dst = src, _fold_refinements(tuple(events)), dst


class Prod:
    """Extracted event automaton of one production clone."""

    def __init__(self, name, argsig):
        self.name, self.argsig = name, argsig
        self.nodes = {}        # key -> id
        self.node_info = []    # id -> dict(point=..., la=...)
        self.edges: list[Edge] = []
        self.start = None
        self.returns = {}      # node id -> abstract return value
        self.error_nodes = set()
        self.asserts = []      # (ast node, value of condition: True/False/None, la)
        self.ctor_sites = []

    @property
    def key(self):
        return (self.name, self.argsig)

    def out(self):
        o = {}
        for e in self.edges:
            o.setdefault(e.src, []).append(e)
        return o


def is_self_attr_call(n, selfname, attr=None):
    return (isinstance(n, ast.Call) and isinstance(n.func, ast.Attribute) and isinstance(n.func.value, ast.Name)
            and n.func.value.id == selfname and (attr is None or n.func.attr == attr))


class Extractor:
    def __init__(self, modname="c_parser", cls="CParser"):
        self.mod = S.module(modname)
        self.cls = cls
        self.methods = self.mod.methods(cls)
        self.U = Universe()
        self.prods: dict[tuple, Prod] = {}
        self.pending = deque()
        self.ret_summary: dict[tuple, set] = {}   # prod key -> set of return kinds ('none','obj','list','tuple',...)
        self.ret_values: dict[tuple, list] = {}
        self.ret_post: dict[tuple, tuple] = {}      # prod key -> look-ahead facts that hold whenever the production returns
        self.noreturn = {n for n, f in self.methods.items() if f.returns is not None and S.unparse(f.returns) == "NoReturn"}
        if "_parse_error" not in self.noreturn:
            # the error channel must exist and be NoReturn
            if "_parse_error" not in self.methods:
                raise AnalysisError("anchor CParser._parse_error vanished")
        self.token_effect = self._token_effect_methods()
        self.swallows = []         # (production, line, exception names): handlers that catch the parser's own error
        self.productions = {n for n in self.methods if n.startswith("_parse_") and n not in self.noreturn and n != "_parse_error"}
        self.special_pred = {"_peek_declarator_name_info"}
        self.extra_roots = set()
        self._future_reads = {}
        self._control = {}
        self._deref = {}
        self.site_counter = 0
        self.unknown_constructs = []

    # ------------------------------------------------------------------
    def _token_effect_methods(self):
        prim = set()
        for name, fn in self.methods.items():
            for n in ast.walk(fn):
                if (isinstance(n, ast.Call) and isinstance(n.func, ast.Attribute) and isinstance(n.func.value, ast.Attribute)
                        and n.func.value.attr == "_tokens" and n.func.attr in ("peek", "next", "mark", "reset")):
                    prim.add(name)
        calls = {}
        for name, fn in self.methods.items():
            calls[name] = {n.func.attr for n in ast.walk(fn) if is_self_attr_call(n, fn.args.args[0].arg) and n.func.attr in self.methods}
        eff = set(prim)
        changed = True
        while changed:
            changed = False
            for name, cs in calls.items():
                if name not in eff and cs & eff:
                    eff.add(name)
                    changed = True
        self.calls = calls
        self.prim_methods = prim
        return eff

    # ------------------------------------------------------------------
    def request(self, name, argsig=()):
        key = (name, tuple(argsig))
        if name not in self.productions and name in self.methods:
            self.extra_roots.add(name)
        if key not in self.prods:
            if name not in self.methods:
                raise AnalysisError(f"call to unknown production {name}")
            self.prods[key] = Prod(name, tuple(argsig))
            self.pending.append(key)
        return key

    def run(self, roots=("_parse_translation_unit_or_empty",)):
        for r in roots:
            self.request(r, ())
        self.roots = {(r, ()) for r in roots}
        self.entry_la = {}
        # rounds: return summaries (nullness of results) and entry look-ahead facts (union over all call sites)
        # are fed back until they are stable
        for rnd in range(12):
            self.pending = deque(self.prods.keys())
            before = ({k: set(v) for k, v in self.ret_summary.items()}, dict(self.entry_la), dict(self.ret_post))
            done = set()
            while self.pending:
                key = self.pending.popleft()
                if key in done:
                    continue
                done.add(key)
                self._extract(key)
            entry = {}
            for key, prod in self.prods.items():
                for e in prod.edges:
                    for ev in e.events:
                        if ev[0] == "call":
                            ck = (ev[1], ev[2])
                            la = ev[3]
                            if ck in entry:
                                entry[ck] = (entry[ck][0] | la[0], entry[ck][1] | la[1])
                            else:
                                entry[ck] = la
            for r in self.roots:
                entry[r] = (self.U.all, self.U.all)
            self.entry_la = entry
            self.rounds = rnd + 1
            if rnd > 0 and before == ({k: set(v) for k, v in self.ret_summary.items()}, entry, dict(self.ret_post)):
                break
        else:
            raise AnalysisError("extraction did not reach a fixpoint of entry facts / return summaries")
        return self

    # ------------------------------------------------------------------
    def _argsig_of_call(self, fn, call, st, callee):
        """Constant arguments of a production call become part of the clone identity."""
        params = [a.arg for a in callee.args.args[1:]]
        defaults = dict(zip(reversed(params), reversed(callee.args.defaults)))
        vals = {}
        for p, a in zip(params, call.args):
            vals[p] = a
        for k in call.keywords:
            if k.arg is not None:
                vals[k.arg] = k.value
        sig = []
        for p in params:
            if p in vals:
                v = self._quick_const(vals[p], st)
            elif p in defaults:
                v = self._quick_const(defaults[p], st)
            else:
                v = "?"
            sig.append((p, v))
        return tuple(sig)

    def _quick_const(self, e, st):
        if isinstance(e, ast.Constant):
            return ("c", e.value)
        if isinstance(e, ast.Name):
            v = st.get(e.id)
            if v[0] == "const":
                return ("c", v[1])
            if is_none(v):
                return ("c", None)
            if v == Val.OBJ:
                return ("o", "<object>")      # definitely not None: `x is None` tests in the callee are decided
        if isinstance(e, (ast.Dict, ast.List, ast.Tuple)):
            return ("o", "<object>")
        return "?"

    # ------------------------------------------------------------------
    def _extract(self, key):
        name, argsig = key
        fn = self.methods[name]
        prod = Prod(name, argsig)
        self.prods[key] = prod
        selfname = fn.args.args[0].arg
        env = {}
        params = [a.arg for a in fn.args.args[1:]]
        sig = dict(argsig)
        for p in params:
            v = sig.get(p, "?")
            env[p] = Val.UNK if v == "?" else Val.OBJ if v[0] == "o" else ("const", v[1])
        st = State(getattr(self, "entry_la", {}).get(key, (self.U.all, self.U.all)), (env,))
        work = deque()
        run = _Run(self, prod, fn, selfname, work)
        prod.start = run.node(((fn.body, 0, "fn", fn),), st)
        while work:
            frames, st, nid = work.popleft()
            run.step(frames, st, nid)
            if len(prod.nodes) > 60000:
                raise AnalysisError(f"state explosion while extracting {name}{argsig}")
        # return summary
        kinds = set()
        for v in prod.returns.values():
            kinds.add(_kind(v))
        self.ret_summary[key] = kinds
        self.ret_values[key] = [_strip(v) for v in prod.returns.values()]
        las = [prod.node_info[n]["la"] for n in prod.returns if prod.node_info[n].get("la") is not None]
        if las and len(las) == len(prod.returns):
            l1 = frozenset().union(*(l[0] for l in las))
            l2 = frozenset().union(*(l[1] for l in las))
            self.ret_post[key] = (l1, l2)
        else:
            self.ret_post.pop(key, None)
        return prod

    def deref_params(self, m):
        """Parameters of method m that are dereferenced (attribute / subscript) without any None test in m."""
        r = self._deref.get(m)
        if r is not None:
            return r
        fn = self.methods[m]
        params = {a.arg for a in fn.args.args[1:]}
        tested, deref = set(), set()
        for n in ast.walk(fn):
            if isinstance(n, ast.Compare) and isinstance(n.left, ast.Name) and any(isinstance(c, ast.Constant) and c.value is None for c in n.comparators):
                tested.add(n.left.id)
            if isinstance(n, (ast.If, ast.While, ast.IfExp)) and isinstance(n.test, ast.Name):
                tested.add(n.test.id)
            if isinstance(n, ast.BoolOp):
                for v in n.values:
                    if isinstance(v, ast.Name):
                        tested.add(v.id)
            if isinstance(n, ast.UnaryOp) and isinstance(n.op, ast.Not) and isinstance(n.operand, ast.Name):
                tested.add(n.operand.id)
            if isinstance(n, (ast.Attribute, ast.Subscript)) and isinstance(n.value, ast.Name) and n.value.id in params:
                deref.add(n.value.id)
        r = deref - tested
        self._deref[m] = r
        return r

    def ret_kinds(self, name, sig=None):
        if sig is not None and (name, sig) in self.ret_summary:
            return self.ret_summary[(name, sig)]
        out = set()
        for (n, _), ks in self.ret_summary.items():
            if n == name:
                out |= ks
        return out

    # ------------------------------------------------------------------
    def control_names(self, fn):
        """Names whose value can influence control flow or the token stream (closed under data dependence)."""
        r = self._control.get(id(fn))
        if r is not None:
            return r
        ctl = set()

        def names(e):
            return {n.id for n in ast.walk(e) if isinstance(n, ast.Name)}
        for n in ast.walk(fn):
            if isinstance(n, (ast.If, ast.While, ast.IfExp, ast.Assert)):
                ctl |= names(n.test)
            elif isinstance(n, ast.Match):
                ctl |= names(n.subject)
            elif isinstance(n, ast.match_case) and n.guard is not None:
                ctl |= names(n.guard)
            elif isinstance(n, ast.BoolOp):
                ctl |= names(n)
            elif isinstance(n, ast.comprehension):
                for c in n.ifs:
                    ctl |= names(c)
            elif isinstance(n, ast.Call):
                f = n.func
                if isinstance(f, ast.Attribute) and isinstance(f.value, ast.Name) and f.attr in self.token_effect and f.attr not in self.productions:
                    for a in list(n.args) + [k.value for k in n.keywords]:
                        ctl |= names(a)
                if isinstance(f, ast.Attribute) and isinstance(f.value, ast.Attribute) and f.value.attr == "_tokens":
                    for a in n.args:
                        ctl |= names(a)
                # constant arguments of production calls select the clone
                if isinstance(f, ast.Attribute) and isinstance(f.value, ast.Name) and f.attr in self.productions:
                    for a in list(n.args) + [k.value for k in n.keywords]:
                        if isinstance(a, ast.Name):
                            ctl.add(a.id)
            elif isinstance(n, ast.Return) and n.value is not None and fn.name not in self.productions:
                ctl |= names(n.value)
        changed = True
        while changed:
            changed = False
            for n in ast.walk(fn):
                tg = None
                if isinstance(n, ast.Assign):
                    tg, val = n.targets, n.value
                elif isinstance(n, ast.AnnAssign) and n.value is not None:
                    tg, val = [n.target], n.value
                elif isinstance(n, ast.NamedExpr):
                    tg, val = [n.target], n.value
                elif isinstance(n, ast.AugAssign):
                    tg, val = [n.target], n.value
                if tg is None:
                    continue
                tnames = set()
                for t in tg:
                    tnames |= {x.id for x in ast.walk(t) if isinstance(x, ast.Name)}
                if tnames & ctl:
                    add = names(val) - ctl
                    if add:
                        ctl |= add
                        changed = True
        self._control[id(fn)] = ctl
        return ctl

    def future_reads(self, frames):
        out = set()
        for block, i, kind, owner in frames:
            k = (id(block), i)
            r = self._future_reads.get(k)
            if r is None:
                r = set()
                for st in block[i:]:
                    for n in ast.walk(st):
                        if isinstance(n, ast.Name):
                            r.add(n.id)
                self._future_reads[k] = r
            out |= r
            if kind in ("loop", "forloop"):
                k2 = ("loop", id(owner))
                r2 = self._future_reads.get(k2)
                if r2 is None:
                    r2 = {n.id for n in ast.walk(owner) if isinstance(n, ast.Name)}
                    self._future_reads[k2] = r2
                out |= r2
        return out


def _kind(v):
    if is_none(v):
        return "none"
    if v[0] == "const":
        return "const:" + repr(v[1])
    if v[0] in ("list", "tuple"):
        return v[0]
    if v[0] == "ret":
        return "ret:" + v[1]
    return "obj"


class _Run:
    """Interpretation of one production clone."""

    def __init__(self, ex: Extractor, prod: Prod, fn, selfname, work):
        self.ex, self.prod, self.fn, self.selfname, self.work = ex, prod, fn, selfname, work
        self.U = ex.U

    # -- graph ---------------------------------------------------------
    def key_of(self, frames, st):
        live = self.ex.future_reads(frames)
        ctl = self.ex.control_names(self.fn)
        envk = []
        for depth, env in enumerate(st.envs):
            inner = depth == len(st.envs) - 1
            for k, v in sorted(env.items()):
                if inner:
                    if k in live:
                        envk.append((depth, k, _strip(v) if k in ctl else _nullness(v)))
                else:
                    envk.append((depth, k, _strip(v)))
        fk = tuple((id(b), i, kind) for b, i, kind, _ in frames)
        live_origins = {v[1] for _, _, v in envk if isinstance(v, tuple) and v and v[0] == "mark"}
        for _, _, v in envk:
            if isinstance(v, tuple) and v and v[0] == "tuple":
                live_origins |= {x[1] for x in v[1] if isinstance(x, tuple) and x and x[0] == "mark"}
        mk = tuple(m_ for m_ in st.marks if m_[0] in live_origins)
        return (fk, st.la, tuple(envk), mk)

    def node(self, frames, st):
        k = self.key_of(frames, st)
        nid = self.prod.nodes.get(k)
        if nid is None:
            nid = len(self.prod.node_info)
            self.prod.nodes[k] = nid
            self.prod.node_info.append({"la": st.la, "line": _line_of(frames)})
            self.work.append((frames, st, nid))
        return nid

    def emit(self, src, events, frames, st):
        dst = self.node(frames, st)
        self.prod.edges.append(Edge(src, events, dst))

    def ret(self, src, events, value, la=None):
        nid = len(self.prod.node_info)
        self.prod.node_info.append({"la": la, "line": 0, "final": True})
        self.prod.edges.append(Edge(src, events, nid))
        self.prod.returns[nid] = value

    def err(self, src, events, site=None):
        nid = len(self.prod.node_info)
        self.prod.node_info.append({"la": None, "line": getattr(site, "lineno", 0), "error": True})
        self.prod.edges.append(Edge(src, tuple(events) + (("error", getattr(site, "lineno", 0)),), nid))
        self.prod.error_nodes.add(nid)

    # -- lookahead helpers ----------------------------------------------
    def consume(self, st, types, site):
        """Consume one token whose type lies in `types` (a subset of la1)."""
        tokv = ("tok", site, types)
        envs = []
        for env in st.envs:
            e2 = {}
            for k, v in env.items():
                e2[k] = self._shift(v, tokv)
            envs.append(e2)
        return State((st.la[1], self.U.all), tuple(envs), st.upd_marks(1)), tokv

    def _shift(self, v, tokv):
        if v[0] == "peek":
            if v[1] == 1:
                return tokv
            return ("peek", v[1] - 1)
        if v[0] == "ptype":
            if v[1] == 1:
                return ("toktype", tokv[2])
            return ("ptype", v[1] - 1)
        if v[0] == "tuple":
            return ("tuple", tuple(self._shift(x, tokv) for x in v[1]))
        return v

    def havoc(self, st):
        """After a production call nothing is known about the look-ahead."""
        envs = []
        for env in st.envs:
            envs.append({k: self._stale(v, st) for k, v in env.items()})
        return State((self.U.all, self.U.all), tuple(envs), st.upd_marks(9))

    def _stale(self, v, st):
        if v[0] == "peek":
            return ("tok", "stale-peek", st.la[v[1] - 1] if v[1] <= 2 else self.U.all)
        if v[0] == "ptype":
            return ("toktype", st.la[v[1] - 1] if v[1] <= 2 else self.U.all)
        if v[0] == "tuple":
            return ("tuple", tuple(self._stale(x, st) for x in v[1]))
        return v

    # -- expressions: generator of (value, state, events) ------------------
    def ev(self, e, st):
        sn = self.selfname if len(st.envs) == 1 else st.envs[-1].get("$self", self.selfname)
        if isinstance(e, ast.Constant):
            yield (Val.NONE if e.value is None else ("const", e.value)), st, ()
            return
        if isinstance(e, ast.Name):
            if e.id in st.envs[-1]:
                yield st.envs[-1][e.id], st, ()
            elif e.id in self.U.tables:
                yield ("set", self.U.tables[e.id]), st, ()
            elif e.id in ("True", "False", "None"):
                yield ("const", {"True": True, "False": False, "None": None}[e.id]), st, ()
            else:
                yield Val.UNK, st, ()
            return
        if isinstance(e, (ast.Set, ast.Tuple, ast.List)):
            cs = _const_set(e, self.U)
            if cs is not None and not isinstance(e, ast.List):
                yield ("set", cs), st, ()
                return
            # evaluate elements left to right
            res = [((), st, ())]
            for x in e.elts:
                res = [(vs + (v,), s2, ev1 + ev2) for vs, s1, ev1 in res for v, s2, ev2 in self.ev(x, s1)]
            for vs, s1, ev1 in res:
                if any(v == ("ERR",) for v in vs):
                    yield ("ERR",), s1, ev1
                else:
                    yield (("tuple", vs) if isinstance(e, ast.Tuple) else ("list",)), s1, ev1
            return
        if isinstance(e, ast.Call) and isinstance(e.func, ast.Attribute) and e.func.attr == "get" and isinstance(e.func.value, ast.Name) and e.func.value.id not in st.envs[-1] \
                and 1 <= len(e.args) <= 2 and not e.keywords:
            # TABLE.get(key[, default]) on a module-level table of constants: evaluated when the key is a known constant (a constant argument of this clone)
            tbl = _module_const_dict(self.ex.mod.name, e.func.value.id)
            if tbl is not None:
                dflt = None
                if len(e.args) == 2:
                    dflt = e.args[1].value if isinstance(e.args[1], ast.Constant) else _NOCONST
                done = False
                for kv, s1, ev1 in self.ev(e.args[0], st):
                    if kv[0] == "const" and dflt is not _NOCONST and (kv[1] in tbl or True):
                        r = tbl.get(kv[1], dflt)
                        yield (Val.NONE if r is None else ("const", r)), s1, ev1
                        done = True
                    else:
                        done = False
                        break
                if done:
                    return
        if isinstance(e, ast.Call):
            yield from self.call(e, st)
            return
        if isinstance(e, ast.Attribute):
            for v, s1, ev1 in self.ev(e.value, st):
                if v == ("ERR",):
                    yield v, s1, ev1
                elif v[0] == "peek":
                    k = v[1]
                    la = s1.la[k - 1] if k <= 2 else self.U.all
                    if EOF in la:
                        yield ("ERR",), s1, ev1 + (("pyerror", f"AttributeError: .{e.attr} of the look-ahead token, which is None at end of input", getattr(e, "lineno", 0)),)
                    if la - {EOF}:
                        s2 = s1.with_la(k, la - {EOF}) if k <= 2 else s1
                        yield (("ptype", k) if e.attr == "type" else Val.UNK), s2, ev1
                elif e.attr == "type" and v[0] == "tok":
                    yield ("toktype", v[2]), s1, ev1
                elif is_none(v):
                    # attribute of None: AttributeError (not the error channel) - recorded by C06, path dies
                    yield ("ERR",), s1, ev1 + (("pyerror", "AttributeError on None", getattr(e, "lineno", 0)),)
                else:
                    yield Val.UNK, s1, ev1
            return
        if isinstance(e, (ast.BoolOp, ast.Compare)) or (isinstance(e, ast.UnaryOp) and isinstance(e.op, ast.Not)):
            if isinstance(e, ast.BoolOp):
                yield from self.boolop_value(e, st)
            else:
                for t, s1, ev1 in self.cond(e, st):
                    yield ("const", t), s1, ev1
            return
        if isinstance(e, ast.IfExp):
            for t, s1, ev1 in self.cond(e.test, st):
                for v, s2, ev2 in self.ev(e.body if t else e.orelse, s1):
                    yield v, s2, ev1 + ev2
            return
        if isinstance(e, ast.NamedExpr):
            for v, s1, ev1 in self.ev(e.value, st):
                yield v, (s1.bind(e.target.id, v) if v != ("ERR",) else s1), ev1
            return
        if isinstance(e, ast.Subscript):
            res = [((), st, ())]
            for x in (e.value, e.slice):
                res = [(vs + (v,), s2, ev1 + ev2) for vs, s1, ev1 in res for v, s2, ev2 in self.ev(x, s1)]
            for vs, s1, ev1 in res:
                if any(v == ("ERR",) for v in vs):
                    yield ("ERR",), s1, ev1
                elif vs[0][0] == "tuple" and vs[1][0] == "const" and isinstance(vs[1][1], int) and -len(vs[0][1]) <= vs[1][1] < len(vs[0][1]):
                    yield vs[0][1][vs[1][1]], s1, ev1
                else:
                    yield Val.UNK, s1, ev1
            return
        if isinstance(e, (ast.BinOp, ast.UnaryOp, ast.JoinedStr, ast.FormattedValue, ast.Dict, ast.ListComp, ast.GeneratorExp, ast.SetComp, ast.DictComp, ast.Slice, ast.Starred, ast.Lambda)):
            # evaluate sub-expressions for their effects only
            res = [(False, st, ())]
            for x in ast.iter_child_nodes(e):
                if isinstance(x, ast.expr) and not isinstance(e, (ast.ListComp, ast.GeneratorExp, ast.SetComp, ast.DictComp, ast.Lambda)):
                    res = [(bad or v == ("ERR",), s2, ev1 + ev2) for bad, s1, ev1 in res for v, s2, ev2 in self.ev(x, s1)]
            for bad, s1, ev1 in res:
                yield (("ERR",) if bad else Val.OBJ if isinstance(e, (ast.JoinedStr, ast.Dict, ast.ListComp, ast.Lambda)) else Val.UNK), s1, ev1
            return
        self.ex.unknown_constructs.append((self.prod.name, type(e).__name__, getattr(e, "lineno", 0)))
        yield Val.UNK, st, ()

    def boolop_value(self, e, st):
        """`a or b` / `a and b` as a value."""
        isand = isinstance(e.op, ast.And)
        pending = [(None, st, ())]
        for i, x in enumerate(e.values):
            nxt = []
            last = i == len(e.values) - 1
            for _, s0, ev0 in pending:
                for v, s1, ev1 in self.ev(x, s0):
                    if v == ("ERR",):
                        yield v, s1, ev0 + ev1
                        continue
                    if last:
                        yield v, s1, ev0 + ev1
                        continue
                    for t, s2 in self.truth(v, s1):
                        if t == (not isand):
                            yield v, s2, ev0 + ev1
                        else:
                            nxt.append((v, s2, ev0 + ev1))
            pending = nxt

    # -- truthiness of a value -----------------------------------------
    def truth(self, v, st):
        """Yield (bool, refined_state)."""
        if is_none(v):
            yield False, st
        elif v[0] == "const":
            yield bool(v[1]), st
        elif v[0] in ("tok", "obj", "mark"):
            yield True, st
        elif v[0] == "tuple":
            yield bool(v[1]), st
        elif v[0] == "peek":
            k = v[1]
            la = st.la[k - 1] if k <= 2 else self.U.all
            if la - {EOF}:
                yield True, (st.with_la(k, la - {EOF}) if k <= 2 else st)
            if EOF in la:
                yield False, (st.with_la(k, frozenset({EOF})) if k <= 2 else st)
        elif v[0] == "ret":
            kinds = self.ex.ret_kinds(v[1], v[2] if len(v) > 2 else None)
            if not kinds or "none" in kinds or any(k.startswith("const") or k in ("list", "tuple") for k in kinds):
                yield False, st
            yield True, st
        else:
            yield True, st
            yield False, st

    # -- conditions: generator of (bool, state, events) -------------------
    def cond(self, e, st):
        if isinstance(e, ast.BoolOp):
            isand = isinstance(e.op, ast.And)
            pending = [(st, ())]
            for i, x in enumerate(e.values):
                nxt = []
                for s0, ev0 in pending:
                    for t, s1, ev1 in self.cond(x, s0):
                        if t == (not isand):
                            yield t, s1, ev0 + ev1
                        else:
                            nxt.append((s1, ev0 + ev1))
                pending = nxt
            for s0, ev0 in pending:
                yield isand, s0, ev0
            return
        if isinstance(e, ast.UnaryOp) and isinstance(e.op, ast.Not):
            for t, s1, ev1 in self.cond(e.operand, st):
                yield (not t), s1, ev1
            return
        if isinstance(e, ast.Compare) and len(e.ops) == 1:
            yield from self.compare(e, st)
            return
        for v, s1, ev1 in self.ev(e, st):
            if v == ("ERR",):
                yield None, s1, ev1
                continue
            for t, s2 in self.truth(v, s1):
                yield t, s2, ev1

    def compare(self, e, st):
        op = e.ops[0]
        neg = isinstance(op, (ast.NotEq, ast.NotIn, ast.IsNot))
        for lv, s1, ev1 in self.ev(e.left, st):
            if lv == ("ERR",):
                yield None, s1, ev1
                continue
            for rv, s2, ev2 in self.ev(e.comparators[0], s1):
                evs = ev1 + ev2
                if rv == ("ERR",):
                    yield None, s2, evs
                    continue
                # right-hand constant set of token types
                rs = None
                if rv[0] == "set":
                    rs = rv[1]
                elif rv[0] == "const" and isinstance(rv[1], str):
                    rs = frozenset({rv[1]})
                elif is_none(rv):
                    rs = frozenset({EOF})
                if isinstance(op, (ast.In, ast.NotIn)) and rv[0] != "set":
                    rs = None
                    if isinstance(e.comparators[0], ast.Name) and lv[0] in ("ptype", "toktype"):
                        pass
                if lv[0] == "ptype" and rs is not None:
                    k = lv[1]
                    la = s2.la[k - 1] if k <= 2 else self.U.all
                    yes, no = la & rs, la - rs
                    if yes:
                        yield (not neg), (s2.with_la(k, yes) if k <= 2 else s2), evs
                    if no:
                        yield neg, (s2.with_la(k, no) if k <= 2 else s2), evs
                    continue
                if lv[0] == "peek" and rs == frozenset({EOF}):
                    k = lv[1]
                    la = s2.la[k - 1] if k <= 2 else self.U.all
                    if EOF in la:
                        yield (not neg), (s2.with_la(k, frozenset({EOF})) if k <= 2 else s2), evs
                    if la - {EOF}:
                        yield neg, (s2.with_la(k, la - {EOF}) if k <= 2 else s2), evs
                    continue
                if lv[0] == "toktype" and rs is not None:
                    yes, no = lv[1] & rs, lv[1] - rs
                    if yes and not no:
                        yield (not neg), s2, evs
                    elif no and not yes:
                        yield neg, s2, evs
                    else:
                        # partition not aligned: refine the token variable if it is a simple name
                        if isinstance(e.left, ast.Attribute) and isinstance(e.left.value, ast.Name):
                            nm = e.left.value.id
                            tv = s2.get(nm)
                            if tv[0] == "tok":
                                yield (not neg), s2.bind(nm, ("tok", tv[1], yes)), evs + (("refine", tv[1], yes),)
                                yield neg, s2.bind(nm, ("tok", tv[1], no)), evs + (("refine", tv[1], no),)
                                continue
                        if isinstance(e.left, ast.Name):
                            nm = e.left.id
                            yield (not neg), s2.bind(nm, ("toktype", yes)), evs
                            yield neg, s2.bind(nm, ("toktype", no)), evs
                            continue
                        yield True, s2, evs
                        yield False, s2, evs
                    continue
                if is_none(lv) and rs is not None and rs != frozenset({EOF}):
                    yield ((EOF in rs) != neg), s2, evs
                    continue
                if rs == frozenset({EOF}) and isinstance(op, (ast.Is, ast.IsNot, ast.Eq, ast.NotEq)):
                    # x is None
                    if is_none(lv):
                        yield (not neg), s2, evs
                    elif lv[0] in ("tok", "obj", "tuple", "mark", "list", "set", "toktype") or (lv[0] == "const" and lv[1] is not None):
                        yield neg, s2, evs
                    elif lv[0] == "ret":
                        kinds = self.ex.ret_kinds(lv[1], lv[2] if len(lv) > 2 else None)
                        nm = e.left.id if isinstance(e.left, ast.Name) else None
                        if not kinds or "none" in kinds:
                            yield (not neg), (s2.bind(nm, Val.NONE) if nm else s2), evs
                        if not kinds or kinds - {"none"}:
                            yield neg, (s2.bind(nm, Val.OBJ) if nm else s2), evs
                    else:
                        nm = e.left.id if isinstance(e.left, ast.Name) else None
                        yield (not neg), (s2.bind(nm, Val.NONE) if nm else s2), evs
                        yield neg, (s2.bind(nm, Val.OBJ) if nm and lv == Val.UNK else s2), evs
                    continue
                if lv[0] == "const" and rv[0] == "const" and isinstance(op, (ast.Eq, ast.NotEq, ast.Is, ast.IsNot)):
                    yield ((lv[1] == rv[1]) != neg), s2, evs
                    continue
                if lv[0] == "const" and rv[0] == "set" and isinstance(op, (ast.In, ast.NotIn)):
                    yield ((lv[1] in rv[1]) != neg), s2, evs
                    continue
                if lv[0] == "const" and rv[0] == "const" and isinstance(op, (ast.Lt, ast.LtE, ast.Gt, ast.GtE)):
                    try:
                        r = {ast.Lt: lv[1] < rv[1], ast.LtE: lv[1] <= rv[1], ast.Gt: lv[1] > rv[1], ast.GtE: lv[1] >= rv[1]}[type(op)]
                        yield r, s2, evs
                        continue
                    except TypeError:
                        pass
                yield True, s2, evs
                yield False, s2, evs

    # -- calls -------------------------------------------------------------
    def call(self, e, st):
        ex = self.ex
        f = e.func
        sn = self.selfname
        # stream primitives: self._tokens.peek/next/mark/reset
        if (isinstance(f, ast.Attribute) and isinstance(f.value, ast.Attribute) and f.value.attr == "_tokens"
                and isinstance(f.value.value, ast.Name)):
            yield from self.primitive(f.attr, e, st)
            return
        if isinstance(f, ast.Attribute) and isinstance(f.value, ast.Name) and f.value.id in (sn, st.envs[-1].get("$selfname", sn)) and f.attr in ex.methods:
            m = f.attr
            if m in ex.noreturn:
                # evaluate arguments (they may have effects), then the error channel
                for vs, s1, ev1 in self.args(e, st):
                    yield ("ERR",), s1, ev1 + (("error", e.lineno, m),)
                return
            if m in ex.special_pred:
                yield from self.name_info(e, st)
                return
            if m in ex.productions:
                callee = ex.methods[m]
                for vs, s1, ev1 in self.args(e, st):
                    if vs is None:
                        yield ("ERR",), s1, ev1
                        continue
                    sig = ex._argsig_of_call(self.fn, e, s1, callee)
                    key = ex.request(m, sig)
                    s2 = self.havoc(s1)
                    post = ex.ret_post.get(key)
                    if post is not None:
                        s2 = State(post, s2.envs, s2.marks)
                    yield ("ret", m, sig), s2, ev1 + (("call", m, sig, s1.la, e.lineno),)
                return
            if m in ex.token_effect:
                yield from self.inline(m, e, st)
                return
            # opaque builder method: no token effect; may reach the error channel
            for vs, s1, ev1 in self.args(e, st):
                if vs is None:
                    yield ("ERR",), s1, ev1
                    continue
                kw = tuple(sorted((k.arg, ex._quick_const(k.value, s1)) for k in e.keywords if k.arg))
                dp = ex.deref_params(m)
                cparams = [a.arg for a in ex.methods[m].args.args[1:]]
                bound = list(zip(cparams, vs[:len(e.args)])) + [(k.arg, v) for k, v in zip(e.keywords, vs[len(e.args):])]
                for pname, pv in bound:
                    if pname in dp and self.may_be_none(pv, s1):
                        ev1 = ev1 + (("pyerror", f"AttributeError: {m}() dereferences its argument `{pname}`, which may be None here", e.lineno),)
                yield Val.OBJ if m in ("_tok_coord", "_coord", "_add_declaration_specifier", "_type_modify_decl", "_fix_decl_name_type", "_build_declarations", "_build_function_definition", "_build_parameter_declaration", "_select_struct_union_class") else Val.UNK, s1, ev1 + (("opaque", m, kw, e.lineno),)
            return
        # constructors / module functions / methods of other objects: evaluate args for effects
        for vs, s1, ev1 in self.args(e, st):
            if vs is None:
                yield ("ERR",), s1, ev1
                continue
            if isinstance(f, ast.Attribute) and isinstance(f.value, ast.Name) and f.value.id == "c_ast":
                yield Val.OBJ, s1, ev1 + (("ctor", f.attr, e.lineno),)
            elif isinstance(f, ast.Name) and f.id in ("dict", "list", "tuple", "set", "cast", "len", "isinstance", "getattr", "hasattr", "fix_switch_cases", "fix_atomic_specifiers"):
                if f.id == "cast" and len(vs) == 2:
                    yield vs[1], s1, ev1
                elif f.id in ("dict", "list", "fix_switch_cases", "fix_atomic_specifiers"):
                    yield Val.OBJ, s1, ev1
                else:
                    yield Val.UNK, s1, ev1
            elif isinstance(f, ast.Name) and f.id in st.envs[-1] and st.envs[-1][f.id] == ("localfn",):
                yield Val.OBJ, s1, ev1
            else:
                yield Val.UNK, s1, ev1

    def may_be_none(self, v, st):
        if is_none(v):
            return True
        if v[0] == "peek":
            la = st.la[v[1] - 1] if v[1] <= 2 else self.U.all
            return EOF in la
        if v[0] == "ret":
            return "none" in self.ex.ret_kinds(v[1], v[2] if len(v) > 2 else None)
        return False

    def args(self, e, st):
        """Evaluate receiver-less arguments left to right; yields (values|None if error, state, events)."""
        res = [((), st, ())]
        parts = list(e.args) + [k.value for k in e.keywords]
        if isinstance(e.func, ast.Attribute) and not (isinstance(e.func.value, ast.Name)):
            parts = [e.func.value] + parts
        for x in parts:
            nxt = []
            for vs, s1, ev1 in res:
                if vs is None:
                    nxt.append((None, s1, ev1))
                    continue
                for v, s2, ev2 in self.ev(x, s1):
                    nxt.append((None if v == ("ERR",) else vs + (v,), s2, ev1 + ev2))
            res = nxt
        yield from res

    def primitive(self, what, e, st):
        if what == "peek":
            k = 1
            if e.args:
                if isinstance(e.args[0], ast.Constant):
                    k = e.args[0].value
                else:
                    vs = list(self.ev(e.args[0], st))
                    if len(vs) == 1 and vs[0][0][0] == "const":
                        k = vs[0][0][1]
                    else:
                        yield Val.UNK, st, ()
                        return
            yield ("peek", k), st, ()
            return
        if what == "next":
            la = st.la[0]
            # partition la1 by the constant sets this method (and the inlined helpers) test
            cells = {}
            psets = self.partition_sets()
            for t in la:
                cells.setdefault(tuple(t in c for c in psets), set()).add(t)
            for c in cells.values():
                fs = frozenset(c)
                if fs == frozenset({EOF}):
                    yield Val.NONE, State((frozenset({EOF}), frozenset({EOF})), st.envs, st.marks), ()
                    continue
                fs = fs - {EOF}
                s2, tokv = self.consume(st.with_la(1, fs), fs, e.lineno)
                ist = getattr(self, "istack", ())
                site = ist[0][1] if ist else (e.lineno, e.col_offset)
                yield tokv, s2, (("consume", fs, e.lineno, site),)
            return
        if what == "mark":
            marks = tuple(mk for mk in st.marks if mk[0] != self.cur_node) + ((self.cur_node, self.U.all, self.U.all, 0),)
            yield ("mark", self.cur_node), State(st.la, st.envs, marks), (("mark", self.cur_node, getattr(self, "istack", ())),)
            return
        if what == "reset":
            for vs, s1, ev1 in self.args(e, st):
                mv = vs[-1] if vs else Val.UNK
                if mv[0] == "mark":
                    origin = mv[1]
                    la = getattr(self, "real_prod", self.prod).node_info[origin]["la"]
                    known = next((mk for mk in s1.upd_marks(0) if mk[0] == origin), None)
                    if known is not None:
                        la = (la[0] & known[1], la[1] & known[2])
                    s2 = State(la, tuple({k: self._stale(v, s1) for k, v in env.items()} for env in s1.envs), s1.marks)
                    yield Val.NONE, s2, ev1 + (("guard", s1.la), ("reset", origin, getattr(self, "istack", ())),)
                else:
                    # the stream is moved to a position that is not a mark taken on this path: tokens may be skipped
                    # unparsed.  Modelled as an arbitrary jump (look-ahead unknown) and reported by R-C18.2.
                    s2 = self.havoc(s1)
                    yield Val.NONE, s2, ev1 + (("badreset", e.lineno),)
            return
        yield Val.UNK, st, ()

    def partition_sets(self):
        if not hasattr(self, "_psets"):
            sets = []
            seen_methods = set()

            def collect(fn):
                if fn.name in seen_methods:
                    return
                seen_methods.add(fn.name)
                for n in ast.walk(fn):
                    cs = _const_set(n, self.U) if isinstance(n, (ast.Set, ast.Tuple, ast.Name, ast.Constant)) else None
                    if cs and cs <= self.U.all and cs not in sets:
                        sets.append(cs)
                    if isinstance(n, ast.match_case):
                        for p in (n.pattern.patterns if isinstance(n.pattern, ast.MatchOr) else [n.pattern]):
                            if isinstance(p, ast.MatchValue) and isinstance(p.value, ast.Constant) and isinstance(p.value.value, str):
                                c1 = frozenset({p.value.value})
                                if c1 not in sets:
                                    sets.append(c1)
                    if is_self_attr_call(n, fn.args.args[0].arg) and n.func.attr in self.ex.token_effect and n.func.attr not in self.ex.productions:
                        collect(self.ex.methods[n.func.attr])
            collect(self.fn)
            sets.append(frozenset({EOF}))
            self._psets = sets
        return self._psets

    def name_info(self, e, st):
        """Summary of _peek_declarator_name_info: a consumption-neutral look-ahead scan.

        Result (name_type, saw_paren): decided by la1 where the scan stops at once; a free choice behind '*' / '('.
        """
        la = st.la[0]
        direct = {"ID": ("ID", False), "TYPEID": ("TYPEID", False)}
        groups = {}
        for t in la:
            if t in direct:
                groups.setdefault(direct[t], set()).add(t)
            elif t in ("TIMES", "LPAREN"):
                for nt in (None, "ID", "TYPEID"):
                    for sp in ((False, True) if t == "TIMES" else (True,)):
                        groups.setdefault((nt, sp), set()).add(t)
            else:
                groups.setdefault((None, False), set()).add(t)
        for (nt, sp), ts in groups.items():
            yield ("tuple", (("const", nt) if nt else Val.NONE, ("const", sp))), st.with_la(1, frozenset(ts)), (("pred", "declarator_name_info", nt, sp),)

    def inline(self, m, e, st):
        """Interpret a helper method with token effects in place (its automaton nodes become part of the caller's)."""
        callee = self.ex.methods[m]
        params = [a.arg for a in callee.args.args[1:]]
        defaults = dict(zip(reversed(params), reversed(callee.args.defaults)))
        for vs, s1, ev1 in self.args(e, st):
            if vs is None:
                yield ("ERR",), s1, ev1
                continue
            env = {}
            posvals = vs[:len(e.args)]
            kwvals = dict(zip([k.arg for k in e.keywords], vs[len(e.args):]))
            for i, p in enumerate(params):
                if i < len(posvals):
                    env[p] = posvals[i]
                elif p in kwvals:
                    env[p] = kwvals[p]
                elif p in defaults:
                    d = defaults[p]
                    env[p] = (Val.NONE if isinstance(d, ast.Constant) and d.value is None else ("const", d.value) if isinstance(d, ast.Constant) else Val.UNK)
                else:
                    env[p] = Val.UNK
            # run the helper to completion by a local work list (helpers are small and loop-free or simple loops)
            results = []
            sub = _Inline(self, callee, State(s1.la, s1.envs + (env,), s1.marks), ev1, (e.lineno, e.col_offset))
            for v, s2, ev2 in sub.run():
                yield v, State(s2.la, s2.envs[:-1], s2.marks), ev2
            del results

    # -- statements ----------------------------------------------------------
    def step(self, frames, st, nid):
        if not getattr(self, "fixed_cur", False):
            self.cur_node = nid
        if not frames:
            return
        block, i, kind, owner = frames[-1]
        if i >= len(block):
            if kind == "fn":
                self.ret(nid, (), Val.NONE, st.la)
                return
            if kind == "loop":
                self.emit(nid, (), frames[:-1], st)     # back to the while statement
                return
            if kind == "forloop":
                # next iteration or exit
                self.emit(nid, (), frames[:-1], st)
                return
            self.emit(nid, (), frames[:-1], st)
            return
        stmt = block[i]
        nxt = frames[:-1] + ((block, i + 1, kind, owner),)
        self.exec_stmt(stmt, frames, nxt, st, nid)

    def exec_stmt(self, stmt, frames, nxt, st, nid):
        if isinstance(stmt, ast.Expr):
            if isinstance(stmt.value, ast.Constant):
                self.emit(nid, (), nxt, st)
                return
            for v, s1, ev1 in self.ev(stmt.value, st):
                if v == ("ERR",):
                    self.err(nid, ev1, stmt)
                else:
                    self.emit(nid, ev1, nxt, s1)
            return
        if isinstance(stmt, (ast.Assign, ast.AnnAssign)):
            val = stmt.value
            if val is None:
                self.emit(nid, (), nxt, st)
                return
            targets = stmt.targets if isinstance(stmt, ast.Assign) else [stmt.target]
            for v, s1, ev1 in self.ev(val, st):
                if v == ("ERR",):
                    self.err(nid, ev1, stmt)
                    continue
                s2 = s1
                for t in targets:
                    s2 = self.assign(t, v, s2)
                self.emit(nid, ev1, nxt, s2)
            return
        if isinstance(stmt, ast.AugAssign):
            for v, s1, ev1 in self.ev(stmt.value, st):
                if v == ("ERR",):
                    self.err(nid, ev1, stmt)
                else:
                    s2 = s1.bind(stmt.target.id, Val.UNK) if isinstance(stmt.target, ast.Name) else s1
                    self.emit(nid, ev1, nxt, s2)
            return
        if isinstance(stmt, ast.Return):
            if stmt.value is None:
                self.ret(nid, (), Val.NONE, st.la)
                return
            for v, s1, ev1 in self.ev(stmt.value, st):
                if v == ("ERR",):
                    self.err(nid, ev1, stmt)
                else:
                    self.ret(nid, ev1, self._stale(v, s1), s1.la)
            return
        if isinstance(stmt, ast.If):
            for t, s1, ev1 in self.cond(stmt.test, st):
                if t is None:
                    self.err(nid, ev1, stmt)
                    continue
                body = stmt.body if t else stmt.orelse
                self.emit(nid, ev1, nxt + ((body, 0, "blk", stmt),), s1)
            return
        if isinstance(stmt, ast.While):
            for t, s1, ev1 in self.cond(stmt.test, st):
                if t is None:
                    self.err(nid, ev1, stmt)
                elif t:
                    self.emit(nid, ev1 + (("iter", stmt.lineno),), frames + ((stmt.body, 0, "loop", stmt),), s1)
                else:
                    self.emit(nid, ev1, nxt, s1)
            return
        if isinstance(stmt, ast.For):
            # loops over Python lists built earlier: finite, no token effect in the header; 0..n iterations
            for v, s1, ev1 in self.ev(stmt.iter, st):
                if v == ("ERR",):
                    self.err(nid, ev1, stmt)
                    continue
                s2 = s1
                for n in ast.walk(stmt.target):
                    if isinstance(n, ast.Name):
                        s2 = s2.bind(n.id, Val.UNK)
                self.emit(nid, ev1 + (("foriter", stmt.lineno),), frames + ((stmt.body, 0, "forloop", stmt),), s2)
                self.emit(nid, ev1, nxt, s1)
            return
        if isinstance(stmt, (ast.Break, ast.Continue)):
            fr = frames
            while fr and fr[-1][2] not in ("loop", "forloop"):
                fr = fr[:-1]
            if not fr:
                raise AnalysisError(f"{self.prod.name}: break/continue outside loop")
            fr = fr[:-1]   # now the top frame is the one holding the loop statement
            if isinstance(stmt, ast.Break):
                b, j, k, o = fr[-1]
                fr = fr[:-1] + ((b, j + 1, k, o),)
            self.emit(nid, (), fr, st)
            return
        if isinstance(stmt, ast.Match):
            self.exec_match(stmt, frames, nxt, st, nid)
            return
        if isinstance(stmt, ast.Assert):
            outcomes = list(self.cond(stmt.test, st))
            vals = {t for t, _, _ in outcomes}
            self.prod.asserts.append((stmt, vals, st.la))
            for t, s1, ev1 in outcomes:
                if t:
                    self.emit(nid, ev1, nxt, s1)
                elif t is None:
                    self.err(nid, ev1, stmt)
                # a failing assert raises AssertionError: the path ends (C06 judges it)
            return
        if isinstance(stmt, ast.Raise):
            nid2 = len(self.prod.node_info)
            self.prod.node_info.append({"la": None, "line": stmt.lineno, "raise": S.unparse(stmt.exc) if stmt.exc else ""})
            self.prod.edges.append(Edge(nid, (("raise", S.unparse(stmt.exc)[:60] if stmt.exc else "", stmt.lineno),), nid2))
            return
        if isinstance(stmt, ast.FunctionDef):
            self.emit(nid, (), nxt, st.bind(stmt.name, ("localfn",)))
            return
        if isinstance(stmt, (ast.Pass, ast.Delete, ast.Global, ast.Nonlocal, ast.Import, ast.ImportFrom)):
            self.emit(nid, (), nxt, st)
            return
        if isinstance(stmt, ast.Try):
            # normal path: body, else, finally, then on.  An exception ends the parse (the error channel is terminal) unless a handler
            # catches the parser's own error: that is recorded (several properties forbid it) and the handler is explored from the state
            # at the `try` (handlers of this kind rewind the token stream before they go on).
            tail = nxt
            if stmt.finalbody:
                tail = tail + ((stmt.finalbody, 0, "blk", stmt),)
            if stmt.orelse:
                tail = tail + ((stmt.orelse, 0, "blk", stmt),)
            self.emit(nid, (), tail + ((stmt.body, 0, "blk", stmt),), st)
            for h in stmt.handlers:
                names = {x.id for x in ast.walk(h.type) if isinstance(x, ast.Name)} | {x.attr for x in ast.walk(h.type) if isinstance(x, ast.Attribute)} if h.type is not None else {"BaseException"}
                if names & {"ParseError", "Exception", "BaseException"}:
                    if (self.prod.name, h.lineno, sorted(names)) not in self.ex.swallows:
                        self.ex.swallows.append((self.prod.name, h.lineno, sorted(names)))
                    htail = nxt + ((stmt.finalbody, 0, "blk", stmt),) if stmt.finalbody else nxt
                    s2 = st.bind(h.name, Val.OBJ) if h.name else st
                    self.emit(nid, (("swallow", h.lineno),), htail + ((h.body, 0, "blk", stmt),), State((self.U.all, self.U.all), s2.envs, s2.marks))
            return
        if isinstance(stmt, ast.With):
            self.emit(nid, (), nxt + ((stmt.body, 0, "blk", stmt),), st)
            return
        raise AnalysisError(f"{self.prod.name}: unsupported statement {type(stmt).__name__} at line {stmt.lineno}")

    def exec_match(self, stmt, frames, nxt, st, nid):
        remaining = []
        for v, s1, ev1 in self.ev(stmt.subject, st):
            if v == ("ERR",):
                self.err(nid, ev1, stmt)
            else:
                remaining.append((v, s1, ev1))
        for case in stmt.cases:
            pat = case.pattern
            newrem = []
            for v, s0, ev0 in remaining:
                if isinstance(pat, ast.MatchAs) and pat.pattern is None:
                    outcomes = [(True, s0, ())]
                else:
                    pats = pat.patterns if isinstance(pat, ast.MatchOr) else [pat]
                    if not all(isinstance(p, ast.MatchValue) and isinstance(p.value, ast.Constant) for p in pats):
                        raise AnalysisError(f"{self.prod.name}: unsupported match pattern at line {case.pattern.lineno}")
                    rs = frozenset(EOF if p.value.value is None else p.value.value for p in pats)
                    outcomes = list(self._match_set(stmt.subject, v, rs, s0))
                for t, s1, ev1 in outcomes:
                    if t and case.guard is not None:
                        for t2, s2, ev2 in self.cond(case.guard, s1):
                            if t2 is None:
                                self.err(nid, ev0 + ev1 + ev2, stmt)
                            elif t2:
                                self.emit(nid, ev0 + ev1 + ev2, nxt + ((case.body, 0, "blk", stmt),), s2)
                            else:
                                newrem.append((self._reval(stmt.subject, v, s2), s2, ev0 + ev1 + ev2))
                    elif t:
                        self.emit(nid, ev0 + ev1, nxt + ((case.body, 0, "blk", stmt),), s1)
                    else:
                        newrem.append((self._reval(stmt.subject, v, s1), s1, ev0 + ev1))
            remaining = newrem
        for v, s0, ev0 in remaining:
            self.emit(nid, ev0, nxt, s0)

    def _reval(self, subject, v, st):
        if isinstance(subject, ast.Name):
            return st.get(subject.id)
        if isinstance(subject, ast.Attribute) and isinstance(subject.value, ast.Name) and subject.attr == "type":
            tv = st.get(subject.value.id)
            if tv[0] == "tok":
                return ("toktype", tv[2])
        return v

    def _match_set(self, subject, v, rs, st):
        if v[0] == "ptype":
            k = v[1]
            la = st.la[k - 1] if k <= 2 else self.U.all
            yes, no = la & rs, la - rs
            if yes:
                yield True, (st.with_la(k, yes) if k <= 2 else st), ()
            if no:
                yield False, (st.with_la(k, no) if k <= 2 else st), ()
            return
        if v[0] == "toktype":
            yes, no = v[1] & rs, v[1] - rs
            nm = None
            if isinstance(subject, ast.Attribute) and isinstance(subject.value, ast.Name):
                nm = subject.value.id
            if yes:
                s2 = st
                if nm and st.get(nm)[0] == "tok":
                    s2 = st.bind(nm, ("tok", st.get(nm)[1], yes))
                elif isinstance(subject, ast.Name):
                    s2 = st.bind(subject.id, ("toktype", yes))
                yield True, s2, ((("refine", st.get(nm)[1], yes),) if nm and st.get(nm)[0] == "tok" and no else ())
            if no:
                s2 = st
                if nm and st.get(nm)[0] == "tok":
                    s2 = st.bind(nm, ("tok", st.get(nm)[1], no))
                elif isinstance(subject, ast.Name):
                    s2 = st.bind(subject.id, ("toktype", no))
                yield False, s2, ((("refine", st.get(nm)[1], no),) if nm and st.get(nm)[0] == "tok" and yes else ())
            return
        if v[0] == "const":
            yield (v[1] in rs), st, ()
            return
        if is_none(v):
            yield (EOF in rs), st, ()
            return
        yield True, st, ()
        yield False, st, ()

    def _never_none(self, c):
        if is_none(c) or c == Val.UNK:
            return False
        if c[0] == "ret":
            kinds = self.ex.ret_kinds(c[1], c[2] if len(c) > 2 else None)
            return bool(kinds) and "none" not in kinds
        if c[0] == "const":
            return c[1] is not None
        return c[0] in ("tok", "obj", "tuple", "list", "mark", "set", "toktype")

    def assign(self, t, v, st):
        if isinstance(t, ast.Name):
            return st.bind(t.id, v)
        if isinstance(t, (ast.Tuple, ast.List)):
            if v[0] == "tuple" and len(v[1]) == len(t.elts):
                for tt, vv in zip(t.elts, v[1]):
                    st = self.assign(tt, vv, st)
                return st
            if v[0] == "ret":
                # tuple-returning production: join the components over all its return statements
                vals = self.ex.ret_values.get((v[1], v[2] if len(v) > 2 else ()), [])
                if vals and all(x[0] == "tuple" and len(x[1]) == len(t.elts) for x in vals):
                    for i, tt in enumerate(t.elts):
                        comps = [x[1][i] for x in vals]
                        if all(c == comps[0] for c in comps) and comps[0][0] in ("const", "none"):
                            cv = comps[0]
                        elif all(self._never_none(c) for c in comps):
                            cv = Val.OBJ
                        elif all(is_none(c) for c in comps):
                            cv = Val.NONE
                        else:
                            cv = Val.UNK
                        st = self.assign(tt, cv, st)
                    return st
            for tt in t.elts:
                st = self.assign(tt, Val.UNK, st)
            return st
        return st   # attribute / subscript stores have no effect on the token-stream domain


class _Inline:
    """Runs an inlined helper to completion, sharing the caller's graph: it explores the helper's paths with an
    explicit stack and returns (value, state, events) triples; loops in helpers are bounded by state repetition."""

    def __init__(self, run: _Run, fn, st, ev0, call_line=0):
        self.run_, self.fn, self.st0, self.ev0, self.call_line = run, fn, st, ev0, call_line

    def run(self):
        r = self.run_
        results = []
        fn = self.fn
        # a private _Run that writes into a scratch production, then we fold its paths into (value,state,events)
        scratch = Prod(fn.name, ())
        work = deque()
        sub = _Run(r.ex, scratch, fn, fn.args.args[0].arg, work)
        sub._psets = r.partition_sets()
        sub.istack = getattr(r, "istack", ()) + ((fn.name, getattr(self, "call_line", 0)),)
        sub.fixed_cur = True
        sub.cur_node = r.cur_node
        sub.real_prod = getattr(r, "real_prod", r.prod)
        start = sub.node(((fn.body, 0, "fn", fn),), self.st0)
        scratch.node_info[start]["la"] = self.st0.la
        sub_states = {start: self.st0}
        orig_node = sub.node

        def node(frames, st, _orig=orig_node):
            nid = _orig(frames, st)
            sub_states.setdefault(nid, st)
            return nid
        sub.node = node
        finals = {}
        orig_ret = sub.ret

        def ret(src, events, value, la=None, _sub=sub):
            nid = len(scratch.node_info)
            scratch.node_info.append({"la": None, "line": 0, "final": True})
            scratch.edges.append(Edge(src, events, nid))
            scratch.returns[nid] = value
            finals[nid] = _sub._last_state
        sub.ret = ret
        orig_exec = sub.exec_stmt

        def exec_stmt(stmt, frames, nxt, st, nid, _orig=orig_exec):
            if isinstance(stmt, ast.Return):
                # remember the state at the return for the caller
                if stmt.value is None:
                    sub._last_state = st
                    sub.ret(nid, (), Val.NONE)
                    return
                for v, s1, ev1 in sub.ev(stmt.value, st):
                    if v == ("ERR",):
                        sub.err(nid, ev1, stmt)
                    else:
                        sub._last_state = s1
                        sub.ret(nid, ev1, v)
                return
            _orig(stmt, frames, nxt, st, nid)
        sub.exec_stmt = exec_stmt
        orig_step = sub.step

        def step(frames, st, nid, _orig=orig_step):
            block, i, kind, owner = frames[-1]
            if i >= len(block) and kind == "fn":
                sub._last_state = st
                sub.ret(nid, (), Val.NONE)
                return
            _orig(frames, st, nid)
        sub.step = step
        guard = 0
        while work:
            frames, st, nid = work.popleft()
            sub.cur_node = r.cur_node
            sub.step(frames, st, nid)
            guard += 1
            if guard > 20000:
                raise AnalysisError(f"inlined helper {fn.name} does not converge")
        # enumerate paths start -> finals / errors (the helper graphs are DAGs up to small loops: bound the walk)
        out = {}
        for e in scratch.edges:
            out.setdefault(e.src, []).append(e)
        stack = [(start, self.ev0, frozenset([start]))]
        n = 0
        while stack:
            nid, evs, seen = stack.pop()
            n += 1
            if n > 200000:
                raise AnalysisError(f"inlined helper {fn.name}: too many paths")
            if nid in scratch.returns:
                results.append((scratch.returns[nid], finals[nid], evs))
                continue
            if nid in scratch.error_nodes:
                results.append((("ERR",), self.st0, evs))
                continue
            for e in out.get(nid, []):
                if e.dst in seen:
                    continue   # helpers with loops: each loop state visited once per path
                stack.append((e.dst, evs + e.events, seen | {e.dst}))
        return results


def _nullness(v):
    if is_none(v):
        return "none"
    if v[0] in ("tok", "obj", "tuple", "list", "mark", "set", "toktype", "localfn") or (v[0] == "const" and v[1] is not None):
        return "obj"
    if v[0] == "ret":
        return v
    return "unk"


def _strip(v):
    if v[0] == "tok":
        return ("tok", v[2])
    if v[0] == "tuple":
        return ("tuple", tuple(_strip(x) for x in v[1]))
    return v


def _line_of(frames):
    for block, i, kind, owner in reversed(frames):
        if i < len(block):
            return getattr(block[i], "lineno", 0)
    return 0


def _const_set(node, U):
    if isinstance(node, ast.Constant):
        if isinstance(node.value, str):
            return frozenset({node.value})
        if node.value is None:
            return frozenset({EOF})
        return None
    if isinstance(node, (ast.Set, ast.Tuple)):
        out = set()
        for e in node.elts:
            c = _const_set(e, U)
            if c is None:
                return None
            out |= c
        return frozenset(out)
    if isinstance(node, ast.Name) and node.id in U.tables:
        return U.tables[node.id]
    return None
