"""E2 - regular-expression models.

Regex syntax trees come from `re._parser.parse` (only the *parser* of the re
module is used; nothing is ever matched).  From them: a symbolic alphabet of
minterms, a Thompson NFA with ordered epsilon edges (backtracking priority) and
look-ahead conditions, the leftmost-first deterministic model of what
`pattern.match(text, pos)` returns, the plain subset automaton, language
operations on DFAs, and ambiguity (EDA) analysis.
"""
from __future__ import annotations

import re._parser as sre_parse
import re._constants as sre_c
import sys
from collections import deque

from .core import AnalysisError

MAXCP = 0x10FFFF
END = -1  # pseudo symbol: end of input


# ---------------------------------------------------------------------------
# character sets as sorted disjoint ranges
# ---------------------------------------------------------------------------
def _norm(ranges):
    out = []
    for lo, hi in sorted(ranges):
        if lo > hi:
            continue
        if out and lo <= out[-1][1] + 1:
            out[-1] = (out[-1][0], max(out[-1][1], hi))
        else:
            out.append((lo, hi))
    return tuple(out)


def cs_union(*sets):
    r = []
    for s in sets:
        r += list(s)
    return _norm(r)


def cs_neg(s):
    out = []
    prev = 0
    for lo, hi in s:
        if lo > prev:
            out.append((prev, lo - 1))
        prev = hi + 1
    if prev <= MAXCP:
        out.append((prev, MAXCP))
    return tuple(out)


def cs_chars(chars):
    return _norm([(ord(c), ord(c)) for c in chars])


_cat_cache = {}


def category(name):
    """Code-point ranges of an sre category for str patterns (Unicode semantics)."""
    if name in _cat_cache:
        return _cat_cache[name]
    if name in ("DIGIT", "NOT_DIGIT"):
        pred = lambda ch: ch.isdecimal()
    elif name in ("WORD", "NOT_WORD"):
        pred = lambda ch: ch.isalnum() or ch == "_"
    elif name in ("SPACE", "NOT_SPACE"):
        pred = lambda ch: ch.isspace()
    else:
        raise AnalysisError(f"unsupported regex category {name}")
    ranges = []
    start = None
    for cp in range(MAXCP + 1):
        if pred(chr(cp)):
            if start is None:
                start = cp
        elif start is not None:
            ranges.append((start, cp - 1))
            start = None
    if start is not None:
        ranges.append((start, MAXCP))
    pos = _norm(ranges)
    _cat_cache[name.replace("NOT_", "")] = pos
    _cat_cache["NOT_" + name.replace("NOT_", "")] = cs_neg(pos)
    return _cat_cache[name]


# ---------------------------------------------------------------------------
# internal regex AST:  ('set', charset) ('seq', [..]) ('alt', [..]) ('rep', min, max|None, node)
#                      ('group', name|None, node) ('nla', charset)  negative 1-char look-ahead
#                      ('eos',)  the `$` anchor
# ---------------------------------------------------------------------------
def from_pattern(pattern: str):
    try:
        sp = sre_parse.parse(pattern)
    except Exception as e:
        raise AnalysisError(f"regular expression does not parse: {e}: {pattern[:60]!r}")
    names = {v: k for k, v in sp.state.groupdict.items()}
    return _conv(sp, names)


def _conv(sp, names):
    items = []
    for op, av in sp:
        items.append(_conv1(op, av, names))
    return ("seq", items) if len(items) != 1 else items[0]


def _set_items(av):
    neg = False
    ranges = []
    for op, a in av:
        if op is sre_c.NEGATE:
            neg = True
        elif op is sre_c.LITERAL:
            ranges.append((a, a))
        elif op is sre_c.RANGE:
            ranges.append((a[0], a[1]))
        elif op is sre_c.CATEGORY:
            ranges += list(category(str(a).replace("CATEGORY_", "")))
        else:
            raise AnalysisError(f"unsupported item in character class: {op}")
    s = _norm(ranges)
    return cs_neg(s) if neg else s


def _conv1(op, av, names):
    if op is sre_c.LITERAL:
        return ("set", ((av, av),))
    if op is sre_c.NOT_LITERAL:
        return ("set", cs_neg(((av, av),)))
    if op is sre_c.ANY:
        return ("set", cs_neg(((10, 10),)))
    if op is sre_c.IN:
        return ("set", _set_items(av))
    if op is sre_c.BRANCH:
        return ("alt", [_conv(p, names) for p in av[1]])
    if op is sre_c.SUBPATTERN:
        group, add, dele, p = av
        if add or dele:
            raise AnalysisError("inline regex flags are not supported")
        return ("group", names.get(group), _conv(p, names))
    if op in (sre_c.MAX_REPEAT,):
        lo, hi, p = av
        return ("rep", lo, None if hi is sre_c.MAXREPEAT else hi, _conv(p, names))
    if op is sre_c.ASSERT_NOT:
        direction, p = av
        body = _conv(p, names)
        if direction != 1 or body[0] != "set":
            raise AnalysisError("only single-character negative look-ahead is supported")
        return ("nla", body[1])
    if op is sre_c.AT:
        if av is sre_c.AT_END:
            return ("eos",)
        raise AnalysisError(f"unsupported anchor {av}")
    if op is sre_c.CATEGORY:
        return ("set", category(str(av).replace("CATEGORY_", "")))
    raise AnalysisError(f"unsupported regex construct {op}")


# combinators for reference languages (independent of Python regex syntax)
def lit(s):
    return ("seq", [("set", ((ord(c), ord(c)),)) for c in s]) if len(s) != 1 else ("set", ((ord(s), ord(s)),))


def cls(spec):
    """cls('a-zA-Z_') - ranges and single characters; '\\-' for a literal dash is not needed: put '-' last."""
    ranges = []
    i = 0
    while i < len(spec):
        if i + 2 < len(spec) and spec[i + 1] == "-":
            ranges.append((ord(spec[i]), ord(spec[i + 2])))
            i += 3
        else:
            ranges.append((ord(spec[i]), ord(spec[i])))
            i += 1
    return ("set", _norm(ranges))


def ncls(spec):
    return ("set", cs_neg(cls(spec)[1]))


def setof(charset):
    return ("set", charset)


def seq(*xs):
    return ("seq", list(xs))


def alt(*xs):
    return ("alt", list(xs))


def star(x):
    return ("rep", 0, None, x)


def plus(x):
    return ("rep", 1, None, x)


def opt(x):
    return ("rep", 0, 1, x)


def rep(lo, hi, x):
    return ("rep", lo, hi, x)


def walk(node):
    yield node
    k = node[0]
    if k in ("seq", "alt"):
        for x in node[1]:
            yield from walk(x)
    elif k == "rep":
        yield from walk(node[3])
    elif k == "group":
        yield from walk(node[2])


def charsets(node):
    for n in walk(node):
        if n[0] in ("set", "nla"):
            yield n[1]
    yield ((10, 10),)  # newline is always its own class ($, token-contains-newline questions)


# ---------------------------------------------------------------------------
class Alphabet:
    def __init__(self, sets):
        sets = list(dict.fromkeys(sets))
        bounds = {0, MAXCP + 1}
        for s in sets:
            for lo, hi in s:
                bounds.add(lo)
                bounds.add(hi + 1)
        pts = sorted(bounds)
        sig2id = {}
        self.intervals = []   # (lo, hi, minterm)
        self.rep = []         # representative code point per minterm
        import bisect
        starts = [[lo for lo, hi in s] for s in sets]
        for lo, nxt in zip(pts, pts[1:]):
            sig = []
            for s, st in zip(sets, starts):
                j = bisect.bisect_right(st, lo) - 1
                sig.append(j >= 0 and s[j][0] <= lo <= s[j][1])
            sig = tuple(sig)
            if sig not in sig2id:
                sig2id[sig] = len(sig2id)
                self.rep.append(lo)
            self.intervals.append((lo, nxt - 1, sig2id[sig]))
        self.n = len(sig2id)
        self._sets = {s: frozenset(sig2id[sig] for sig in sig2id if sig[i]) for i, s in enumerate(sets)}
        # prefer printable representatives
        best = {}
        for lo, hi, m in self.intervals:
            for cp in (lo, hi):
                ch = chr(cp)
                score = (0 if (33 <= cp < 127) else 1 if cp < 128 else 2)
                if m not in best or score < best[m][0]:
                    best[m] = (score, cp)
        self.rep = [best[m][1] for m in range(self.n)]

    def classify(self, s):
        if s in self._sets:
            return self._sets[s]
        out = set()
        import bisect
        st = [lo for lo, hi in s]
        for lo, hi, m in self.intervals:
            j = bisect.bisect_right(st, lo) - 1
            inside = j >= 0 and s[j][0] <= lo and hi <= s[j][1]
            partial = any(not (h < lo or l > hi) for l, h in s)
            if inside:
                out.add(m)
            elif partial:
                raise AnalysisError("character set not aligned with the alphabet (internal error)")
        r = frozenset(out)
        self._sets[s] = r
        return r

    def of_char(self, ch):
        cp = ord(ch)
        for lo, hi, m in self.intervals:
            if lo <= cp <= hi:
                return m
        raise AnalysisError("code point outside alphabet")

    def show(self, syms):
        out = []
        for s in syms:
            if s == END:
                out.append("<END>")
            else:
                cp = self.rep[s]
                out.append(chr(cp) if 32 < cp < 127 else ("\\n" if cp == 10 else " " if cp == 32 else f"\\u{cp:04x}"))
        return "".join(out)

    def word(self, syms):
        return "".join(chr(self.rep[s]) for s in syms if s != END)


# ---------------------------------------------------------------------------
class NFA:
    """Thompson NFA; a state has either ordered epsilon edges or one consuming edge or is accepting."""

    def __init__(self, alpha: Alphabet, eos_before_newline=True):
        self.alpha = alpha
        self.eps = []      # state -> list of (target, cond)  cond: None | ('nla', mintermset) | ('eos',)
        self.edge = []     # state -> (mintermset, target) | None
        self.accept = []   # state -> label | None
        self.eos_before_newline = eos_before_newline
        self.nl = alpha.classify(((10, 10),))

    def new(self):
        self.eps.append([])
        self.edge.append(None)
        self.accept.append(None)
        return len(self.eps) - 1

    def build(self, node, start=None):
        """Return (start, end) fragment for node."""
        k = node[0]
        if k == "set":
            s, e = self.new(), self.new()
            self.edge[s] = (self.alpha.classify(node[1]), e)
            return s, e
        if k == "seq":
            s = self.new()
            cur = s
            for x in node[1]:
                a, b = self.build(x)
                self.eps[cur].append((a, None))
                cur = b
            return s, cur
        if k == "alt":
            s, e = self.new(), self.new()
            for x in node[1]:
                a, b = self.build(x)
                self.eps[s].append((a, None))
                self.eps[b].append((e, None))
            return s, e
        if k == "group":
            return self.build(node[2])
        if k == "nla":
            s, e = self.new(), self.new()
            self.eps[s].append((e, ("nla", self.alpha.classify(node[1]))))
            return s, e
        if k == "eos":
            s, e = self.new(), self.new()
            self.eps[s].append((e, ("eos",)))
            return s, e
        if k == "rep":
            _, lo, hi, x = node
            s = self.new()
            cur = s
            for _ in range(lo):
                a, b = self.build(x)
                self.eps[cur].append((a, None))
                cur = b
            if hi is None:
                # greedy loop: prefer another iteration, then exit
                loop, e = self.new(), self.new()
                self.eps[cur].append((loop, None))
                a, b = self.build(x)
                self.eps[loop].append((a, None))
                self.eps[loop].append((e, None))
                self.eps[b].append((loop, None))
                return s, e
            e = self.new()
            for _ in range(hi - lo):
                a, b = self.build(x)
                self.eps[cur].append((a, None))   # greedy: try the optional copy first
                self.eps[cur].append((e, None))
                cur = b
            self.eps[cur].append((e, None))
            return s, e
        raise AnalysisError(f"unknown regex node {k}")

    def add_rule(self, root, node, label):
        first = len(self.eps)
        a, b = self.build(node)
        self.owner = getattr(self, "owner", {})
        for q in range(first, len(self.eps)):
            self.owner[q] = label
        self.eps[root].append((a, None))
        acc = self.new()
        self.accept[acc] = label
        self.eps[b].append((acc, None))

    def cond_ok(self, cond, a):
        if cond is None:
            return True
        if cond[0] == "nla":
            return a == END or a not in cond[1]
        if cond[0] == "eos":
            return a == END or (self.eos_before_newline and a in self.nl)
        return False

    def closure(self, threads, a):
        """Ordered epsilon closure of an ordered thread list given the next symbol a (priority = DFS order)."""
        out, seen = [], set()
        for t in threads:
            stack = [t]
            while stack:
                q = stack.pop()
                if q in seen:
                    continue
                seen.add(q)
                if self.edge[q] is not None or self.accept[q] is not None:
                    out.append(q)
                    continue
                for tgt, cond in reversed(self.eps[q]):
                    if self.cond_ok(cond, a):
                        stack.append(tgt)
        return out


def syms(alpha):
    return list(range(alpha.n)) + [END]


class PrioDFA:
    """Leftmost-first deterministic model: what a backtracking matcher returns.

    State = ordered tuple of NFA kernel states.  step(state, a) -> (next_state, event) where event is the label of the
    match recorded at the current position (with look-ahead a) or None.  The overall result of a match attempt on a text is
    the LAST event of its run (a later event always comes from a higher-priority thread).
    """

    def __init__(self, nfa: NFA, root: int, limit=200000):
        self.nfa, self.alpha = nfa, nfa.alpha
        self.start = (root,)
        self.trans = {}
        self.states = {self.start: 0}
        order = deque([self.start])
        while order:
            st = order.popleft()
            for a in syms(self.alpha):
                cl = nfa.closure(st, a)
                nxt, ev = [], None
                seen = set()
                for q in cl:
                    if nfa.accept[q] is not None:
                        ev = nfa.accept[q]
                        break   # lower-priority threads are cut
                    cs, tgt = nfa.edge[q]
                    if a != END and a in cs and tgt not in seen:
                        seen.add(tgt)
                        nxt.append(tgt)
                nxt = tuple(nxt) if a != END else ()
                self.trans[(st, a)] = (nxt, ev)
                if nxt not in self.states:
                    if len(self.states) > limit:
                        raise AnalysisError("leftmost-first determinisation exceeded its state limit")
                    self.states[nxt] = len(self.states)
                    order.append(nxt)
        self.dead = ()


class SubsetDFA:
    """Plain subset construction (all threads kept): events are the sets of labels accepting at a position."""

    def __init__(self, nfa: NFA, root: int, limit=200000):
        self.nfa, self.alpha = nfa, nfa.alpha
        self.start = frozenset([root])
        self.trans = {}
        self.states = {self.start: 0}
        order = deque([self.start])
        while order:
            st = order.popleft()
            for a in syms(self.alpha):
                cl = nfa.closure(sorted(st), a)
                evs = frozenset(nfa.accept[q] for q in cl if nfa.accept[q] is not None)
                nxt = frozenset(nfa.edge[q][1] for q in cl if nfa.edge[q] is not None and a != END and a in nfa.edge[q][0])
                self.trans[(st, a)] = (nxt, evs)
                if nxt not in self.states:
                    if len(self.states) > limit:
                        raise AnalysisError("subset construction exceeded its state limit")
                    self.states[nxt] = len(self.states)
                    order.append(nxt)


# ---------------------------------------------------------------------------
# plain DFAs over minterm symbols (languages of whole strings)
# ---------------------------------------------------------------------------
class DFA:
    def __init__(self, n_syms, start, trans, accepting):
        self.n_syms, self.start, self.trans, self.accepting = n_syms, start, trans, accepting

    def step(self, q, a):
        return self.trans.get((q, a))


def language_dfa(alpha: Alphabet, node) -> DFA:
    """DFA of the whole-string language of a (look-ahead free or not) regex AST: w is in it iff the pattern can match exactly w at END."""
    nfa = NFA(alpha)
    root = nfa.new()
    nfa.add_rule(root, node, "L")
    return whole_string_dfa(SubsetDFA(nfa, root), lambda evs: "L" in evs)


def whole_string_dfa(sub: SubsetDFA, pred) -> DFA:
    """w accepted iff the events at (state after w, END) satisfy pred."""
    idx = sub.states
    trans = {}
    acc = set()
    for st, i in idx.items():
        for a in range(sub.alpha.n):
            nxt, _ = sub.trans[(st, a)]
            trans[(i, a)] = idx[nxt]
        _, evs = sub.trans[(st, END)]
        if pred(evs):
            acc.add(i)
    return DFA(sub.alpha.n, idx[sub.start], trans, acc)


def prio_whole_string_dfa(p: PrioDFA, pred) -> DFA:
    """w accepted iff the leftmost-first model, run on exactly w, records at END an event satisfying pred (a full-length match)."""
    idx = p.states
    trans, acc = {}, set()
    for st, i in idx.items():
        for a in range(p.alpha.n):
            trans[(i, a)] = idx[p.trans[(st, a)][0]]
        ev = p.trans[(st, END)][1]
        if ev is not None and pred(ev):
            acc.add(i)
    return DFA(p.alpha.n, idx[p.start], trans, acc)


def find_in_a_not_b(a: DFA, b: DFA, limit=2_000_000):
    """Shortest word accepted by a and rejected by b, or None.  Missing transitions = dead."""
    start = (a.start, b.start)
    seen = {start: None}
    dq = deque([start])
    while dq:
        cur = dq.popleft()
        qa, qb = cur
        if qa in a.accepting and (qb is None or qb not in b.accepting):
            w = []
            while seen[cur] is not None:
                prev, s = seen[cur]
                w.append(s)
                cur = prev
            return list(reversed(w))
        for s in range(a.n_syms):
            na = a.step(qa, s)
            if na is None:
                continue
            nb = b.step(qb, s) if qb is not None else None
            nx = (na, nb)
            if nx not in seen:
                if len(seen) > limit:
                    raise AnalysisError("language difference search exceeded its limit")
                seen[nx] = (cur, s)
                dq.append(nx)
    return None


def union_dfa(dfas):
    """Product-free union via on-the-fly tuple states."""
    n = dfas[0].n_syms
    start = tuple(d.start for d in dfas)
    idx = {start: 0}
    trans, acc = {}, set()
    dq = deque([start])
    while dq:
        cur = dq.popleft()
        i = idx[cur]
        if any(q is not None and q in d.accepting for q, d in zip(cur, dfas)):
            acc.add(i)
        for s in range(n):
            nx = tuple(d.step(q, s) if q is not None else None for q, d in zip(cur, dfas))
            if all(x is None for x in nx):
                continue
            if nx not in idx:
                idx[nx] = len(idx)
                dq.append(nx)
            trans[(i, s)] = idx[nx]
    return DFA(n, 0, trans, acc)


def nonempty_word(d: DFA):
    """Some accepted word or None."""
    seen = {d.start: None}
    dq = deque([d.start])
    while dq:
        q = dq.popleft()
        if q in d.accepting:
            w = []
            cur = q
            while seen[cur] is not None:
                prev, s = seen[cur]
                w.append(s)
                cur = prev
            return list(reversed(w))
        for s in range(d.n_syms):
            nq = d.step(q, s)
            if nq is not None and nq not in seen:
                seen[nq] = (q, s)
                dq.append(nq)
    return None


# ---------------------------------------------------------------------------
# ambiguity: exponential degree (EDA) on the look-ahead-resolved NFA
# ---------------------------------------------------------------------------
def eda_witness(nfa: NFA, root: int, limit=4_000_000):
    """Exponential degree of ambiguity (EDA): a state q and a word w with two distinct q -w-> q paths.

    The NFA is made epsilon-free and look-ahead exact by pairing each consuming state with the next symbol
    (configuration (q, a): at q, about to read a).  EDA holds iff the square of the configuration graph,
    restricted to useful configurations, has a strongly connected component containing a diagonal pair (p,p) and
    an off-diagonal pair, or a cycle edge with two distinct epsilon paths.  Returns a witness dict or None.
    """
    alpha = nfa.alpha
    SY = list(range(alpha.n))
    memo = {}

    def after(tgt):
        """configs reachable from NFA state tgt through epsilon edges: list of ((q2,b), multiplicity)"""
        if tgt in memo:
            return memo[tgt]
        out = []
        for b in SY:
            for q2, cnt in _closure_paths(nfa, tgt, b).items():
                if nfa.edge[q2] is not None and b in nfa.edge[q2][0]:
                    out.append(((q2, b), cnt))
        memo[tgt] = out
        return out

    def succ(c):
        q, a = c
        return after(nfa.edge[q][1])

    init = [c for c, _ in after(root)]
    reach = set()
    dq = deque(init)
    while dq:
        c = dq.popleft()
        if c in reach:
            continue
        reach.add(c)
        for c2, _ in succ(c):
            if c2 not in reach:
                dq.append(c2)
    rev = {}
    accepting = set()
    for c in reach:
        for c2, _ in succ(c):
            rev.setdefault(c2, []).append(c)
        tgt = nfa.edge[c[0]][1]
        for b in SY + [END]:
            if any(nfa.accept[q2] is not None for q2 in _closure_paths(nfa, tgt, b)):
                accepting.add(c)
                break
    useful = set()
    dq = deque(accepting)
    while dq:
        c = dq.popleft()
        if c in useful:
            continue
        useful.add(c)
        for p in rev.get(c, []):
            if p not in useful:
                dq.append(p)

    def usucc(c):
        return [(c2, k) for c2, k in succ(c) if c2 in useful]

    # SCCs of the configuration graph itself (to know which edges lie on cycles)
    def sccs(nodes, nexts):
        index, low, onst, st, comp = {}, {}, set(), [], {}
        counter = [0]
        ncomp = [0]
        for root_ in nodes:
            if root_ in index:
                continue
            work = [(root_, iter(nexts(root_)))]
            index[root_] = low[root_] = counter[0]
            counter[0] += 1
            st.append(root_)
            onst.add(root_)
            while work:
                v, it = work[-1]
                advanced = False
                for w in it:
                    if w not in index:
                        index[w] = low[w] = counter[0]
                        counter[0] += 1
                        st.append(w)
                        onst.add(w)
                        work.append((w, iter(nexts(w))))
                        advanced = True
                        if counter[0] > limit:
                            raise AnalysisError("ambiguity analysis exceeded its work limit")
                        break
                    elif w in onst:
                        low[v] = min(low[v], index[w])
                if advanced:
                    continue
                work.pop()
                if work:
                    u = work[-1][0]
                    low[u] = min(low[u], low[v])
                if low[v] == index[v]:
                    while True:
                        w = st.pop()
                        onst.discard(w)
                        comp[w] = ncomp[0]
                        if w == v:
                            break
                    ncomp[0] += 1
        return comp

    comp1 = sccs(sorted(useful), lambda c: [c2 for c2, _ in usucc(c)])
    size1 = {}
    for c, k in comp1.items():
        size1[k] = size1.get(k, 0) + 1
    selfloop = {c for c in useful if any(c2 == c for c2, _ in usucc(c))}
    cyclic = {c for c in useful if size1[comp1[c]] > 1 or c in selfloop}
    # parallel epsilon paths on a cycle edge
    for c in cyclic:
        for c2, k in usucc(c):
            if k > 1 and c2 in cyclic and comp1[c2] == comp1[c]:
                return {"kind": "two epsilon paths on a loop", "state": c[0], "symbol": alpha.show([c[1]]), "next_state": c2[0]}

    def pair_next(pc):
        c1, c2 = pc
        s1 = usucc(c1)
        s2 = s1 if c2 == c1 else usucc(c2)
        out = []
        for n1, _ in s1:
            if n1 not in cyclic:
                continue
            for n2, _ in s2:
                if n2[1] == n1[1] and n2 in cyclic and comp1[n1] == comp1[c1] and comp1[n2] == comp1[c2]:
                    out.append((n1, n2))
        return out

    starts = [(c, c) for c in sorted(cyclic)]
    comp2 = sccs(starts, pair_next)
    groups = {}
    for pc, k in comp2.items():
        groups.setdefault(k, []).append(pc)
    for k, members in groups.items():
        diag = [pc for pc in members if pc[0] == pc[1]]
        off = [pc for pc in members if pc[0] != pc[1]]
        if diag and off and (len(members) > 1):
            d, o = diag[0], off[0]
            return {"kind": "two distinct loops on the same word", "state": d[0][0], "symbol": alpha.show([d[0][1]]),
                    "diverges_to": (o[0][0], o[1][0]), "diverge_symbol": alpha.show([o[0][1]]), "scc_size": len(members)}
    return None


def _config_graph(nfa: NFA, root: int):
    """epsilon-free, look-ahead exact configuration graph (see eda_witness): returns (useful configs, successor function)."""
    alpha = nfa.alpha
    SY = list(range(alpha.n))
    memo = {}

    def after(tgt):
        if tgt in memo:
            return memo[tgt]
        out = []
        for b in SY:
            for q2, cnt in _closure_paths(nfa, tgt, b).items():
                if nfa.edge[q2] is not None and b in nfa.edge[q2][0]:
                    out.append(((q2, b), cnt))
        memo[tgt] = out
        return out

    def succ(c):
        return after(nfa.edge[c[0]][1])
    init = [c for c, _ in after(root)]
    reach = set()
    dq = deque(init)
    while dq:
        c = dq.popleft()
        if c in reach:
            continue
        reach.add(c)
        for c2, _ in succ(c):
            if c2 not in reach:
                dq.append(c2)
    rev = {}
    accepting = set()
    for c in reach:
        for c2, _ in succ(c):
            rev.setdefault(c2, []).append(c)
        tgt = nfa.edge[c[0]][1]
        for b in SY + [END]:
            if any(nfa.accept[q2] is not None for q2 in _closure_paths(nfa, tgt, b)):
                accepting.add(c)
                break
    useful = set()
    dq = deque(accepting)
    while dq:
        c = dq.popleft()
        if c in useful:
            continue
        useful.add(c)
        for p in rev.get(c, []):
            if p not in useful:
                dq.append(p)
    # a configuration can FAIL later: some continuation is not accepted.  (Every configuration of a token pattern can, unless everything after it
    # is universal; polynomial backtracking needs a failing continuation, so configurations whose every continuation succeeds would be exempt.
    # Not computed: the rule below is "no infinite ambiguity at all", which is stronger.)
    return useful, (lambda c: [c2 for c2, _ in succ(c) if c2 in useful])


def ida_witness(nfa: NFA, root: int, limit=3_000_000):
    """Infinite (polynomial) degree of ambiguity (Weber & Seidl 1991): two different states p, q on loops and ONE word v with
    p -v-> p, p -v-> q and q -v-> q.  A backtracking matcher that fails after such a pair tries every way of splitting a run of v's between
    the two loops: quadratic time (cubic with three loops ...).  Searched in the cube of the configuration graph, with the first component
    confined to the strongly connected component of p and the third to that of q.  Returns a witness dict or None."""
    useful, nexts = _config_graph(nfa, root)
    alpha = nfa.alpha
    # SCCs (iterative Tarjan)
    index, low, onst, st, comp = {}, {}, set(), [], {}
    cnt = [0]
    ncomp = [0]
    for r in sorted(useful):
        if r in index:
            continue
        work = [(r, iter(nexts(r)))]
        index[r] = low[r] = cnt[0]
        cnt[0] += 1
        st.append(r)
        onst.add(r)
        while work:
            v, it = work[-1]
            adv = False
            for w in it:
                if w not in index:
                    index[w] = low[w] = cnt[0]
                    cnt[0] += 1
                    st.append(w)
                    onst.add(w)
                    work.append((w, iter(nexts(w))))
                    adv = True
                    break
                elif w in onst:
                    low[v] = min(low[v], index[w])
            if adv:
                continue
            work.pop()
            if work:
                u = work[-1][0]
                low[u] = min(low[u], low[v])
            if low[v] == index[v]:
                while True:
                    w = st.pop()
                    onst.discard(w)
                    comp[w] = ncomp[0]
                    if w == v:
                        break
                ncomp[0] += 1
    size = {}
    for c, k in comp.items():
        size[k] = size.get(k, 0) + 1
    cyclic = {c for c in useful if size[comp[c]] > 1 or c in nexts(c)}
    by_sym = {}
    for c in cyclic:
        by_sym.setdefault(c[1], []).append(c)
    # forward reachability between configurations (to prune pairs)
    reach_memo = {}

    def reach_from(c):
        if c not in reach_memo:
            seen = {c}
            dq = deque([c])
            while dq:
                x = dq.popleft()
                for y in nexts(x):
                    if y not in seen:
                        seen.add(y)
                        dq.append(y)
            reach_memo[c] = seen
        return reach_memo[c]
    work_done = 0
    for sym, cs in sorted(by_sym.items()):
        for P in sorted(cs):
            for Q in sorted(cs):
                if P == Q or comp[P] == comp[Q] or Q not in reach_from(P):
                    continue       # (same component: two loops through one state - that is EDA, decided by eda_witness)
                start, goal = (P, P, Q), (P, Q, Q)
                seen = {start}
                dq = deque([start])
                parent = {}
                found = False
                while dq and not found:
                    t = dq.popleft()
                    n1 = [x for x in nexts(t[0]) if comp[x] == comp[P]]
                    n3 = [x for x in nexts(t[2]) if comp[x] == comp[Q]]
                    n2 = nexts(t[1])
                    for a in n1:
                        for b in n2:
                            if b[1] != a[1] or (comp[b] != comp[Q] and Q not in reach_from(b)):
                                continue
                            for c in n3:
                                if c[1] != a[1]:
                                    continue
                                nt = (a, b, c)
                                if nt in seen:
                                    continue
                                seen.add(nt)
                                parent[nt] = t
                                work_done += 1
                                if work_done > limit:
                                    raise AnalysisError("polynomial-ambiguity analysis exceeded its work limit")
                                if nt == goal:
                                    found = True
                                    break
                                dq.append(nt)
                            if found:
                                break
                        if found:
                            break
                if found:
                    word = []
                    t = goal
                    while t != start:
                        t = parent[t]
                        word.append(t[0][1])
                    word.reverse()
                    return {"kind": "two loops that share a word, joined by a path on the same word", "loop_state": P[0], "second_loop_state": Q[0], "word": alpha.show(word)}
    return None


def _closure_paths(nfa, q0, a):
    """Number of distinct epsilon paths (capped at 2) from q0 to each consuming/accepting state, given next symbol a."""
    out = {}
    # epsilon graph is a DAG except for loops of nullable bodies; cap visits to avoid infinite counting
    stack = [(q0, frozenset())]
    steps = 0
    while stack:
        q, onpath = stack.pop()
        steps += 1
        if steps > 20000:
            raise AnalysisError("epsilon path counting exceeded its limit")
        if nfa.edge[q] is not None or nfa.accept[q] is not None:
            out[q] = min(2, out.get(q, 0) + 1)
            continue
        if q in onpath:
            continue
        for tgt, cond in nfa.eps[q]:
            if nfa.cond_ok(cond, a):
                stack.append((tgt, onpath | {q}))
    return out
