"""Shared driver for the properties decided on the constructor wiring (C02, C03, C04, C05, C11)."""
from __future__ import annotations

from .. import srcmodel as S
from .. import wirecheck as WC
from ..core import AnalysisError, norm

EXPR = {"_parse_expression_opt", "_parse_expression", "_parse_assignment_expression", "_parse_conditional_expression", "_parse_binary_expression",
        "_parse_cast_expression", "_parse_unary_expression", "_parse_postfix_expression", "_parse_primary_expression", "_parse_offsetof_member_designator",
        "_parse_argument_expression_list", "_parse_constant_expression", "_parse_identifier", "_parse_identifier_or_typeid", "_parse_constant",
        "_parse_unified_string_literal", "_parse_unified_wstring_literal", "_try_parse_paren_type_name"}
STMT = {"_parse_statement", "_parse_pragmacomp_or_statement", "_parse_block_item", "_parse_block_item_list", "_parse_compound_statement",
        "_parse_labeled_statement", "_parse_selection_statement", "_parse_iteration_statement", "_parse_jump_statement", "_parse_expression_statement",
        "_parse_pp_directive", "_parse_pppragma_directive", "_parse_pppragma_directive_list", "_parse_static_assert", "_parse_translation_unit",
        "_parse_translation_unit_or_empty", "ast_transforms.fix_switch_cases", "ast_transforms._extract_nested_case", "parse"}
HELPERS = {"_accept", "_advance", "_coord", "_expect", "_is_assignment_op", "_is_type_in_scope", "_lex_error_func", "_lex_on_lbrace_func", "_lex_on_rbrace_func",
           "_lex_type_lookup_func", "_mark", "_peek", "_peek_type", "_peek_declarator_name_info", "_scan_declarator_name_info", "_starts_declaration",
           "_starts_declarator", "_starts_direct_abstract_declarator", "_starts_expression", "_starts_statement", "_tok_coord", "_pop_scope", "_push_scope",
           "_add_identifier", "_add_typedef_name", "_select_struct_union_class", "_reset", "_parse_error"}


def decl_methods(all_methods):
    return {m for m in all_methods if m not in EXPR and m not in STMT and m not in HELPERS}


def is_coord_field(label, field):
    return field == "coord" or field.endswith("@coord")


def run_group(ctx, rule, methods, field_filter, what, returns=True, appends=True, label_filter=None, append_filter=None, global_records=False):
    """Compare the current wiring of `methods` with the reviewed reference; one obligation per record field.
    global_records: the selected records of all the methods are compared as ONE set (used for records that are not tied to the method that holds
    them - error reports: moving a check from the callers into the callee, or back, moves the report but not what it says or where it points)."""
    ref = WC.load_ref()
    cur = WC.current()
    px = S.module("c_parser")
    n = 0
    if global_records:
        def gather(src):
            return [r for m in sorted(methods) if m in src for r in src[m]["records"] if label_filter is None or label_filter(r[0])]
        rm = {"records": gather(ref), "returns": [], "appends": {}}
        cm = {"records": gather(cur), "returns": [], "appends": {}}
        diffs = WC.diff_method(rm, cm, field_filter, want_returns=False, want_appends=False)
        nfields = sum(1 for r in cm["records"] for k in r[1] if field_filter(r[0], k))
        for i in range(max(nfields - len(diffs), 0)):
            ctx.oblige(rule, f"<all>#{i}", True, nontrivial=True, sample={"rule": rule, "record": cm["records"][i % len(cm["records"])]} if i % 17 == 0 and cm["records"] else None)
        for kind, detail in diffs:
            ctx.oblige(rule, f"<all>:{kind}:{detail[:60]}", False)
            ctx.violation(rule, f"wiring:<all>:{kind}:{norm(detail)[:140]}", f"{what}: {detail}", file=px.rel, function="CParser")
        return len(cm["records"])
    for m in sorted(methods):
        if m not in ref and m not in cur:
            continue
        if m in ref and m not in cur:
            builds = any(not r[0].startswith("call:") for r in ref[m]["records"]) or any(x.startswith(("new:", "_parse_")) for x in ref[m]["returns"]) or ref[m]["appends"]
            if not builds:
                continue      # a helper that built nothing (a predicate, a pure forwarder) was inlined into its callers: their own wiring is what is compared
            raise AnalysisError(f"anchor {m} vanished: its reviewed wiring cannot be compared (re-review and regenerate sa/wiring_ref.json)")
        if m not in ref:
            has = [r for r in cur[m]["records"] if any(field_filter(r[0], k) for k in r[1]) and (label_filter is None or label_filter(r[0]))]
            if has or (returns and any(r.startswith(("new:", "_parse_")) for r in cur[m]["returns"])):
                raise AnalysisError(f"{m} builds nodes but has no reviewed wiring in sa/wiring_ref.json (new or renamed production: review and regenerate)")
            continue
        rm = {"records": [r for r in ref[m]["records"] if label_filter is None or label_filter(r[0])], "returns": ref[m]["returns"], "appends": ref[m]["appends"]}
        cm = {"records": [r for r in cur[m]["records"] if label_filter is None or label_filter(r[0])], "returns": cur[m]["returns"], "appends": cur[m]["appends"]}
        diffs = WC.diff_method(rm, cm, field_filter, want_returns=returns, want_appends=appends, append_filter=append_filter)
        nfields = sum(1 for r in cm["records"] for k in r[1] if field_filter(r[0], k)) + (1 if returns else 0) + (1 if appends and cm["appends"] else 0)
        bad = len(diffs)
        for i in range(max(nfields - bad, 0)):
            ctx.oblige(rule, f"{m}#{i}", True, nontrivial=True, sample={"rule": rule, "method": m, "record": cm["records"][0] if cm["records"] else cm["returns"]} if (n % 29 == 0 and i == 0) else None)
        n += 1
        for kind, detail in diffs:
            ctx.oblige(rule, f"{m}:{kind}:{detail[:60]}", False)
            fn = None
            try:
                fn = px.method("CParser", m) if not m.startswith("ast_transforms.") else S.module("ast_transforms").function(m.split(".", 1)[1])
            except AnalysisError:
                pass
            mod = S.module("ast_transforms") if m.startswith("ast_transforms.") else px
            ctx.violation(rule, f"wiring:{m}:{kind}:{norm(detail)[:140]}", f"{what}: in {m}: {detail}", file=mod.rel, function=m, line=getattr(fn, "lineno", 0))
    return n
