"""C15 - ASTs survive repr/eval, pickle and deepcopy unchanged (protocol preconditions).

Decides the structural preconditions: repr() prints exactly the constructor
keywords; every node class is a module-level slotted class without custom
copy/pickle hooks whose slots are all restored by the default protocol; Coord
is a module-level plain dataclass.  Byte-level behaviour of pickle/eval is
delegated to the builtins (trusted base).
"""
from __future__ import annotations

import ast

from .. import astspec as A
from .. import srcmodel as S
from ..core import AnalysisError

LEVEL = "other"
HOOKS = {"__getstate__", "__setstate__", "__reduce__", "__reduce_ex__", "__copy__", "__deepcopy__", "__getnewargs__",
         "__getnewargs_ex__", "__new__", "__init_subclass__", "__set_name__", "__setattr__", "__getattr__", "__getattribute__", "__eq__", "__hash__"}


def check(ctx):
    ctx.rule("R-C15.5", "the generated text depends on the structure of the tree only: the generator keeps no state across visits (object identity, visit history) and never reads coordinates (which repr does not print), so eval(repr(ast)) - which unshares nodes - generates the same C")
    ctx.rule("R-C15.1", "repr/eval coupling: __repr__ prints __slots__ minus the k bookkeeping slots as keyword arguments that __init__ accepts; lists print as list displays")
    ctx.rule("R-C15.2", "copy/pickle protocol: module-level slotted classes, Node.__slots__ == (), no custom hooks, __weakref__ last and never assigned; Coord is a module-level plain dataclass")
    mod, models = A.class_models()

    def viol(rule, cls, what, msg, node=None, m=mod):
        ctx.violation(rule, f"{cls}:{what}", msg, file=m.rel, function=cls, line=getattr(node, "lineno", 0),
                      construct=S.unparse(node)[:200] if node is not None else "")

    # _repr renders a value with the builtin repr() (lists as displays of _repr of their items) and nothing else: any other renderer
    # (abbreviating, rounding, encoding) makes eval(repr(x)) rebuild a different value
    rf = mod.functions.get("_repr") if hasattr(mod, "functions") else None
    if rf is None:
        raise AnalysisError("c_ast._repr vanished")
    param = rf.args.args[0].arg
    bad_calls = []
    for c in ast.walk(rf):
        if isinstance(c, ast.Call):
            fname = c.func.id if isinstance(c.func, ast.Name) else (c.func.attr if isinstance(c.func, ast.Attribute) and not isinstance(c.func.value, ast.Name) else S.unparse(c.func))
            if isinstance(c.func, ast.Attribute) and isinstance(c.func.value, ast.Constant) and c.func.attr == "join":
                continue
            if fname not in ("isinstance", "repr", "_repr", "join", "replace", "type", "len"):
                bad_calls.append(c)
    rets = [r for r in ast.walk(rf) if isinstance(r, ast.Return)]
    leaf_ok = any(isinstance(r.value, ast.Call) and isinstance(r.value.func, ast.Name) and r.value.func.id == "repr" and len(r.value.args) == 1 and S.unparse(r.value.args[0]) == param for r in rets)
    ok = not bad_calls and leaf_ok
    ctx.oblige("R-C15.1", "_repr renders values with the builtin repr only", ok, sample={"rule": "R-C15.1", "returns": [S.unparse(r.value)[:70] for r in rets if r.value is not None], "other renderers": [S.unparse(c)[:50] for c in bad_calls]})
    if not ok:
        viol("R-C15.1", "_repr", "renderer", f"c_ast._repr renders some values through {[S.unparse(c)[:40] for c in bad_calls] or 'something other than repr(obj)'}: repr() of a node is no longer a faithful Python expression for every attribute value "
             "(a shortened or re-encoded string still evaluates, to a different value)", bad_calls[0] if bad_calls else rf)
    node = models.get("Node")
    if node is None or "__repr__" not in node.methods:
        raise AnalysisError("Node.__repr__ vanished")
    rp = node.methods["__repr__"]
    selfname = rp.args.args[0].arg
    # the slice of __slots__ that repr iterates
    k = None
    loops = [n for n in ast.walk(rp) if isinstance(n, ast.For)]
    for lp in loops:
        it = lp.iter
        if isinstance(it, ast.Subscript) and isinstance(it.value, ast.Attribute) and it.value.attr == "__slots__" and isinstance(it.slice, ast.Slice):
            sl = it.slice
            if sl.lower is None and sl.step is None and isinstance(sl.upper, ast.UnaryOp) and isinstance(sl.upper.op, ast.USub) and isinstance(sl.upper.operand, ast.Constant):
                k = sl.upper.operand.value
                loopvar = lp.target.id if isinstance(lp.target, ast.Name) else None
                body = lp
        elif isinstance(it, ast.Attribute) and it.attr == "__slots__":
            k = 0
            loopvar = lp.target.id if isinstance(lp.target, ast.Name) else None
            body = lp
    if k is None:
        raise AnalysisError("Node.__repr__: cannot find the loop over self.__slots__[:-k]")
    ctx.info["repr_drops_last_k_slots"] = k
    # inside the loop: name + "=" + _repr(getattr(self, name))
    has_eq = any(isinstance(c, ast.Constant) and c.value == "=" for c in ast.walk(body))
    getattrs = [c for c in ast.walk(body) if isinstance(c, ast.Call) and isinstance(c.func, ast.Name) and c.func.id == "getattr"
                and len(c.args) == 2 and isinstance(c.args[0], ast.Name) and c.args[0].id == selfname and isinstance(c.args[1], ast.Name) and c.args[1].id == loopvar]
    via_repr = all(isinstance(getattr(g, "_parent", None), ast.Call) and isinstance(g._parent.func, ast.Name) and g._parent.func.id in ("_repr", "repr") for g in getattrs)
    ok = has_eq and len(getattrs) == 1 and via_repr
    ctx.oblige("R-C15.1", "Node.__repr__ prints name=_repr(value) per slot", ok, sample={"rule": "R-C15.1", "k": k, "construct": S.unparse(getattrs[0]) if getattrs else None})
    if not ok:
        viol("R-C15.1", "Node", "repr-shape", "__repr__ must print every constructor slot as `name=<repr of value>` (through repr/_repr)", rp)
    # starts with ClassName( and ends with )
    consts = [c.value for c in ast.walk(rp) if isinstance(c, ast.Constant) and isinstance(c.value, str)]
    ok = "(" in consts and any(c.endswith(")") for c in consts) and any(isinstance(n, ast.Attribute) and n.attr == "__name__" for n in ast.walk(rp))
    ctx.oblige("R-C15.1", "Node.__repr__ wraps in ClassName( ... )", ok)
    if not ok:
        viol("R-C15.1", "Node", "repr-wrap", "__repr__ must produce ClassName( ... )", rp)
    # _repr list form
    rf = mod.functions.get("_repr")
    if rf is None:
        raise AnalysisError("c_ast._repr vanished")
    rconsts = [c.value for c in ast.walk(rf) if isinstance(c, ast.Constant) and isinstance(c.value, str)]
    opens = [c for c in rconsts if c.lstrip().startswith("[")]
    closes = [c for c in rconsts if c.rstrip().endswith("]")]
    seps = [c for c in rconsts if "," in c]
    falls_back = any(isinstance(n, ast.Call) and isinstance(n.func, ast.Name) and n.func.id == "repr" for n in ast.walk(rf))
    recurses = any(isinstance(n, ast.Call) and isinstance(n.func, ast.Name) and n.func.id == "_repr" for n in ast.walk(rf))
    ok = bool(opens and closes and seps and falls_back and recurses)
    ctx.oblige("R-C15.1", "_repr prints lists as '[' item ',' item ']' and everything else through repr()", ok)
    if not ok:
        viol("R-C15.1", "_repr", "list-form", "_repr must render lists as a valid list display and delegate other values to repr()", rf)

    n_classes = 0
    for name, m in models.items():
        if "Node" not in m.bases:
            continue
        n_classes += 1
        # slots end with exactly the k bookkeeping slots, the rest are __init__ parameters
        im = m.init_model()
        slots = m.slots
        ok = slots is not None and im is not None
        msg = "no constant __slots__ tuple / no __init__"
        if ok:
            printed = slots[:len(slots) - k] if k else slots
            dropped = slots[len(slots) - k:] if k else ()
            params, defaults, assigns, extras, variadic = im
            required = [p for p in params if p not in defaults]
            ok = (tuple(dropped) == ("coord", "__weakref__")[-k:] if k else True) and set(printed) <= set(params) and set(required) <= set(printed) and "__weakref__" not in printed
            msg = f"repr prints {printed} (drops {dropped}); __init__ takes {params} (required {required})"
            # every printed slot must be restored to the same slot by __init__
            ok = ok and all((p, p) in assigns for p in printed)
        ctx.oblige("R-C15.1", f"{name} repr/eval coupling", ok)
        if not ok:
            viol("R-C15.1", name, "repr-eval", f"eval(repr(x)) cannot rebuild {name}: {msg}", m.node)
        # pickle / copy protocol
        hooks = set(m.methods) & HOOKS
        ok = not hooks
        ctx.oblige("R-C15.2", f"{name} no custom copy/pickle hooks", ok, nontrivial=False)
        if not ok:
            viol("R-C15.2", name, "hooks", f"defines {sorted(hooks)}: default slot-based pickling / deepcopy no longer applies", m.node)
        ok = slots is not None and len(set(slots)) == len(slots) and slots[-1:] == ("__weakref__",) and all(isinstance(s, str) for s in slots)
        ctx.oblige("R-C15.2", f"{name} slots well-formed", ok)
        if not ok:
            viol("R-C15.2", name, "slots", f"__slots__ must be a tuple of distinct names ending in __weakref__: {slots}", m.node)
        # every slot except __weakref__ is assigned in __init__ (otherwise copies of a fresh object miss it) and nothing else is assigned
        if im is not None and slots is not None:
            assigned = {a for a, _ in im[2]}
            ok = assigned == set(slots) - {"__weakref__"}
            ctx.oblige("R-C15.2", f"{name} all slots initialised", ok)
            if not ok:
                viol("R-C15.2", name, "slot-init", f"__init__ assigns {sorted(assigned)} but slots are {slots}", m.node)
        # module-level, name-bound (pickle finds classes by qualified name)
        ok = getattr(m.node, "_parent", None) is mod.tree and not m.node.decorator_list and not m.node.keywords
        ctx.oblige("R-C15.2", f"{name} is a plain module-level class", ok, nontrivial=False)
        if not ok:
            viol("R-C15.2", name, "module-level", "node classes must be undecorated module-level classes (pickle locates them by qualified name)", m.node)
    ctx.unit("node classes", n_classes)
    ok = node.slots == ()
    ctx.oblige("R-C15.2", "Node.__slots__ == ()", ok)
    if not ok:
        viol("R-C15.2", "Node", "base-slots", f"Node.__slots__ is {node.slots}: subclasses would get a __dict__ or duplicate slots", node.node)
    hooks = set(node.methods) & HOOKS
    ctx.oblige("R-C15.2", "Node has no custom hooks", not hooks)
    if hooks:
        viol("R-C15.2", "Node", "hooks", f"Node defines {sorted(hooks)}", node.node)
    # rebinding of node classes after definition (e.g. wrapped by a factory) breaks lookup by name
    for st in mod.tree.body:
        if isinstance(st, (ast.Assign, ast.AugAssign, ast.AnnAssign)):
            for t in ast.walk(st):
                if isinstance(t, ast.Name) and isinstance(t.ctx, ast.Store) and t.id in models:
                    viol("R-C15.2", t.id, "rebound", f"class name {t.id} is rebound at module level", st)

    # Coord
    pmod = S.module("c_parser")
    coord = pmod.classes.get("Coord")
    if coord is None:
        raise AnalysisError("anchor class Coord vanished from c_parser.py")
    decos = [S.unparse(d) for d in coord.decorator_list]
    is_dc = any(d.split("(")[0] in ("dataclass", "dataclasses.dataclass") for d in decos)
    meths = {n.name for n in coord.body if isinstance(n, ast.FunctionDef)}
    fields = [st.target.id for st in coord.body if isinstance(st, ast.AnnAssign) and isinstance(st.target, ast.Name)]
    bad_opts = [d for d in decos if "eq=False" in d or "init=False" in d]
    ok = is_dc and getattr(coord, "_parent", None) is pmod.tree and not (meths & (HOOKS - {"__eq__", "__hash__"})) and {"file", "line", "column"} <= set(fields) and not bad_opts
    ctx.oblige("R-C15.2", "Coord is a module-level plain dataclass(file, line, column)", ok, sample={"rule": "R-C15.2", "class": "Coord", "fields": fields, "decorators": decos})
    if not ok:
        viol("R-C15.2", "Coord", "coord-class", f"Coord must stay a module-level dataclass with fields file/line/column, default equality and no copy/pickle hooks (decorators={decos}, methods={sorted(meths)}, fields={fields})", coord, pmod)
    # mutable default / field(default_factory) sharing between coords
    for st in coord.body:
        if isinstance(st, ast.AnnAssign) and st.value is not None and isinstance(st.value, (ast.List, ast.Dict, ast.Set)):
            viol("R-C15.2", "Coord", "mutable-default", "mutable default on a Coord field", st, pmod)
    ctx.require_instances("R-C15.1", 49)
    ctx.require_instances("R-C15.2", 100)
    # ---- R-C15.5: the generator is a function of the tree's structure (no state kept across visits), so a rebuilt copy generates the same text ------
    from . import share
    share.borrow(ctx, "C12", ("R-C12.4",), "R-C15.5", count=10)
    # ... and it reads nothing that repr() does not print: coordinates are dropped by repr / eval, so a generator that looks at them (to recognise a
    # node the parser invented, say) prints different text for the rebuilt tree
    share.borrow(ctx, "C17", ("R-C17.4",), "R-C15.5", count=20)

    ctx.info["explanation"] = ("protocol-precondition analysis over all 49 node classes: the slice of __slots__ printed by Node.__repr__ is matched against each "
                               "class's __slots__ and __init__ signature; default slot-based copy/pickle applicability (no hooks, well-formed slots, module-level classes); Coord dataclass shape")
    ctx.trusted += ["CPython ast parser", "builtin repr/eval/pickle/copy implement their documented protocols for slotted classes and dataclasses"]
    ctx.assumptions += ["string contents (quotes, backslashes, non-ASCII) are delegated to the builtin repr", "values stored in slots by the parser are str/None/list/Node/Coord (checked for constructor sites by C11/C03 rules)"]
