"""C13 - separate parser / generator instances never influence each other.

Ownership analysis: every write effect of every function of the package is
attributed to the object it can reach; none may reach a shared object
(module-level binding, class-level attribute, mutable default argument,
imported module state).  Obligations = write sites + instance-attribute
initialisers + ambient-state probes; all must be discharged.
"""
from __future__ import annotations

import ast

from .. import srcmodel as S
from .. import stateflow as F
from ..core import AnalysisError, norm

LEVEL = "proof"

AMBIENT_ATTRS = {
    ("os", "environ"), ("os", "getenv"), ("os", "putenv"), ("sys", "setrecursionlimit"), ("sys", "settrace"),
    ("sys", "setprofile"), ("threading", "local"), ("time", "time"), ("time", "monotonic"), ("time", "perf_counter"),
    ("random", "random"), ("random", "choice"), ("random", "randint"), ("random", "shuffle"), ("sys", "modules"),
}
CACHE_DECORATORS = {"cache", "lru_cache", "functools.cache", "functools.lru_cache", "cached_property",
                    "functools.cached_property", "singledispatch", "functools.singledispatch"}

# a tiny module that violates every C13 rule once; analysed on every run so that a rule that
# silently stopped matching is noticed (expected count on the real tree is zero)
_POSITIVE = '''
import functools, os
_CACHE = {}
_COUNT = 0
class Shared:
    table = {}
    def __init__(self, items=[]):
        self.items = items
        self.ref = _CACHE
    def a(self, k):
        _CACHE[k] = 1
    def b(self, k):
        self.table[k] = 2
    def c(self):
        global _COUNT
        _COUNT += 1
    def d(self, xs=[]):
        xs.append(1)
        return xs
    def e(self):
        t = _CACHE.setdefault("x", [])
        t.append(3)
    @functools.lru_cache(maxsize=None)
    def f(self, k):
        return os.environ.get(k)
    def g(self):
        self.ref["k"] = 1
    def h(self):
        Shared.table = {}
_INSTANCE = Shared()
def use():
    return _INSTANCE.a(1)
'''
_POSITIVE_EXPECT = {"R-C13.1": 6, "R-C13.2": 1, "R-C13.3": 4, "R-C13.4": 1, "R-C13.5": 2}


def analyse_module(mod: S.Module, all_classes, report, oblige):
    classes = F.classes(mod)
    stateful = {n for n, c in classes.items() if c.inst_stores}
    # module-level bindings that hold an instance of a stateful package class
    shared_instances = {}
    for name, stmts in mod.assigns.items():
        for st in stmts:
            v = getattr(st, "value", None)
            if isinstance(v, ast.Call):
                f = v.func
                cname = f.id if isinstance(f, ast.Name) else (f.attr if isinstance(f, ast.Attribute) else None)
                if cname in all_classes and all_classes[cname].inst_stores:
                    shared_instances[name] = cname
    # attributes of self that alias shared objects (R-C13.4)
    aliased_attrs: dict[tuple[str, str], str] = {}
    aliased_elems: dict[tuple[str, str], tuple[str, int]] = {}
    for qual, fn, cname in F.iter_functions(mod):
        cls = classes.get(cname) if cname else None
        scope = F.FnScope(mod, fn, cls, all_classes)
        if cls is None or scope.selfname is None:
            continue
        for n in F.own_nodes(fn):
            if isinstance(n, (ast.Assign, ast.AnnAssign)) and getattr(n, "value", None) is not None:
                tg = n.targets if isinstance(n, ast.Assign) else [n.target]
                for t in tg:
                    if isinstance(t, ast.Attribute) and isinstance(t.value, ast.Name) and t.value.id == scope.selfname:
                        ok = True
                        for cand in F._alias_sources(n.value):
                            kind, detail = scope.classify(cand)
                            if kind in ("SHARED", "CLASSATTR", "MUTDEFAULT"):
                                root, _ = F.root_of(cand)
                                # functions / classes / modules as values are not mutable state by themselves
                                if kind == "SHARED" and isinstance(root, ast.Name) and (root.id in mod.functions or root.id in mod.classes) and cand is root:
                                    continue
                                aliased_attrs[(cls.name, t.attr)] = detail
                                if kind == "MUTDEFAULT":
                                    report("R-C13.3", mod, qual, n, f"mutable default argument `{detail}` is stored in self.{t.attr}: all instances built without that argument share one object")
                                    ok = False
                        # a shared object placed INSIDE the fresh container the attribute is bound to (`self.stack = [_TABLE, dict()]`)
                        for cand, depth in F._element_alias_sources(n.value):
                            kind, detail = scope.classify(cand)
                            if kind in ("SHARED", "CLASSATTR", "MUTDEFAULT"):
                                root, _ = F.root_of(cand)
                                if kind == "SHARED" and isinstance(root, ast.Name) and (root.id in mod.functions or root.id in mod.classes) and cand is root:
                                    continue
                                if kind == "SHARED" and isinstance(root, ast.Name) and cand is root and _immutable_binding(mod, root.id):
                                    continue
                                aliased_elems[(cls.name, t.attr)] = (detail, depth)
                        oblige("R-C13.4", mod, qual, n, ok)

    for qual, fn, cname in F.iter_functions(mod):
        cls = classes.get(cname) if cname else None
        scope = F.FnScope(mod, fn, cls, all_classes)
        globs = set()
        for n in F.own_nodes(fn):
            if isinstance(n, ast.Global):
                globs |= set(n.names)
        # --- R-C13.1 / .2 / .3 : write sites
        for ws in F.write_sites(mod, qual, fn):
            t = ws.target
            if ws.kind in ("store", "aug", "del") and isinstance(t, ast.Name):
                if t.id in globs:
                    report("R-C13.1", mod, qual, ws.node, f"function rebinds module-level name `{t.id}` (global statement)")
                    oblige("R-C13.1", mod, qual, ws.node, False)
                else:
                    oblige("R-C13.1", mod, qual, ws.node, True, nontrivial=False)
                continue
            obj = t.value if (ws.kind in ("store", "aug", "del") and isinstance(t, (ast.Attribute, ast.Subscript))) else t
            kind, detail = scope.classify(obj)
            # self.attr where attr is known to alias a shared object
            root, path = F.root_of(obj)
            if kind == "INSTANCE" and cls is not None and (cls.name, detail) in aliased_attrs and (len(path) >= 1):
                # mutation *through* self.attr (not rebinding of self.attr itself)
                if not (ws.kind == "store" and isinstance(t, ast.Attribute) and t.value is root):
                    kind, detail = "SHARED", f"self.{detail} aliases {aliased_attrs[(cls.name, detail)]}"
            if kind == "INSTANCE" and cls is not None and (cls.name, detail) in aliased_elems and len(path) >= 1 + aliased_elems[(cls.name, detail)][1]:
                # mutation of an ELEMENT of the container held by self.attr, and one element of that container is a shared object
                kind, detail = "SHARED", f"an element of self.{detail} is {aliased_elems[(cls.name, detail)][0]} (placed there when the attribute was bound)"
            if kind == "SHARED":
                report("R-C13.1", mod, qual, ws.node, f"{ws.kind} reaches shared object: {detail}")
                oblige("R-C13.1", mod, qual, ws.node, False)
            elif kind == "CLASSATTR":
                report("R-C13.2", mod, qual, ws.node, f"{ws.kind} reaches class-level state: {detail}")
                oblige("R-C13.2", mod, qual, ws.node, False)
            elif kind == "MUTDEFAULT":
                report("R-C13.3", mod, qual, ws.node, f"{ws.kind} mutates mutable default argument `{detail}`")
                oblige("R-C13.3", mod, qual, ws.node, False)
            else:
                oblige("R-C13.1", mod, qual, ws.node, True)
        # --- R-C13.3 escapes of mutable defaults
        md = F.mutable_default_params(fn) if not isinstance(fn, ast.Lambda) else {}
        for n in F.own_nodes(fn):
            if isinstance(n, ast.Name) and isinstance(n.ctx, ast.Load) and n.id in md:
                par = getattr(n, "_parent", None)
                ok, why = _default_use_ok(n, par)
                if not ok and isinstance(par, ast.Call) and n in par.args and _callee_only_reads(mod, cname, par, par.args.index(n), 0):
                    ok = True      # handed to a helper of the same class / module that only reads it (checked in the helper, two levels deep)
                if not ok:
                    report("R-C13.3", mod, qual, par if par is not None else n, f"mutable default argument `{n.id}` {why}")
                oblige("R-C13.3", mod, qual, par if par is not None else n, ok)
        # --- R-C13.4 module-level instances used from functions
        for n in F.own_nodes(fn):
            if isinstance(n, ast.Name) and isinstance(n.ctx, ast.Load) and n.id in shared_instances and not scope.is_local(n.id):
                report("R-C13.4", mod, qual, getattr(n, "_parent", n), f"function uses module-level instance `{n.id}` of stateful class {shared_instances[n.id]}: state shared by all callers")
                oblige("R-C13.4", mod, qual, n, False)
        # --- R-C13.5 ambient state
        if not isinstance(fn, ast.Lambda):
            for d in fn.decorator_list:
                dn = S.unparse(d.func if isinstance(d, ast.Call) else d)
                bad = dn in CACHE_DECORATORS
                oblige("R-C13.5", mod, qual, d, not bad)
                if bad:
                    report("R-C13.5", mod, qual, d, f"caching decorator `{dn}` keeps results across calls and instances")
        for n in F.own_nodes(fn):
            if isinstance(n, ast.Attribute) and isinstance(n.value, ast.Name) and (n.value.id, n.attr) in AMBIENT_ATTRS and not scope.is_local(n.value.id):
                report("R-C13.5", mod, qual, getattr(n, "_parent", n), f"reads ambient process state {n.value.id}.{n.attr}")
                oblige("R-C13.5", mod, qual, n, False)


def _immutable_binding(mod, name):
    """every module-level binding of the name is an immutable literal (number, string, None, tuple / frozenset of such)"""
    def imm(v):
        if isinstance(v, ast.Constant):
            return True
        if isinstance(v, ast.Tuple):
            return all(imm(e) for e in v.elts)
        if isinstance(v, ast.Call) and isinstance(v.func, ast.Name) and v.func.id == "frozenset":
            return True
        if isinstance(v, (ast.UnaryOp,)):
            return imm(v.operand)
        if isinstance(v, ast.BinOp):
            return imm(v.left) and imm(v.right)
        if isinstance(v, ast.JoinedStr):
            return True
        return False
    sts = mod.assigns.get(name, [])
    return bool(sts) and all(getattr(st, "value", None) is not None and imm(st.value) for st in sts)


def _callee_only_reads(mod, cname, call, argpos, depth):
    """the callee of `call` (a method of the same class or a function of the same module) uses its parameter number argpos only in ways
    that neither mutate nor retain it"""
    f = call.func
    callee = None
    skip_self = 0
    if isinstance(f, ast.Attribute) and isinstance(f.value, ast.Name) and f.value.id == "self" and cname and cname in mod.classes:
        callee = {m.name: m for m in mod.classes[cname].body if isinstance(m, ast.FunctionDef)}.get(f.attr)
        skip_self = 1
    elif isinstance(f, ast.Name):
        callee = mod.functions.get(f.id)
    if callee is None or depth > 2 or any(isinstance(a, ast.Starred) for a in call.args):
        return False
    params = callee.args.args[skip_self:]
    if argpos >= len(params):
        return False
    pname = params[argpos].arg
    for u in ast.walk(callee):
        if isinstance(u, ast.Name) and u.id == pname:
            if isinstance(u.ctx, ast.Store):
                return False
            par = getattr(u, "_parent", None)
            ok, _why = _default_use_ok(u, par)
            if not ok and isinstance(par, ast.Call) and u in par.args and _callee_only_reads(mod, cname, par, par.args.index(u), depth + 1):
                ok = True
            if not ok:
                return False
    return True


def _default_use_ok(n, par):
    if par is None:
        return False, "used in an unknown context"
    if isinstance(par, ast.BinOp):
        return True, ""
    if isinstance(par, ast.Subscript) and par.value is n and isinstance(par.ctx, ast.Load):
        return True, ""
    if isinstance(par, (ast.For, ast.comprehension)) and par.iter is n:
        return True, ""
    if isinstance(par, (ast.Compare, ast.BoolOp, ast.UnaryOp, ast.If, ast.While, ast.IfExp)):
        if isinstance(par, ast.IfExp) and par.test is not n:
            return False, "is selected as a value (may escape)"
        return True, ""
    if isinstance(par, ast.Call):
        if isinstance(par.func, ast.Name) and par.func.id in F.PURE_BUILTINS and n in par.args:
            return True, ""
        if isinstance(par.func, ast.Attribute) and par.func.value is n:
            if par.func.attr in F.MUTATORS:
                return False, f"is mutated by .{par.func.attr}()"
            return True, ""
        return False, f"is passed to `{S.unparse(par.func)}` (may be retained or mutated there)"
    if isinstance(par, ast.Attribute) and par.value is n:
        return True, ""
    if isinstance(par, ast.Return):
        return False, "is returned to the caller (who may mutate the shared object)"
    if isinstance(par, (ast.Assign, ast.AnnAssign)):
        tg = par.targets if isinstance(par, ast.Assign) else [par.target]
        if any(not isinstance(t, ast.Name) for t in tg):
            return False, "is stored in an attribute / container"
        return True, ""   # local alias: tracked by the alias analysis
    if isinstance(par, (ast.Tuple, ast.List, ast.Set, ast.Dict)):
        return False, "is placed in a container"
    if isinstance(par, ast.Starred):
        return True, ""
    if isinstance(par, ast.keyword):
        return False, "is passed as keyword argument (may be retained or mutated there)"
    return False, f"is used in {type(par).__name__} context"


def check(ctx):
    ctx.rule("R-C13.1", "no write effect of any function reaches a module-level object or imported module state")
    ctx.rule("R-C13.2", "no write effect reaches class-level state (class attributes are shadowed per instance, never mutated)")
    ctx.rule("R-C13.3", "mutable default arguments are never mutated, returned, stored or passed on")
    ctx.rule("R-C13.4", "instance attributes never alias shared mutable objects; no module-level instance of a stateful class is used")
    ctx.rule("R-C13.5", "no caching decorators, no ambient process state (environment, clocks, randomness, recursion limit)")
    mods = S.all_modules()
    all_classes = {}
    for m in mods:
        all_classes.update(F.classes(m))

    def make(real):
        found = []

        def report(rule, mod, qual, node, msg):
            text = S.unparse(node)
            found.append((rule, mod, qual, node, msg, text))
            if real:
                ctx.violation(rule, f"{mod.name}:{qual}:{norm(text)[:120]}", msg, file=mod.rel, function=qual,
                              line=getattr(node, "lineno", 0), construct=text)

        def oblige(rule, mod, qual, node, ok, nontrivial=True):
            if real:
                ctx.oblige(rule, f"{mod.name}:{qual}:{getattr(node, 'lineno', 0)}:{S.unparse(node)[:60]}", ok,
                           nontrivial=nontrivial,
                           sample={"rule": rule, "function": f"{mod.name}:{qual}", "line": getattr(node, "lineno", 0),
                                   "construct": S.unparse(node)[:120], "verdict": "not shared" if ok else "REACHES SHARED STATE"}
                           if nontrivial and (not ok or ctx.obligations % 23 == 0) else None)
        return found, report, oblige

    # positive control
    pmod = S.Module("positive_control", "<positive control embedded in sa/props/c13.py>", src=_POSITIVE)
    pclasses = dict(all_classes)
    pclasses.update(F.classes(pmod))
    found, report, oblige = make(False)
    analyse_module(pmod, pclasses, report, oblige)
    got = {}
    for r in found:
        got[r[0]] = got.get(r[0], 0) + 1
    for rid, n in _POSITIVE_EXPECT.items():
        if got.get(rid, 0) < n:
            raise AnalysisError(f"positive control: rule {rid} fired {got.get(rid, 0)} times on the embedded violating module, expected >= {n}: the rule no longer matches")
    ctx.info["positive_control"] = got

    found, report, oblige = make(True)
    nfun = 0
    for m in mods:
        ctx.unit("modules")
        for _q, _f, _c in F.iter_functions(m):
            nfun += 1
        analyse_module(m, all_classes, report, oblige)
    ctx.unit("functions", nfun)
    ctx.require_instances("R-C13.1", 150)
    ctx.info["explanation"] = (
        "ownership / write-effect analysis: every attribute or subscript store, del, augmented assignment, mutator "
        "call and global rebinding in every function of the 7 package modules is attributed, through exact Python "
        "scoping and a may-alias analysis, to the object it can reach; obligations are these write sites plus "
        "instance-attribute initialisers, mutable-default uses and decorator / ambient-state probes")
    ctx.info["exhaustive"] = True
    ctx.trusted += ["CPython ast parser", "list of mutator method names in sa/stateflow.py",
                    "CPython executes each byte-code of one thread atomically w.r.t. objects no other thread can reach"]
    ctx.assumptions += ["callers do not share one CParser/CGenerator instance between threads (the property is about separate instances)",
                        "objects passed in by the caller (lexer class, callbacks) are not themselves shared mutable state"]
