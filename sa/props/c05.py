"""C05 - statement ASTs mirror C's statement nesting and source order.

Decided: the def-use wiring of every statement production (which call site fills which slot, in which order items are
appended) equals the reviewed reference; the switch regrouping transform treats Case and Default alike everywhere and
only moves nodes by append; pragma productions build one Pragma per directive from the directive's own text token.
"""
from __future__ import annotations

import ast

from .. import srcmodel as S
from ..core import AnalysisError
from . import wiring_common as WCm

LEVEL = "other"


def check(ctx):
    ctx.rule("R-C05.5", "field kinds: a field specified as one node never receives the result of a production that can return a list, a sequence field never a bare node")
    ctx.rule("R-C05.4", "statement grammar: every statement form of the reference grammar is accepted and no statement production refuses a token its callee can start with (label / case bodies, pragmas, do, for-declarations ...)")
    ctx.rule("R-C05.1", "statement productions: every slot is filled from the call site / token the reviewed reference names (else binds to the nearest if, bodies are one statement, for-clauses in order, block items appended in source order)")
    ctx.rule("R-C05.2", "switch regrouping is conservative: Case and Default are treated alike in every class test; children are only appended (never inserted, dropped or duplicated)")
    ctx.rule("R-C05.3", "block item / translation unit lists grow only by append/extend in source order")
    n = WCm.run_group(ctx, "R-C05.1", WCm.STMT, lambda label, field: not WCm.is_coord_field(label, field) and not label.startswith("call:_parse_error"),
                      "statement tree wiring deviates from C's statement grammar")
    ctx.unit("statement productions compared", n)
    ctx.require_instances("R-C05.1", 60)

    tx = S.module("ast_transforms")
    # ---- R-C05.2 ---------------------------------------------------------------
    tests = []
    for fname in ("fix_switch_cases", "_extract_nested_case"):
        fn = tx.function(fname)
        for c in ast.walk(fn):
            if isinstance(c, ast.Call) and isinstance(c.func, ast.Name) and c.func.id == "isinstance" and len(c.args) == 2:
                classes = {n.attr for n in ast.walk(c.args[1]) if isinstance(n, ast.Attribute) and isinstance(n.value, ast.Name) and n.value.id == "c_ast"}
                if classes & {"Case", "Default"}:
                    tests.append((fname, c, classes))
    if len(tests) < 2:
        raise AnalysisError("class tests on Case/Default not found in ast_transforms: anchors moved")
    for fname, c, classes in tests:
        ok = classes == {"Case", "Default"}
        ctx.oblige("R-C05.2", f"{fname}: {S.unparse(c)}", ok, sample={"rule": "R-C05.2", "function": fname, "test": S.unparse(c), "classes": sorted(classes)})
        if not ok:
            ctx.violation("R-C05.2", f"case-default-asymmetry:{fname}:{','.join(sorted(classes))}", f"{fname} tests `{S.unparse(c)}`: `case` and `default` labels must be treated alike ({sorted({'Case', 'Default'} - classes)} missing) or statements end up under the wrong label",
                          file=tx.rel, function=fname, line=c.lineno)
    # ... and the items of the switch body are told apart ONLY by "is a case / default label or not": a class test on the item that singles out
    # another kind of statement (declarations, pragmas ...) files that kind somewhere else than under the nearest preceding label
    fsw = tx.function("fix_switch_cases")
    lvars = {lp.target.id for lp in ast.walk(fsw) if isinstance(lp, ast.For) and isinstance(lp.target, ast.Name)}
    for c in ast.walk(fsw):
        if isinstance(c, ast.Call) and isinstance(c.func, ast.Name) and c.func.id == "isinstance" and len(c.args) == 2 and isinstance(c.args[0], ast.Name) and c.args[0].id in lvars:
            classes = {n.attr for n in ast.walk(c.args[1]) if isinstance(n, ast.Attribute) and isinstance(n.value, ast.Name) and n.value.id == "c_ast"}
            ok = classes <= {"Case", "Default"}
            ctx.oblige("R-C05.2", f"fix_switch_cases: class test on the block item: {sorted(classes)}", ok)
            if not ok:
                ctx.violation("R-C05.2", f"item-class-test:{','.join(sorted(classes - {'Case', 'Default'}))}", f"fix_switch_cases tests `{S.unparse(c)}`: items of a switch body may only be told apart as label / not label; a {sorted(classes - {'Case', 'Default'})} "
                              "item that is treated differently does not end up under the nearest preceding case / default label, in source order", file=tx.rel, function="fix_switch_cases", line=c.lineno)
    # only append / pop(+append) on the statement lists
    for fname in ("fix_switch_cases", "_extract_nested_case"):
        fn = tx.function(fname)
        for c in ast.walk(fn):
            if isinstance(c, ast.Call) and isinstance(c.func, ast.Attribute) and c.func.attr in ("insert", "remove", "extend", "clear", "reverse", "sort", "__setitem__"):
                ctx.oblige("R-C05.2", f"{fname}: {S.unparse(c)[:50]}", False)
                ctx.violation("R-C05.2", f"list-op:{fname}:{c.func.attr}", f"{fname} uses `{S.unparse(c)[:80]}`: the regrouping may only append (and move a nested case by pop + append), otherwise source order or multiplicity changes",
                              file=tx.rel, function=fname, line=c.lineno)
            if isinstance(c, (ast.Delete,)):
                ctx.violation("R-C05.2", f"del:{fname}", f"{fname} deletes list elements", file=tx.rel, function=fname, line=c.lineno)
    # every child of the switch body is appended exactly once per loop iteration: each branch of the loop body ends in exactly one append of `child`
    fn = tx.function("fix_switch_cases")
    loops = [n for n in ast.walk(fn) if isinstance(n, ast.For)]
    if len(loops) != 1:
        raise AnalysisError("fix_switch_cases: expected exactly one loop over the switch body")
    loop = loops[0]
    var = loop.target.id if isinstance(loop.target, ast.Name) else None
    counts = _append_counts(loop.body, var)
    ok = counts == {1}
    ctx.oblige("R-C05.2", "each child appended exactly once on every path of the loop body", ok, sample={"rule": "R-C05.2", "append counts over paths": sorted(counts)})
    if not ok:
        ctx.violation("R-C05.2", f"linearity:{sorted(counts)}", f"in fix_switch_cases some path of the loop body appends the current child {sorted(counts)} times (exactly once expected): statements would be dropped or duplicated",
                      file=tx.rel, function="fix_switch_cases", line=loop.lineno)
    # ---- R-C05.7: every label-like prefix is looked through by the switch regrouping ------------------------------------------
    # The labeled-statement production nests what follows a prefix INSIDE the prefix node (`L: case 1: a();` is Label(L, Case(1, [a]))), and a body
    # that starts with #pragma lines is wrapped in a Compound.  "Every statement ends up under the nearest preceding case/default label, consecutive
    # labels kept as siblings" therefore needs the regrouping to find a Case / Default nested in the body slot of EVERY such wrapper class - not
    # only inside another Case / Default.
    ctx.rule("R-C05.7", "the switch regrouping looks through every statement wrapper the parser can put around a case / default label (other labels, the #pragma wrapper Compound), as it does for nested case labels")
    from .. import wirecheck as WC7
    cur7 = WC7.current()
    STMT_PRODS = ("_parse_pragmacomp_or_statement", "_parse_statement")
    wrappers = {}      # class -> (body field, production that builds it)
    for meth in ("_parse_labeled_statement", "_parse_pragmacomp_or_statement"):
        if meth not in cur7:
            raise AnalysisError(f"anchor production {meth} vanished")
        for lab, fa in cur7[meth]["records"]:
            if lab.startswith("call:") or ">" in lab:
                continue
            for f_, vals in fa.items():
                if any(sp + "#" in v for v in vals for sp in STMT_PRODS):
                    wrappers[lab] = (f_, meth)
    if not {"Label", "Case", "Default"} <= set(wrappers):
        raise AnalysisError(f"statement wrappers built by the labeled-statement production not found (got {sorted(wrappers)})")
    searched = set()
    for fname in ("fix_switch_cases", "_extract_nested_case"):
        fn = tx.function(fname)
        for c in ast.walk(fn):
            if isinstance(c, ast.Call) and isinstance(c.func, ast.Name) and c.func.id == "isinstance" and len(c.args) == 2:
                classes = {n.attr for n in ast.walk(c.args[1]) if isinstance(n, ast.Attribute) and isinstance(n.value, ast.Name) and n.value.id == "c_ast"}
                if not (classes & {"Case", "Default"}):
                    continue
                e = c.args[0]
                while isinstance(e, ast.Subscript):
                    e = e.value
                if isinstance(e, ast.Attribute):
                    searched.add(e.attr)
    for cls, (f_, meth) in sorted(wrappers.items()):
        ok = f_ in searched
        ctx.oblige("R-C05.7", f"{cls}.{f_} is searched for a nested case / default label", ok, sample={"rule": "R-C05.7", "wrapper class": cls, "body field": f_, "built by": meth, "fields the regrouping searches": sorted(searched)})
        if not ok:
            what = "a plain label in front of a case label (`L: case 1: a(); b();`)" if cls == "Label" else "#pragma lines between a label and the case label that follows (`case 1:` / `#pragma p` / `case 2: a(); b();`)" if cls == "Compound" else f"a {cls} node"
            ctx.violation("R-C05.7", f"switch-wrapper-not-searched:{cls}.{f_}", f"{meth} can nest a case / default label inside {cls}.{f_} ({what}), but fix_switch_cases / _extract_nested_case only look for nested labels in "
                          f"{sorted(searched)}: the nested case is never promoted to a sibling, and the statements after it are appended under an EARLIER case (or left outside every case)", file=tx.rel, function="fix_switch_cases")
    # ---- R-C05.8: context flags nest ----------------------------------------------------------------------------------------
    # A parser attribute that is set around the parsing of a nested construct ("inside a switch", "inside a loop") must be RESTORED to the value it
    # had, not reset to a constant: statements nest, so the same production runs again inside the construct and its reset would switch the flag off
    # for the rest of the outer construct.
    ctx.rule("R-C05.8", "context flags nest: an instance attribute set around the parse of a sub-construct is restored to its saved value afterwards, never reset to a constant")
    px8 = S.module("c_parser")
    n8 = 0
    for mname, fn in px8.methods("CParser").items():
        if not mname.startswith("_parse_"):
            continue
        for blk_owner in ast.walk(fn):
            for fld in ("body", "orelse"):
                blk = getattr(blk_owner, fld, None)
                if not isinstance(blk, list):
                    continue
                sets = [(i, st) for i, st in enumerate(blk) if isinstance(st, ast.Assign) and len(st.targets) == 1 and isinstance(st.targets[0], ast.Attribute)
                        and isinstance(st.targets[0].value, ast.Name) and st.targets[0].value.id == fn.args.args[0].arg]
                for (i, a), (j, b) in [(x, y) for x in sets for y in sets if x[0] < y[0] and x[1].targets[0].attr == y[1].targets[0].attr]:
                    between = blk[i + 1:j]
                    parses = any(isinstance(c, ast.Call) and isinstance(c.func, ast.Attribute) and c.func.attr.startswith(("_parse_", "_try_parse_")) for st in between for c in ast.walk(st)) or \
                        any(isinstance(c, ast.Call) and isinstance(c.func, ast.Attribute) and c.func.attr.startswith(("_parse_", "_try_parse_")) for c in ast.walk(b.value))
                    if not parses:
                        continue
                    n8 += 1
                    ok = not isinstance(b.value, ast.Constant)
                    ctx.oblige("R-C05.8", f"{mname}: self.{a.targets[0].attr} restored after the nested parse", ok)
                    if not ok:
                        ctx.violation("R-C05.8", f"flag-not-restored:{a.targets[0].attr}", f"{mname} sets self.{a.targets[0].attr} (`{S.unparse(a)}`), parses a nested construct and then resets it to the constant `{S.unparse(b.value)}` instead of the value it had: "
                                      "when the construct is nested in another one of the same kind, the flag is wrong for the rest of the outer construct (e.g. a `case` label after an inner `switch` is refused)", file=px8.rel, function=f"CParser.{mname}", line=b.lineno)
    ctx.oblige("R-C05.8", "no parser flag is reset to a constant after a nested parse", True, nontrivial=False)
    # ---- R-C05.3 ---------------------------------------------------------------------
    px = S.module("c_parser")
    for m in ("_parse_block_item_list", "_parse_translation_unit", "_parse_struct_declaration_list", "_parse_declaration_list", "_parse_pppragma_directive_list"):
        fn = px.method("CParser", m)
        for c in ast.walk(fn):
            if isinstance(c, ast.Call) and isinstance(c.func, ast.Attribute) and c.func.attr in ("insert", "reverse", "sort", "pop", "remove", "appendleft"):
                ctx.oblige("R-C05.3", f"{m}: {S.unparse(c)[:40]}", False)
                ctx.violation("R-C05.3", f"order:{m}:{c.func.attr}", f"{m} uses `{S.unparse(c)[:60]}`: items must be collected in source order by append/extend only", file=px.rel, function=f"CParser.{m}", line=c.lineno)
        ctx.oblige("R-C05.3", f"{m} collects by append/extend", True, nontrivial=False)
    # ---- R-C05.5: a field that holds one node never receives a list (and a sequence field never a bare node) ----------------
    from .. import astspec as A
    spec5 = {n_: dict(ents) for n_, ents, _ in A.parse_cfg()}
    from .. import wirecheck as WC5
    cur5 = WC5.current()
    kinds = {}

    def kinds_of(meth, seen=()):
        if meth in kinds:
            return kinds[meth]
        if meth in seen or meth not in cur5:
            return set()
        out = set()
        for r in cur5[meth]["returns"]:
            if r.startswith("new:"):
                out.add("node")
            elif r.startswith(("[", "+", "acc#", "_build_declarations#")):
                out.add("list")
            elif r.startswith("_parse_"):
                out |= kinds_of(r.split("#")[0], seen + (meth,))
        kinds[meth] = out
        return out
    n55 = 0
    for meth, info in sorted(cur5.items()):
        for lab, fa in info["records"]:
            cls = lab.split(">")[-1]
            for f_, kind in spec5.get(cls, {}).items():
                for v in fa.get(f_, []):
                    base = v.split("#")[0]
                    if not (base.startswith("_parse_") and "." not in v and "[" not in v):
                        continue
                    k = kinds_of(base)
                    bad = (kind == "child" and "list" in k) or (kind == "seq" and "node" in k)
                    n55 += 1
                    ctx.oblige("R-C05.5", f"{meth}: {cls}.{f_} <- {v}", not bad, nontrivial=True, sample={"rule": "R-C05.5", "method": meth, "field": f"{cls}.{f_} ({kind})", "receives": v, "which can be": sorted(k)} if (bad or n55 % 37 == 0) else None)
                    if bad:
                        ctx.violation("R-C05.5", f"kind:{cls}.{f_}:{base}", f"{meth} stores the result of {base} in {cls}.{f_}, a field for {'one node' if kind == 'child' else 'a list of nodes'}, but {base} can return {'a list' if kind == 'child' else 'a single node'} "
                                      f"({sorted(k)}): traversal, show() and the generator then meet a {'list' if kind == 'child' else 'node'} where they expect the other", file=px.rel, function=f"CParser.{meth}")
    ctx.require_instances("R-C05.5", 60)

    # ---- R-C05.4: the statement part of the grammar conformance argument (decided by the C01 machinery) --------------------
    from . import share
    STMT_NTS = ("statement", "substatement", "labeled_statement", "compound_statement", "block_item", "expression_statement", "selection_statement", "switch_body", "switch_item",
                "iteration_statement", "jump_statement", "pragma", "for_declaration", "static_assert")

    def stmt_level(f):
        if f.rule == "R-C01.4":
            return f.function.replace("CParser.", "") in WCm.STMT or f.function.replace("CParser.", "") in ("_starts_statement",)
        return any(("start:" + nt) in f.key or (":" + nt + "+") in f.key or (":" + nt + "/") in f.key or ("+" + nt + "/") in f.key or ("^" in f.key and (":" + nt + "^") in f.key) for nt in STMT_NTS)
    share.borrow(ctx, "C01", ("R-C01.3", "R-C01.4"), "R-C05.4", keep=stmt_level, count=40)
    # ---- R-C05.6: pragma text verbatim ------------------------------------------------
    ctx.rule("R-C05.6", "the text of a #pragma reaches the tree verbatim: the PPPRAGMASTR token is a slice of the input at its own offset (the Pragma node takes the token's value: R-C05.1)")
    from . import c09
    c09.token_spelling_sites(ctx, "R-C05.6")
    ctx.require_instances("R-C05.6", 4)

    ctx.info["explanation"] = ("def-use wiring of every constructor site, return and append of the 19 statement-level productions and of the switch transform compared with the reviewed reference; "
                               "class-set agreement of the Case/Default tests; per-path append count of the regrouping loop")
    ctx.assumptions += ["equality with an independently built tree on concrete inputs is not executed", "sa/wiring_ref.json was reviewed against C99 6.8"]
    ctx.trusted += ["sa/wiring_ref.json", "E1 token-type sets"]


def _append_counts(body, var):
    """Set of numbers of `X.append(var)` executed along the paths of a statement list (structured, loops not expected)."""
    counts = {0}
    for st in body:
        nxt = set()
        if isinstance(st, ast.If):
            a = _append_counts(st.body, var)
            b = _append_counts(st.orelse, var)
            for c in counts:
                nxt |= {c + x for x in a | b}
        else:
            k = sum(1 for c in ast.walk(st) if isinstance(c, ast.Call) and isinstance(c.func, ast.Attribute) and c.func.attr == "append" and c.args and isinstance(c.args[0], ast.Name) and c.args[0].id == var)
            nxt = {c + k for c in counts}
        counts = nxt
    return counts
