"""C08 - regenerated C means the same to a C compiler (structural clauses only).

Equality of compiler output cannot be decided statically and is NOT claimed.  Decided is the clause "no token that matters
is dropped, duplicated, reordered or regrouped on the way through the AST", split into:
 R-C08.1 token conservation in the parser: on no path is the result of a production, or a token whose spelling carries
         information, bound to a variable and then dropped before the production returns;
 R-C08.2 emission completeness in the generator (= R-C07.4) and operator grouping (= R-C02.1 / R-C07.1 / R-C07.2);
 R-C08.3 invertibility of sibling alternatives that store unwrapped results in the same place (designators);
 R-C08.4 no node is attached to several parents (shared specifier nodes).
"""
from __future__ import annotations

import ast

from .. import e1
from .. import srcmodel as S
from .. import wirecheck as WC
from .. import wiring as W
from ..core import AnalysisError, Ctx
from . import c07

LEVEL = "other"
VALUE_TYPES = {"ID", "TYPEID", "PPPRAGMASTR", "INT_CONST_DEC", "INT_CONST_OCT", "INT_CONST_HEX", "INT_CONST_BIN", "INT_CONST_CHAR", "FLOAT_CONST", "HEX_FLOAT_CONST",
               "CHAR_CONST", "WCHAR_CONST", "U8CHAR_CONST", "U16CHAR_CONST", "U32CHAR_CONST", "STRING_LITERAL", "WSTRING_LITERAL", "U8STRING_LITERAL", "U16STRING_LITERAL", "U32STRING_LITERAL"}
NOT_VALUE_CALLS = {"_parse_error", "_parse_pp_directive"}
# results that are legitimately not used on some path (one construct each, with the reason)
DISCARD_OK = {
    ("_parse_block_item_list", "_parse_block_item#0"): "the path `item == [None]` only drops the placeholder list [None], which carries no token",
}


def value_bearing(d, toksites):
    k = d[0]
    if k == "call":
        return d[1].startswith("_parse_") and d[1] not in NOT_VALUE_CALLS
    if k == "tok":
        if d[1] == "_peek":
            return False
        ts = toksites.get(d[4]) if len(d) > 4 else None
        if not ts:
            return False
        return len(ts) > 1 or bool(ts & VALUE_TYPES)
    if k == "item" and isinstance(d[1], tuple) and d[1][0] == "call" and d[1][1] == "_try_parse_paren_type_name":
        return d[2] == 0
    return False


def check(ctx):
    ctx.rule("R-C08.1", "token conservation: no production result or information-carrying token is bound and then dropped on a path to return")
    ctx.rule("R-C08.2", "emission completeness and grouping in the generator (visitor coverage, field use, parenthesisation, precedence agreement)")
    ctx.rule("R-C08.3", "alternatives that store unwrapped results in the same slot return disjoint classes")
    ctx.rule("R-C08.5", "expression, declaration and statement wiring: operands are grouped as C groups them (precedence table, climbing loop, operand levels of every expression production); every declarator's own name, bit-field width, initialiser and derivations end up in its own declaration; every statement ends up once, in source order, under its construct (reviewed def-use reference, append linearity of the switch regrouping)")
    ctx.rule("R-C08.6", "joining adjacent string literals cannot change what they denote (an escape sequence ending one piece is not extended by the next piece)")
    ctx.rule("R-C08.4", "a node built once is attached to one parent")
    px = S.module("c_parser")
    toksites = e1.token_sites()
    W.TOKSITES = toksites
    # ---- R-C08.1 -----------------------------------------------------------------
    nsites = 0
    for m, fn in px.methods("CParser").items():
        if not m.startswith("_parse_") or m in NOT_VALUE_CALLS:
            continue
        w = W.of("c_parser", "CParser", m)
        for st, v, guards, env in w.returns:
            pend = env.get("$pend", set())
            held = {}
            for name, ds in env.items():
                if not name.startswith("$"):
                    for d in ds:
                        held.setdefault(d, name)
            for d in pend:
                held.setdefault(d, "(rebound)")
            for d, name in sorted(held.items(), key=lambda kv: (kv[1], W.simplify(kv[0]))):
                if name == "_" or not value_bearing(d, toksites):
                    continue
                nsites += 1
                ok = d not in pend or (m, W.simplify(d)) in DISCARD_OK
                ctx.oblige("R-C08.1", f"{m}:{name}:{W.simplify(d)}@{st.lineno}", ok, nontrivial=True,
                           sample={"rule": "R-C08.1", "production": m, "variable": name, "holds": W.simplify(d), "return at line": st.lineno, "verdict": "flows on" if ok else "DROPPED"} if (not ok or nsites % 61 == 0) else None)
                if not ok:
                    ctx.violation("R-C08.1", f"dropped:{m}:{W.simplify(d)}", f"in {m} the value of `{name}` ({W.simplify(d)}) is never used on a path that returns at line {st.lineno}: the tokens it stands for are consumed but do not reach the AST",
                                  file=px.rel, function=f"CParser.{m}", line=st.lineno, construct=S.unparse(st)[:120])
    ctx.require_instances("R-C08.1", 150)

    # ---- R-C08.2 -------------------------------------------------------------------
    sub = Ctx("C07", ctx.tier)
    c07.check(sub)
    for rid in ("R-C07.1", "R-C07.2", "R-C07.3", "R-C07.4", "R-C07.5", "R-C07.6", "R-C07.7"):
        r = sub.rules.get(rid, {"instances": 0})
        for i in range(r["instances"] - r.get("violations", 0)):
            ctx.oblige("R-C08.2", f"{rid}#{i}", True, nontrivial=False)
    for f in sub.findings:
        if f.rule in ("R-C07.1", "R-C07.2", "R-C07.3", "R-C07.4", "R-C07.5", "R-C07.6", "R-C07.7"):
            ctx.oblige("R-C08.2", f.key, False)
            ctx.violation("R-C08.2", f.key, f.message, file=f.file, function=f.function, line=f.line, construct=f.construct)

    # ---- R-C08.5: per-declarator data reaches its own declaration (builder wiring, decided by the C03 machinery) ----------
    from . import share
    share.borrow(ctx, "C03", ("R-C03.1",), "R-C08.5", count=60)
    share.borrow(ctx, "C02", ("R-C02.1", "R-C02.2", "R-C02.3"), "R-C08.5", count=40)      # expressions: operands are grouped as C groups them (a regrouped expression computes something else)
    share.borrow(ctx, "C05", ("R-C05.1", "R-C05.2"), "R-C08.5", count=40)      # statements: none is lost, duplicated or moved by the builders and the switch regrouping
    # ---- R-C08.6: adjacent string literals keep their meaning when joined -------------------------------------------------------
    from . import c02
    c02.escape_merge(ctx, "R-C08.6", px)
    # ---- R-C08.3 -------------------------------------------------------------------
    cur = WC.current()
    classes = {}

    def classes_of(method, seen=()):
        if method in classes:
            return classes[method]
        if method in seen or method not in cur:
            return set()
        out = set()
        for r in cur[method]["returns"]:
            if r.startswith("new:"):
                out.add(r[4:].split("#")[0])
            elif r.startswith("_parse_"):
                out |= classes_of(r.split("#")[0], seen + (method,))
        classes[method] = out
        return out
    des = cur.get("_parse_designator")
    if des is None:
        raise AnalysisError("_parse_designator vanished")
    alts = [r for r in des["returns"] if r.startswith("_parse_")]
    sets = {r: classes_of(r.split("#")[0]) for r in alts}
    wrapped = [r for r in des["returns"] if r.startswith("new:")]
    overlap = set()
    keys = sorted(sets)
    for i, a in enumerate(keys):
        for b in keys[i + 1:]:
            overlap |= sets[a] & sets[b]
    ok = not overlap or bool(wrapped)
    ctx.oblige("R-C08.3", "designator alternatives are distinguishable", ok, sample={"rule": "R-C08.3", "alternatives": {k: sorted(v)[:8] for k, v in sets.items()}, "overlap": sorted(overlap)})
    if not ok:
        ctx.violation("R-C08.3", f"designator-ambiguity:{','.join(sorted(overlap))}", f"_parse_designator stores the bare result of `[constant-expression]` and of `.identifier` in the same list; both can be a {sorted(overlap)} node, so the generator cannot tell `[N] = 1` from `.N = 1` "
                      "(it prints every ID as a member designator)", file=px.rel, function="CParser._parse_designator")
    # ---- R-C08.4 --------------------------------------------------------------------
    bd = px.method("CParser", "_build_declarations")
    loops = [n for n in ast.walk(bd) if isinstance(n, ast.For) and S.unparse(n.iter) == "decls"]
    if len(loops) != 1:
        raise AnalysisError("_build_declarations: the loop over the declarators was not found")
    lp = loops[0]
    created = {t.id for n in ast.walk(lp) if isinstance(n, ast.Assign) for t in n.targets if isinstance(t, ast.Name) and isinstance(n.value, ast.Call)}
    shared = []
    for c in ast.walk(lp):
        if isinstance(c, ast.Call) and getattr(c.func, "attr", "") == "_fix_decl_name_type" and len(c.args) == 2:
            arg = c.args[1]
            # the callee stores elements of this argument into the declaration's type chain (typ.type = tn)
            callee = px.method("CParser", "_fix_decl_name_type")
            p2 = callee.args.args[2].arg
            stores = [s_ for s_ in ast.walk(callee) if isinstance(s_, ast.Assign) and isinstance(s_.targets[0], ast.Attribute) and s_.targets[0].attr == "type" and isinstance(s_.value, ast.Name)]
            elems = {l2.target.id for l2 in ast.walk(callee) if isinstance(l2, ast.For) and S.unparse(l2.iter) == p2 and isinstance(l2.target, ast.Name)}
            if any(s_.value.id in elems for s_ in stores) and not any(isinstance(x, ast.Name) and x.id in created for x in ast.walk(arg)):
                shared.append((c, S.unparse(arg)))
    ok = not shared
    ctx.oblige("R-C08.4", "specifier nodes are not attached to several declarations", ok, sample={"rule": "R-C08.4", "loop-invariant nodes attached per declarator": [s_[1] for s_ in shared]})
    for c, argtxt in shared:
        ctx.violation("R-C08.4", f"shared-node:_build_declarations:{argtxt}", f"_build_declarations attaches the same node(s) from `{argtxt}` to every declarator of a declaration (via _fix_decl_name_type: typ.type = tn): for `struct S {{int x;}} a, b;` the generator prints the struct body once per declarator, "
                      "which a C compiler rejects as a redefinition", file=px.rel, function="CParser._build_declarations", line=c.lineno)
    ctx.info["explanation"] = ("must-use dataflow over the structured AST of every production (a production result or information-carrying token bound to a variable must flow into a value, constructor, append or call on every path to each return), "
                               "the generator's emission-completeness / grouping obligations of C07, class-set disjointness of the designator alternatives, and a linearity rule on the declaration builder")
    ctx.assumptions += ["NOT decided: that the system C compiler produces identical code for original and regenerated text (needs the compiler)", "which tokens carry information: token call sites whose live type set has several members or a user-spelled class (identifiers, constants, strings, pragma text)"]
    ctx.trusted += ["E1 token-type sets of call sites", "wiring engine"]
