"""Rules decided by one property's checker that are necessary conditions of another property too: run the source checker once
per process in a private context and re-report the selected instances under the borrowing property's own rule id."""
from __future__ import annotations

import importlib

from ..core import Ctx

_cache = {}
_running = []


def source(pid, tier):
    key = (pid, tier)
    if key in _running:
        from ..core import AnalysisError
        raise AnalysisError(f"borrowing cycle: the check of {pid} is asked for while it is running ({' -> '.join(k[0] for k in _running)} -> {pid})")
    if key not in _cache:
        _running.append(key)
        try:
            mod = importlib.import_module(f"sa.props.{pid.lower()}")
            sub = Ctx(pid, tier)
            mod.check(sub)          # an AnalysisError of the source propagates: the borrowed clause is then undecided as well
            _cache[key] = sub
        finally:
            _running.remove(key)
    return _cache[key]


def borrow(ctx, pid, rules, new_rule, keep=lambda f: True, count=None):
    """Copy the findings of `rules` of property `pid` that satisfy `keep` into ctx under `new_rule`; discharged instances are counted once per source rule."""
    sub = source(pid, ctx.tier)
    n = 0
    for rid in rules:
        r = sub.rules.get(rid, {"instances": 0, "violations": 0})
        good = max(r["instances"] - r["violations"], 0) if count is None else count
        for i in range(good):
            ctx.oblige(new_rule, f"{rid}#{i}", True, nontrivial=False)
        n += good
    for f in sub.findings:
        if f.rule in rules and keep(f):
            ctx.oblige(new_rule, f.key, False)
            ctx.violation(new_rule, f.key, f.message, file=f.file, function=f.function, line=f.line, construct=f.construct)
    return n
