"""C19 - every fake libc header preprocesses and parses via parse_file (structural clauses).

cpp is not run and nothing is parsed by pycparser.  The header tree is analysed as a preprocessor program (E6) and its
declaration text is tokenised / recognised with the tokeniser and grammar MODELS extracted from the parser source (E2, E1):
 R-C19.1 include closure: every #include of every shipped header resolves, with cpp's search order under -I <dir>, to a shipped file;
 R-C19.2 idempotence: every file that contains declarations is wrapped in an include guard (so any set, in any order, with repeats, declares once);
 R-C19.3 dialect independence: no conditional tests a macro whose value depends on -std=...; no live #error / unknown directive;
         no identifier of the declaration text is a macro that only the GNU dialects predefine (linux, unix, i386);
 R-C19.4 self-containedness: each file, entered alone, is a sequence of complete declarations that the extracted grammar model accepts with
         identifiers classified by the typedef names declared so far (declared-before-use, under the presence condition of the use);
 R-C19.5 order independence: no macro defined in one file rewrites declaration text of a file that does not itself include that definition first;
         a type name declared in several places is a legal re-declaration;
 R-C19.6 usability: every declared type name is present in every dialect and is not hidden by a macro of the same name;
 R-C19.7 cpp argument assembly in preprocess_file: [cpp_path] + (the list, element by element | the string, as one element | nothing for "") + [filename];
 R-C19.8 parse_file(use_cpp=True) is parser.parse(preprocess_file(filename, cpp_path, cpp_args), filename) with a fresh CParser by default.
"""
from __future__ import annotations

import ast
import os

from .. import e1
from .. import grammar as GR
from .. import hdrscan as H
from .. import srcmodel as S
from ..core import AnalysisError

LEVEL = "other"
TOP = ("_parse_translation_unit_or_empty", ())
# macros whose definition or value depends on the -std= dialect given to cpp (GCC manual, "Common Predefined Macros")
DIALECT_MACROS = {"__STDC_VERSION__", "__STRICT_ANSI__", "__GNUC_GNU_INLINE__", "__GNUC_STDC_INLINE__", "__STDC_UTF_16__", "__STDC_UTF_32__",
                  "linux", "unix", "i386", "__cplusplus", "__STDC_HOSTED__", "__STDC_IEC_559__", "_GNU_SOURCE", "_ISOC99_SOURCE", "_ISOC11_SOURCE"}
GNU_ONLY = {"linux", "unix", "i386"}     # predefined (as 1) only when the dialect is a GNU one: an identifier with this spelling disappears
TYPE_TOKENS = {"VOID", "_BOOL", "CHAR", "SHORT", "INT", "LONG", "FLOAT", "DOUBLE", "_COMPLEX", "SIGNED", "UNSIGNED", "__INT128", "STRUCT", "UNION", "ENUM", "TYPEID", "_ATOMIC"}
KNOWN_DIRECTIVES = {"pragma"}            # passed through by cpp; the lexer model handles '#pragma' lines


def _declared_names(toks):
    """Type names declared by one `typedef ... ;` token list: per declarator, the first plain identifier outside braces / after the specifiers."""
    names = []
    depth_b = 0
    depth_p = 0
    found = False
    prev = None
    for ty, tx in toks[1:]:
        if ty == "LBRACE":
            depth_b += 1
        elif ty == "RBRACE":
            depth_b -= 1
        elif ty in ("LPAREN", "LBRACKET"):
            depth_p += 1
        elif ty in ("RPAREN", "RBRACKET"):
            depth_p -= 1
        elif ty == "COMMA" and depth_b == 0 and depth_p == 0:
            found = False
        elif ty == "ID" and depth_b == 0 and not found and prev not in ("STRUCT", "UNION", "ENUM"):
            names.append(tx)
            found = True
        prev = ty
    return names


def _implies(use_cond, def_cond):
    """presence condition of the use is at least as strong as that of the definition (prefix of the conditional stack)"""
    return tuple(use_cond[:len(def_cond)]) == tuple(def_cond)


class Walker:
    """Processes one entry header the way cpp would (guards honoured, other conditionals kept as presence conditions)."""

    def __init__(self, fs, ml, rec, ctx):
        self.fs, self.ml, self.rec, self.ctx = fs, ml, rec, ctx
        self.reccache = {}

    def accepts(self, types):
        k = tuple(types)
        if k not in self.reccache:
            self.reccache[k] = self.rec.accepts(TOP, k)
        return self.reccache[k]

    def run(self, entry):
        return self.run_seq([entry])

    def run_seq(self, entries):
        self.defined = set()          # include guards / macros seen
        self.macros = {}              # name -> (params, body, file, cond)
        self.typedefs = {}            # name -> [(file, line, cond)]
        self.problems = []
        self.decls = 0
        for entry in entries:
            self._file(entry, (), [entry])
        return self

    def _file(self, rel, outer, chain):
        f = self.fs[rel]
        if f.guard:
            if f.guard in self.defined:
                return
            self.defined.add(f.guard)
        pending = []      # tokens of an unfinished declaration
        pend_cond = None
        for it in f.items:
            cond = outer + f.body_cond(it)
            if it.kind == "include":
                if it.a == "computed":
                    self.problems.append(("R-C19.1", f"computed-include:{rel}", f"{rel}:{it.line}: #include {it.b} is not a literal file name", rel, it.line))
                    continue
                tgt = H.resolve(rel, it.a, it.b, self.fs)
                if tgt is None:
                    continue        # reported by R-C19.1
                if tgt in chain and not self.fs[tgt].guard:
                    self.problems.append(("R-C19.2", f"include-cycle:{tgt}", f"{rel}:{it.line}: unguarded include cycle through {tgt}", rel, it.line))
                    continue
                if pending:
                    self.problems.append(("R-C19.4", f"split-declaration:{rel}", f"{rel}:{it.line}: an #include interrupts a declaration", rel, it.line))
                self._file(tgt, cond, chain + [tgt])
            elif it.kind == "define":
                if it.a != f.guard:
                    self.macros[it.a] = (it.b, it.c, rel, cond)
            elif it.kind == "undef":
                self.macros.pop(it.a, None)
            elif it.kind in ("if", "endif"):
                if pending:
                    self.problems.append(("R-C19.4", f"split-declaration:{rel}", f"{rel}:{it.line}: a conditional directive interrupts a declaration, so one configuration sees half of it", rel, it.line))
                    pending = []
            elif it.kind == "text":
                try:
                    toks = self.ml.tokens(it.a)
                except ValueError as e:
                    self.problems.append(("R-C19.4", f"untokenisable:{rel}:{it.a.strip()[:40]}", f"{rel}:{it.line}: the tokeniser model finds no token at column {e.args[0] + 1} of `{it.a.strip()[:60]}`", rel, it.line))
                    continue
                toks = self._expand(toks, rel, it.line)
                if pending and pend_cond != cond:
                    pending = []
                pend_cond = cond
                for t in toks:
                    pending.append(t)
                    if t[0] == "SEMI" and self._depth(pending) == 0:
                        self._declaration(pending, rel, it.line, cond)
                        pending = []
        if pending:
            self.problems.append(("R-C19.4", f"unterminated:{rel}", f"{rel}: the file ends inside a declaration (`{' '.join(t[1] for t in pending)[:60]}`), which leaks into whatever is included next", rel, f.items[-1].line))

    @staticmethod
    def _depth(toks):
        d = 0
        for ty, _ in toks:
            if ty in ("LBRACE", "LPAREN", "LBRACKET"):
                d += 1
            elif ty in ("RBRACE", "RPAREN", "RBRACKET"):
                d -= 1
        return d

    def _expand(self, toks, rel, line, depth=0):
        out = []
        for ty, tx in toks:
            m = self.macros.get(tx) if ty in ("ID",) or tx in self.macros else None
            if m is None:
                out.append((ty, tx))
                continue
            params, body, mrel, mcond = m
            if params is not None:
                out.append((ty, tx))        # function-like macro name without a call is left alone by cpp; calls in declaration text are reported
                self.problems.append(("R-C19.5", f"function-macro-in-declaration:{tx}", f"{rel}:{line}: declaration text uses the function-like macro {tx}", rel, line))
                continue
            if depth > 8:
                raise AnalysisError(f"macro expansion of {tx} does not terminate in the model")
            try:
                sub = self.ml.tokens(body)
            except ValueError:
                self.problems.append(("R-C19.4", f"untokenisable-macro:{tx}", f"{rel}:{line}: the body of macro {tx} (`{body}`) has no tokenisation", rel, line))
                continue
            saved = self.macros.pop(tx)
            out += self._expand(sub, rel, line, depth + 1)
            self.macros[tx] = saved
        return out

    def _declaration(self, toks, rel, line, cond):
        self.decls += 1
        types = []
        for ty, tx in toks:
            if ty == "ID" and tx in self.typedefs:
                ok = [d for d in self.typedefs[tx] if _implies(cond, d[2])]
                if ok:
                    ty = "TYPEID"
                else:
                    d = self.typedefs[tx][0]
                    self.problems.append(("R-C19.4", f"conditional-type:{tx}:{rel}", f"{rel}:{line}: `{tx}` is used as a type unconditionally but is declared only under `{' && '.join(e if p else '!(' + e + ')' for e, p in d[2])}` ({d[0]}:{d[1]}): "
                                          "in a configuration where that condition is false the declaration does not parse", rel, line))
                    ty = "TYPEID"
            types.append(ty)
        text = " ".join(t[1] for t in toks)
        if not self.accepts(types):
            # is it an undeclared type name?  (identifier where only a type can stand)
            culprit = None
            for i, (ty, tx) in enumerate(toks):
                if ty == "ID" and types[i] == "ID":
                    alt = list(types)
                    alt[i] = "TYPEID"
                    if self.accepts(alt):
                        culprit = tx
                        break
            if culprit:
                self.problems.append(("R-C19.4", f"undeclared-type:{culprit}:{rel}", f"{rel}:{line}: `{text[:80]}` uses `{culprit}` as a type name before any header in its own include closure declares it "
                                      "(the grammar model accepts the declaration only with that identifier classified as a type)", rel, line))
            else:
                self.problems.append(("R-C19.4", f"rejected:{rel}:{text[:50]}", f"{rel}:{line}: the grammar model extracted from the parser rejects `{text[:80]}` (token types: {' '.join(types)[:120]})", rel, line))
            return
        if toks[0][0] == "TYPEDEF" and not (set(types) & TYPE_TOKENS):
            self.problems.append(("R-C19.4", f"typedef-without-type:{rel}:{text[:40]}", f"{rel}:{line}: `{text[:80]}` has no type specifier (the parser rejects it with 'Missing type in declaration')", rel, line))
            return
        if toks[0][0] == "TYPEDEF":
            names = _declared_names([(types[i], toks[i][1]) for i in range(len(toks))])
            if not names:
                # re-declaration: the name is already a type name; the declared name is the last TYPEID before ';'
                cands = [toks[i][1] for i in range(len(toks)) if types[i] == "TYPEID"]
                names = cands[-1:]
            for n in names:
                self.typedefs.setdefault(n, []).append((rel, line, cond))


def check(ctx):
    rules = {
        "R-C19.1": "include closure under -I <fake_libc_include>", "R-C19.2": "idempotent inclusion (guards; no unguarded cycle)",
        "R-C19.3": "dialect independence of the header tree", "R-C19.4": "each header alone: complete declarations accepted by the extracted grammar model, types declared before use",
        "R-C19.5": "order independence (no cross-file macro capture; duplicates are legal re-declarations)", "R-C19.6": "every declared type name is usable in every dialect",
        "R-C19.7": "cpp argument assembly (string = one argument, list = element by element, file name last)", "R-C19.8": "parse_file(use_cpp=True) = parser.parse(preprocess_file(...), filename)"}
    for r, t in rules.items():
        ctx.rule(r, t)
    fs = H.files()
    ctx.unit("header files", len(fs))
    if len(fs) < 100:
        raise AnalysisError(f"only {len(fs)} fake headers found; the tree the property quantifies over has 129")
    for anchor in ("_fake_typedefs.h", "_fake_defines.h"):
        if anchor not in fs:
            raise AnalysisError(f"anchor {anchor} vanished")

    # ---- R-C19.1 ------------------------------------------------------------------
    for rel, f in sorted(fs.items()):
        for it in f.items:
            if it.kind == "include" and it.a != "computed":
                tgt = H.resolve(rel, it.a, it.b, fs)
                ctx.oblige("R-C19.1", f"{rel}:{it.b}", tgt is not None, nontrivial=True, sample={"rule": "R-C19.1", "file": rel, "include": it.b, "resolves to": tgt} if rel in ("X11/Xlib.h", "sys/types.h") else None)
                if tgt is None:
                    ctx.violation("R-C19.1", f"unresolved:{rel}:{it.b}", f"{rel}:{it.line}: #include of `{it.b}` names no file shipped in utils/fake_libc_include (searched: the including directory, then the -I directory): cpp fails for every file that includes {rel}",
                                  file="utils/fake_libc_include/" + rel, line=it.line, construct=f"#include {it.b}")
    ctx.require_instances("R-C19.1", 240)

    # ---- R-C19.2 / R-C19.3 -----------------------------------------------------------
    # object-like macros that some header defines with an EMPTY replacement (include guards mostly): inside an #if expression such a name
    # expands to nothing - `#if !G` becomes `#if !`, which cpp rejects ("operator '!' has no right operand") as soon as the definition is in force,
    # i.e. on the second inclusion or after another header that defines it
    import re as _re
    empty_macros = {}
    for rel0, f0 in fs.items():
        for it0 in f0.items:
            if it0.kind == "define" and it0.b is None and not (it0.c or "").strip():
                empty_macros.setdefault(it0.a, []).append((rel0, it0.line))
    for rel, f in sorted(fs.items()):
        for ln, d, expr in f.conds:
            if d not in ("if", "elif"):
                continue
            bare = _re.sub(r"defined\s*(\(\s*[A-Za-z_$][A-Za-z0-9_$]*\s*\)|[A-Za-z_$][A-Za-z0-9_$]*)", " 0 ", expr)
            used = sorted(set(H.IDENT.findall(bare)) & set(empty_macros))
            ctx.oblige("R-C19.2", f"{rel}:{ln}: #{d} expression stays well-formed under every macro definition of the tree", not used, sample={"rule": "R-C19.2", "file": rel, "conditional": f"#{d} {expr}", "macros with an empty body used as operands": used})
            for mname in used:
                where = empty_macros[mname][0]
                ctx.violation("R-C19.2", f"if-empty-macro:{rel}:{mname}", f"{rel}:{ln}: `#{d} {expr}` uses `{mname}` as an operand, and {where[0]}:{where[1]} defines it with an empty body: once that definition is in force "
                              f"(second inclusion of the file, or after the other header) the expression is `#{d} {bare.replace(mname, '').strip()}` and cpp stops with an error", file="utils/fake_libc_include/" + rel, line=ln, construct=f"#{d} {expr}")
    for rel, f in sorted(fs.items()):
        has_text = any(it.kind == "text" for it in f.items)
        ok = (not has_text) or f.guard is not None
        ctx.oblige("R-C19.2", rel, ok, nontrivial=has_text, sample={"rule": "R-C19.2", "file": rel, "guard": f.guard} if has_text else None)
        if not ok:
            ctx.violation("R-C19.2", f"unguarded-declarations:{rel}", f"{rel} contains declarations but is not wrapped in an include guard: including it twice (directly and through another header, in any order) repeats its declarations",
                          file="utils/fake_libc_include/" + rel)
        for ln, d, expr in f.conds:
            ms = H.cond_macros(expr)
            bad = ms & DIALECT_MACROS
            ctx.oblige("R-C19.3", f"{rel}:{d} {expr}", not bad, sample={"rule": "R-C19.3", "file": rel, "conditional": f"#{d} {expr}", "macros": sorted(ms), "dialect dependent": sorted(bad)})
            if bad:
                ctx.violation("R-C19.3", f"dialect-conditional:{rel}:{','.join(sorted(bad))}", f"{rel}:{ln}: `#{d} {expr}` tests {sorted(bad)}, whose value depends on the -std= dialect: the header declares different things under c99 / c11 / gnu99 / gnu11",
                              file="utils/fake_libc_include/" + rel, line=ln, construct=f"#{d} {expr}")
        for it in f.items:
            if it.kind == "other":
                ok = it.a in KNOWN_DIRECTIVES
                ctx.oblige("R-C19.3", f"{rel}:#{it.a}", ok)
                if not ok:
                    ctx.violation("R-C19.3", f"directive:{rel}:{it.a}", f"{rel}:{it.line}: `#{it.a} {it.b}` - {'cpp stops with an error here' if it.a == 'error' else 'directive with an effect the analysis does not model (not one of include/define/undef/conditionals/pragma)'}",
                                  file="utils/fake_libc_include/" + rel, line=it.line, construct=f"#{it.a} {it.b}")
            if it.kind in ("text", "define"):
                words = set(H.IDENT.findall(it.a if it.kind == "text" else (it.a + " " + (it.c or ""))))
                bad = words & GNU_ONLY
                ctx.oblige("R-C19.3", f"{rel}:{it.line}:gnu-only", not bad, nontrivial=False)
                if bad:
                    ctx.violation("R-C19.3", f"gnu-predefined:{rel}:{','.join(sorted(bad))}", f"{rel}:{it.line}: the identifier {sorted(bad)} is predefined as the macro 1 by cpp in the GNU dialects only (-std=gnu99 / gnu11): the line means something else there",
                                  file="utils/fake_libc_include/" + rel, line=it.line, construct=(it.a if it.kind == "text" else it.a).strip()[:80])

    guards = {}
    for rel, f in sorted(fs.items()):
        if f.guard:
            guards.setdefault(f.guard, []).append(rel)
    for gname, rels in sorted(guards.items()):
        ok = len(rels) == 1
        ctx.oblige("R-C19.2", f"include guard {gname} belongs to one file", ok, nontrivial=True)
        if not ok:
            ctx.violation("R-C19.2", f"guard-collision:{gname}", f"the files {rels} use the same include guard macro {gname}: whichever is included first switches the others off (their declarations never appear)",
                          file="utils/fake_libc_include/" + rels[-1])
    # ---- R-C19.4 ---------------------------------------------------------------------
    ex, g = e1.get()
    rec = GR.Recognizer(g)
    ml = H.ModelLexer()
    wk = Walker(fs, ml, rec, ctx)
    all_typedefs = {}
    all_macros = {}
    reported = set()
    total_decls = 0
    for rel in sorted(fs):
        w = wk.run(rel)
        total_decls += w.decls
        ok = not [p for p in w.problems if p[0] == "R-C19.4"]
        ctx.oblige("R-C19.4", f"entry {rel}", ok, nontrivial=True, sample={"rule": "R-C19.4", "entry header": rel, "declarations recognised": w.decls, "type names declared": len(w.typedefs), "macros": len(w.macros)} if rel in ("stdio.h", "zlib.h", "X11/Xlib.h", "_fake_typedefs.h") else None)
        for p in w.problems:
            if (p[0], p[1]) in reported:
                continue
            reported.add((p[0], p[1]))
            ctx.violation(p[0], p[1], p[2], file="utils/fake_libc_include/" + p[3], line=p[4])
        for n, ds in w.typedefs.items():
            for d in ds:
                all_typedefs.setdefault(n, set()).add(d)
        for n, m in w.macros.items():
            all_macros.setdefault(n, set()).add((m[2], tuple(m[0]) if m[0] is not None else None, m[1]))
    # every header that pulls in the central typedef list makes ALL of its names available
    central = set(wk.run("_fake_typedefs.h").typedefs)
    reach = {}

    def reaches(rel, seen=()):
        if rel in reach:
            return reach[rel]
        r = rel == "_fake_typedefs.h"
        if not r and rel not in seen:
            for it in fs[rel].items:
                if it.kind == "include" and it.a != "computed":
                    tgt = H.resolve(rel, it.a, it.b, fs)
                    if tgt and reaches(tgt, seen + (rel,)):
                        r = True
        reach[rel] = r
        return r
    for rel in sorted(fs):
        internal = os.path.basename(rel).startswith("_")      # building blocks (_fake_defines.h, X11/_X11_fake_typedefs.h ...): not headers a program includes
        if not reaches(rel) and not internal:
            ctx.oblige("R-C19.6", f"{rel} pulls in the central type names", False, nontrivial=True)
            ctx.violation("R-C19.6", f"no-central-typedefs:{rel}", f"{rel} does not include _fake_typedefs.h (directly or through another header): a file that includes only <{rel}> preprocesses and parses, but none of the "
                          f"{len(central)} type names the fake headers define (size_t, uint32_t, FILE ...) is usable afterwards", file="utils/fake_libc_include/" + rel)
        if reaches(rel):
            got = set(wk.run(rel).typedefs)
            missing = sorted(central - got)
            ctx.oblige("R-C19.6", f"{rel} provides the central type names", not missing, nontrivial=True)
            if missing:
                ctx.violation("R-C19.6", f"typedefs-switched-off:{rel}", f"{rel} includes _fake_typedefs.h but after it {len(missing)} of its type names are not declared (e.g. {missing[:3]}): something before the include (a guard macro, a conditional) switches the list off",
                              file="utils/fake_libc_include/" + rel)
    ctx.unit("declarations recognised by the grammar model (over all entry headers)", total_decls)
    if len(all_typedefs) < 150:
        raise AnalysisError(f"only {len(all_typedefs)} typedef names extracted from the fake headers (confirmed by reading: > 250)")

    # ---- R-C19.4 on sequences: every ordered pair (thorough: every permutation) of the headers with distinct content -----------
    import hashlib
    import itertools
    classes = {}
    for rel in sorted(fs):
        with open(os.path.join(H.ROOT, rel), "rb") as fh:
            classes.setdefault(hashlib.sha1(fh.read()).hexdigest(), []).append(rel)
    reps = sorted(v[0] for v in classes.values())
    # files with identical bytes in the same directory level behave identically; one representative per (content, directory) class
    reps = sorted({(os.path.dirname(r), h): r for h, v in classes.items() for r in v}.values())
    ctx.unit("content/directory classes of headers", len(reps))
    seqs = itertools.permutations(reps, 2)
    if ctx.tier != "quick":
        nontrivial = sorted(v[0] for v in classes.values() if len(v) <= 2)[:8]       # the files that are not the two-include stub
        seqs = itertools.chain(seqs, itertools.permutations(reps, 3), itertools.permutations(nontrivial))
    nseq = 0
    for seq in seqs:
        w = wk.run_seq(list(seq))
        nseq += 1
        probs = [p for p in w.problems if p[0] in ("R-C19.4", "R-C19.2")]
        ctx.oblige("R-C19.4", "sequence " + " ".join(seq), not probs, nontrivial=True, sample={"rule": "R-C19.4", "include order": list(seq), "declarations": w.decls, "verdict": "accepted"} if nseq % 97 == 1 else None)
        for p in probs:
            key = p[1] + ":after:" + seq[0]
            if (p[0], p[1]) in reported or (p[0], key) in reported:
                continue
            reported.add((p[0], key))
            ctx.violation(p[0], key, p[2] + f" (include order: {' '.join(seq)})", file="utils/fake_libc_include/" + p[3], line=p[4])
    ctx.unit("include sequences analysed", nseq)

    # ---- R-C19.5 ---------------------------------------------------------------------
    # (a) a macro of file A names an identifier of declaration text in file B, and B's own closure does not define it first
    text_ids = {}
    for rel, f in fs.items():
        for it in f.items:
            if it.kind == "text":
                for w_ in set(H.IDENT.findall(it.a)):
                    text_ids.setdefault(w_, set()).add(rel)
    closure_macros = {}
    for rel in fs:
        w = wk.run(rel)
        closure_macros[rel] = set(w.macros)
    n5 = 0
    for name, defs in sorted(all_macros.items()):
        for rel in sorted(text_ids.get(name, ())):
            n5 += 1
            ok = name in closure_macros[rel]
            ctx.oblige("R-C19.5", f"macro {name} vs text of {rel}", ok)
            if not ok:
                src = sorted(d[0] for d in defs)
                ctx.violation("R-C19.5", f"macro-capture:{name}:{rel}", f"the macro `{name}` defined in {src} rewrites the identifier `{name}` in the declarations of {rel} only when {src[0]} happens to be included first: the meaning of {rel} depends on include order",
                              file="utils/fake_libc_include/" + rel)
    for name in sorted(all_macros):
        ctx.oblige("R-C19.5", f"macro {name}: no capture of declaration text", True, nontrivial=False)
    # (b) duplicates: re-declaration must be legal for the parser model
    for n, ds in sorted(all_typedefs.items()):
        places = {(d[0], d[1]) for d in ds}
        if len(places) > 1:
            ok = rec.accepts(TOP, ("TYPEDEF", "INT", "TYPEID", "SEMI"))
            ctx.oblige("R-C19.5", f"type name {n} declared at {sorted(places)}", ok)
            if not ok:
                ctx.violation("R-C19.5", f"duplicate-type:{n}", f"`{n}` is declared at {sorted(places)}; the grammar model does not accept the re-declaration of a type name")

    # ---- R-C19.6 ---------------------------------------------------------------------
    for n, ds in sorted(all_typedefs.items()):
        conds = {d[2] for d in ds}
        dial = set()
        for c in conds:
            for e, p in c:
                dial |= H.cond_macros(e) & DIALECT_MACROS
        hidden = n in all_macros
        ok = not dial and not hidden
        ctx.oblige("R-C19.6", f"type name {n}", ok, nontrivial=True, sample={"rule": "R-C19.6", "type name": n, "declared at": sorted((d[0], d[1]) for d in ds)[:2], "verdict": "usable in every dialect"} if n in ("size_t", "FILE", "uInt", "Window", "atomic_int") else None)
        if hidden:
            ctx.violation("R-C19.6", f"hidden-by-macro:{n}", f"the type name `{n}` is also a macro ({sorted(all_macros[n])[0][0]}): after the headers are included the name no longer denotes the type")
    ctx.require_instances("R-C19.6", 150)

    # ---- R-C19.7 / R-C19.8 -------------------------------------------------------------
    _check_pipeline(ctx)
    ctx.info["explanation"] = ("the header tree is analysed as a preprocessor program (include graph, guards, presence conditions, macro tables); its declarations are tokenised with the tokeniser model and recognised with the grammar model "
                               "extracted from the parser source, with identifiers classified by the type names declared so far; the cpp command line is derived by symbolic evaluation of preprocess_file")
    ctx.assumptions += ["cpp itself (macro expansion, search order, predefined macros per dialect) behaves as documented in the GCC manual; cpp is never run by the check",
                        "semantic predicates of the parser are free choices in the grammar model: acceptance by the model is necessary, not sufficient, for acceptance by the parser",
                        "NOT decided: the run-time result of parse_file on concrete files, equality with a by-hand pipeline at run time"]
    ctx.trusted += ["DIALECT_MACROS / GNU_ONLY tables (GCC manual)", "E1 grammar model", "E2 tokeniser model"]


# -------------------------------------------------------------------------------------------------------------------
def _check_pipeline(ctx):
    mod = S.module("__init__")
    pf = mod.function("preprocess_file")
    params = [a.arg for a in pf.args.args]
    if params[:3] != ["filename", "cpp_path", "cpp_args"]:
        raise AnalysisError(f"preprocess_file parameters changed: {params}")
    SPAWN = ("check_output", "run", "Popen", "call", "check_call", "system", "popen")
    # nothing in this module remembers results across calls: cpp runs (and the file is read) every time
    for fname, f_ in sorted(mod.functions.items()):
        memo = [S.unparse(d) for d in f_.decorator_list if any(w in S.unparse(d) for w in ("cache", "memo"))]
        ctx.oblige("R-C19.8", f"{fname} is not memoised", not memo, nontrivial=bool(f_.decorator_list))
        if memo:
            ctx.violation("R-C19.8", f"memoised:{fname}", f"pycparser.{fname} is decorated with {memo}: a second parse_file / preprocess_file call with the same arguments returns the remembered cpp output even though the file (or a header) has changed - "
                          "not what preprocessing and parsing by hand give", file=mod.rel, function=fname, line=f_.lineno)
    calls = [n for n in ast.walk(pf) if isinstance(n, ast.Call) and S.unparse(n.func).split(".")[-1] in SPAWN]
    if not calls:
        # the spawn may sit in a module-level helper called from preprocess_file with the command as its argument
        for c in ast.walk(pf):
            if isinstance(c, ast.Call) and isinstance(c.func, ast.Name) and c.func.id in mod.functions and c.args:
                inner = [n for n in ast.walk(mod.functions[c.func.id]) if isinstance(n, ast.Call) and S.unparse(n.func).split(".")[-1] in SPAWN]
                if len(inner) == 1:
                    raise AnalysisError(f"preprocess_file runs cpp through the helper {c.func.id}(): the command-line assembly is not followed across the call (idiom changed)")
    if len(calls) != 1 or not calls[0].args:
        raise AnalysisError("preprocess_file: expected exactly one process-spawning call with a positional command")
    call = calls[0]
    kw = {k.arg: S.unparse(k.value) for k in call.keywords}
    ok = kw.get("shell", "False") == "False"
    ctx.oblige("R-C19.7", "the command is run without a shell", ok)
    if not ok:
        ctx.violation("R-C19.7", "shell", "preprocess_file runs cpp through a shell: the string form of cpp_args is word-split and quoted differently from the list form", file=mod.rel, function="preprocess_file", line=call.lineno)
    ok = kw.get("universal_newlines") == "True" or kw.get("text") == "True"
    ctx.oblige("R-C19.7", "the output is decoded to text", ok)
    if not ok:
        ctx.violation("R-C19.7", "bytes-output", "preprocess_file returns bytes (neither universal_newlines=True nor text=True): parse() receives a non-str", file=mod.rel, function="preprocess_file", line=call.lineno)
    # symbolic evaluation of the command list along every path
    cmd = call.args[0]
    if not isinstance(cmd, ast.Name):
        raise AnalysisError("preprocess_file: the command is not a local variable (argument assembly idiom changed)")
    paths = _eval_paths(pf, call, cmd.id)
    want = {"list": ("P:cpp_path", "*P:cpp_args", "P:filename"), "str": ("P:cpp_path", "P:cpp_args", "P:filename"), "empty": ("P:cpp_path", "P:filename")}
    seen = {}
    for facts, seq in paths:
        for kind in _kinds(facts):
            seen.setdefault(kind, set()).add(tuple(seq))
    for kind, exp in want.items():
        got = seen.get(kind, set())
        ok = got == {exp}
        ctx.oblige("R-C19.7", f"cpp_args is {kind}", ok, sample={"rule": "R-C19.7", "cpp_args form": kind, "command": sorted(got), "expected": exp})
        if not ok:
            ctx.violation("R-C19.7", f"command:{kind}:{sorted(got)}", f"when cpp_args is {'a list' if kind == 'list' else 'a non-empty string' if kind == 'str' else 'the empty string'} preprocess_file runs {sorted(got)} instead of {list(exp)} "
                          "(string form = exactly one argument, unchanged; list form = its elements in order; the file name last)", file=mod.rel, function="preprocess_file", line=call.lineno, construct=S.unparse(call)[:100])
    # ---- R-C19.8
    pfile = mod.function("parse_file")
    pp = [a.arg for a in pfile.args.args]
    for need in ("filename", "use_cpp", "cpp_path", "cpp_args", "parser"):
        if need not in pp:
            raise AnalysisError(f"parse_file lost its parameter {need}")
    pcalls = [n for n in ast.walk(pfile) if isinstance(n, ast.Call) and S.unparse(n.func) == "preprocess_file"]
    ok = len(pcalls) == 1
    if ok:
        c = pcalls[0]
        bound = {}
        for i, a in enumerate(c.args):
            bound[params[i]] = S.unparse(a)
        for k in c.keywords:
            bound[k.arg] = S.unparse(k.value)
        ok = bound == {"filename": "filename", "cpp_path": "cpp_path", "cpp_args": "cpp_args"}
    ctx.oblige("R-C19.8", "parse_file hands filename, cpp_path, cpp_args unchanged to preprocess_file", ok, sample={"rule": "R-C19.8", "call": S.unparse(pcalls[0]) if pcalls else None})
    if not ok:
        ctx.violation("R-C19.8", "preprocess-arguments", "parse_file does not pass (filename, cpp_path, cpp_args) unchanged to preprocess_file: parse_file(use_cpp=True) differs from preprocessing by hand", file=mod.rel, function="parse_file")
    # the call sits on the use_cpp branch and its result is what parse() gets
    rets = [n for n in ast.walk(pfile) if isinstance(n, ast.Return) and n.value is not None]
    ok = len(rets) == 1 and isinstance(rets[0].value, ast.Call) and S.unparse(rets[0].value.func) == "parser.parse" and [S.unparse(a) for a in rets[0].value.args] == ["text", "filename"] and not rets[0].value.keywords
    ctx.oblige("R-C19.8", "the result is parser.parse(text, filename)", ok)
    if not ok:
        ctx.violation("R-C19.8", "parse-call", f"parse_file does not return parser.parse(text, filename) (found: {[S.unparse(r) for r in rets]})", file=mod.rel, function="parse_file")
    ifs = [n for n in pfile.body if isinstance(n, ast.If) and S.unparse(n.test) == "use_cpp"]
    ok = len(ifs) == 1 and any(isinstance(s, ast.Assign) and S.unparse(s.targets[0]) == "text" and s.value in pcalls for s in ifs[0].body) and len(ifs[0].body) == 1
    ctx.oblige("R-C19.8", "with use_cpp the parsed text is exactly the cpp output", ok)
    if not ok:
        ctx.violation("R-C19.8", "text-provenance", "on the use_cpp path `text` is not exactly the result of preprocess_file(...)", file=mod.rel, function="parse_file")
    # text is not rebound between the branch and the parse call
    rebinds = [n for n in ast.walk(pfile) if isinstance(n, (ast.Assign, ast.AugAssign)) and any(S.unparse(t) == "text" for t in (n.targets if isinstance(n, ast.Assign) else [n.target]))]
    ok = len(rebinds) == 2
    ctx.oblige("R-C19.8", "text is bound once per branch", ok)
    if not ok:
        ctx.violation("R-C19.8", "text-rebound", "parse_file transforms the text between preprocessing and parsing", file=mod.rel, function="parse_file")
    # the parameters reach preprocess_file / parse() as given: none of them is re-bound on the way
    rebound = sorted({t.id for n in ast.walk(pfile) if isinstance(n, (ast.Assign, ast.AugAssign, ast.AnnAssign, ast.NamedExpr))
                      for t in (n.targets if isinstance(n, ast.Assign) else [n.target]) for t in ([t] if isinstance(t, ast.Name) else [e for e in ast.walk(t) if isinstance(e, ast.Name) and isinstance(e.ctx, ast.Store)])
                      if t.id in ("filename", "cpp_path", "cpp_args", "use_cpp", "encoding")})
    ok = not rebound
    ctx.oblige("R-C19.8", "filename / cpp_path / cpp_args are passed on as given", ok)
    if not ok:
        ctx.violation("R-C19.8", f"param-rebound:{','.join(rebound)}", f"parse_file re-binds its parameter(s) {rebound} before handing them to cpp / the parser: the file name recorded in coordinates and line markers (or the cpp command) differs from what "
                      "preprocess_file + CParser().parse(text, filename) by hand produce", file=mod.rel, function="parse_file")
    dflt = [n for n in pfile.body if isinstance(n, ast.If) and S.unparse(n.test) in ("parser is None", "not parser")]
    ok = len(dflt) == 1 and [S.unparse(s) for s in dflt[0].body] == ["parser = CParser()"]
    ctx.oblige("R-C19.8", "default parser is a fresh CParser()", ok)
    if not ok:
        ctx.violation("R-C19.8", "default-parser", "parse_file's default parser is not a fresh CParser()", file=mod.rel, function="parse_file")


def _kinds(facts):
    """which argument forms ('list', 'str', 'empty') are consistent with the branch facts of a path"""
    out = []
    for kind in ("list", "str", "empty"):
        ok = True
        for f, pol in facts:
            if f == "isinstance(cpp_args, list)":
                v = kind == "list"
            elif f == "isinstance(cpp_args, str)":
                v = kind != "list"
            elif f in ("cpp_args != ''", "cpp_args"):
                v = kind != "empty"     # a list is != '' (an empty list is falsy for the bare-name test; conservatively treated as non-empty)
            elif f in ("cpp_args == ''", "not cpp_args"):
                v = kind == "empty"
            else:
                raise AnalysisError(f"preprocess_file: branch condition `{f}` is not in the argument-form vocabulary of the analysis")
            if v != pol:
                ok = False
        if ok:
            out.append(kind)
    return out


def _eval_paths(fn, call, var):
    """All paths from entry to `call`: (branch facts, abstract value of `var`) with elements 'P:<param>', '*P:<param>' (spread) or 'E:<text>'."""
    params = {a.arg for a in fn.args.args}
    results = []

    def elems(e, env):
        """abstract element sequence of a list-valued expression"""
        if isinstance(e, ast.List):
            out = []
            for x in e.elts:
                if isinstance(x, ast.Starred):
                    out += spread(x.value, env)
                else:
                    out.append(atom(x, env))
            return out
        if isinstance(e, ast.Name) and e.id in env and isinstance(env[e.id], list):
            return list(env[e.id])
        if isinstance(e, ast.BinOp) and isinstance(e.op, ast.Add):
            return elems(e.left, env) + elems(e.right, env)
        return spread(e, env)

    def spread(e, env):
        if isinstance(e, ast.Name) and e.id in env and isinstance(env[e.id], list):
            return list(env[e.id])
        a = atom(e, env)
        return ["*" + a]

    def atom(e, env):
        if any(isinstance(n, (ast.IfExp, ast.BoolOp, ast.ListComp, ast.GeneratorExp)) for n in ast.walk(e)):
            raise AnalysisError(f"preprocess_file: `{S.unparse(e)[:60]}` in the command assembly is not modelled (conditional / comprehension expression)")
        if isinstance(e, ast.Name):
            if e.id in env:
                v = env[e.id]
                return v if isinstance(v, str) else "E:list"
            return "E:" + e.id
        return "E:" + S.unparse(e)

    def contains(node, target):
        return any(n is target for n in ast.walk(node))

    def run(stmts, env, facts, k):
        if not stmts:
            return k(env, facts)
        st, rest = stmts[0], stmts[1:]
        nxt = lambda e, f: run(rest, e, f, k)      # noqa: E731
        if contains(st, call) and not isinstance(st, (ast.If, ast.Try, ast.With)):
            v = env.get(var)
            results.append((facts, list(v) if isinstance(v, list) else ["E:" + str(v)]))
            return
        if isinstance(st, ast.Assign) and len(st.targets) == 1 and isinstance(st.targets[0], ast.Name):
            t = st.targets[0].id
            if isinstance(st.value, (ast.List, ast.BinOp)) or (isinstance(st.value, ast.Name) and isinstance(env.get(st.value.id), list)):
                env[t] = elems(st.value, env)
            else:
                env[t] = atom(st.value, env)
        elif isinstance(st, ast.AugAssign) and isinstance(st.target, ast.Name) and isinstance(st.op, ast.Add):
            t = st.target.id
            cur = env.get(t)
            if not isinstance(cur, list):
                raise AnalysisError("preprocess_file: += on a non-list in the command assembly")
            env[t] = cur + elems(st.value, env)
        elif isinstance(st, ast.Expr) and isinstance(st.value, ast.Call) and isinstance(st.value.func, ast.Attribute) and isinstance(st.value.func.value, ast.Name) and isinstance(env.get(st.value.func.value.id), list):
            t = st.value.func.value.id
            m = st.value.func.attr
            if m == "append" and len(st.value.args) == 1:
                env[t] = env[t] + [atom(st.value.args[0], env)]
            elif m == "extend" and len(st.value.args) == 1:
                env[t] = env[t] + elems(st.value.args[0], env)
            else:
                raise AnalysisError(f"preprocess_file: list.{m} in the command assembly is not modelled")
        elif isinstance(st, ast.If):
            f = S.unparse(st.test).replace('"', "'")
            run(list(st.body), dict(env), facts + ((f, True),), nxt)
            run(list(st.orelse), dict(env), facts + ((f, False),), nxt)
            return
        elif isinstance(st, (ast.Try, ast.With)):
            run(list(st.body), env, facts, nxt)
            return
        elif isinstance(st, (ast.Return, ast.Raise)):
            return
        elif isinstance(st, (ast.Expr, ast.Pass)):
            pass
        elif any(isinstance(n, ast.Name) and n.id == var for n in ast.walk(st)):
            raise AnalysisError(f"preprocess_file: statement `{S.unparse(st)[:60]}` touches the command and is not modelled")
        return nxt(env, facts)

    env0 = {p: "P:" + p for p in params}
    run(list(fn.body), env0, (), lambda e, f: None)
    if not results:
        raise AnalysisError("preprocess_file: no path reaches the process call")
    return results
