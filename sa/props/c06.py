"""C06 - parse() either returns a FileAST or raises ParseError, nothing else.

Exception-escape analysis over everything reachable from CParser.parse:
explicit raises, asserts, partial operations, message prefixes, termination.
"""
from __future__ import annotations

import ast

from .. import callgraph as CG
from .. import e1
from .. import lexmodel as LM
from .. import srcmodel as S
from ..core import AnalysisError, norm

LEVEL = "other"

# --- frozen discharge tables: one named construct each, with the argument confirmed by reading ----------------
ASSERT_ARGUMENTS = {
    ("CParser._build_declarations", "$(each @2)['decl'] is not None"):
        "decls[0]['decl'] is None only with bitsize None, and that case is either rejected through _parse_error or replaced by a TypeDecl just above; "
        "every other declarator comes from _parse_declarator/_parse_id_declarator (never None) or is a TypeDecl placeholder",
    ("CParser._parse_abstract_declarator_opt", "$(self._parse_pointer()) is not None"):
        "_parse_pointer returns None only when it accepted no '*'; it is called here under look-ahead TIMES (checked automatically: entry fact of _parse_pointer)",
    ("CParser._parse_direct_abstract_declarator", "$(c_ast.FuncDecl(args=$, type=c_ast.TypeDecl(declname=None, quals=None, align=None, type=None), coord=self._tok_coord(tok=$)) | self._parse_abstract_declarator_opt()) is not None"):
        "_parse_abstract_declarator_opt returns None only when the next token is none of * ( [; the branch is entered with a token that is not ')' "
        "either, so the following _expect('RPAREN') has already raised ParseError before the assert is reached",
    ("CLexer._match_token", "$(_regex_master.match($, $)).lastgroup is not None"):
        "every alternative of the master regex is a named group (checked automatically when the tokeniser model is built)",
    ("CLexer._match_token", "$($[4] | _regex_actions[$][1] | f'Invalid char constant {$}') is not None"):
        "every ERROR rule carries a message except BAD_CHAR_CONST, for which the line above builds one (rule table checked by R-C10.2)",
    ("_fix_atomic_specifiers_once", "isinstance($($ | @0), c_ast.TypeDecl)"):
        "a Typename carrying _Atomic is produced only by _parse_atomic_specifier and reaches a declaration only as a type specifier, which "
        "_fix_decl_name_type stores in TypeDecl.type; so its parent in the .type chain is a TypeDecl",
    ("_fix_atomic_specifiers_once", "$($ | None) is not None"):
        "the search starts at decl.type with parent = decl; a Typename found at the first step would need decl.type to be that Typename, but "
        "_build_declarations always wraps specifiers in a TypeDecl chain, so at least one step has been taken",
}


def _prev_stmt_is(call_text):
    def chk(stmt, fn):
        par = getattr(stmt, "_parent", None)
        for field in ("body", "orelse"):
            b = getattr(par, field, None)
            if isinstance(b, list):
                for i, x in enumerate(b):
                    if x is stmt:
                        return i > 0 and isinstance(b[i - 1], ast.Expr) and norm(S.unparse(b[i - 1].value)).replace('"', "'") == call_text
        return False
    return chk


# recorded assert arguments that rest on a structural fact: the fact is re-checked on every run
ASSERT_PRECONDITIONS = {
    ("CParser._parse_direct_abstract_declarator", "$(c_ast.FuncDecl(args=$, type=c_ast.TypeDecl(declname=None, quals=None, align=None, type=None), coord=self._tok_coord(tok=$)) | self._parse_abstract_declarator_opt()) is not None"):
        (_prev_stmt_is("self._expect('RPAREN')"), "the statement just before the assert is self._expect('RPAREN')"),
}
# constant-index subscripts / other partial operations, keyed by (function, alpha-normalised expression)
PARTIAL_ARGUMENTS = {
    ("CParser._build_declarations", "@2[0]"): "callers pass a literal one-element list or the non-empty result of a declarator-list production",
    ("CParser._build_declarations", "@1['type'][-1]"): "guarded by len(spec['type']) < 2 in the same or-chain / reached only after that guard raised otherwise",
    ("CParser._build_function_definition", "self._build_declarations(spec=@1, decls=[dict(decl=@2, init=None, bitsize=None)], typedef_namespace=True)[0]"): "one declaration is built per element of the one-element decls list",
    ("CParser._parse_parameter_declaration", "self._build_declarations(spec=$(self._parse_declaration_specifiers(allow_no_type=True)[0]), decls=[dict(decl=$(self._parse_any_declarator(allow_abstract=True, typeid_paren_as_abstract=True)[0]), init=None, bitsize=None)])[0]"): "one declaration per element of the one-element decls list",
    ("CParser._build_parameter_declaration", "self._build_declarations(spec=@1, decls=[dict(decl=@2, init=None, bitsize=None)])[0]"): "one declaration per element of the one-element decls list",
    ("CParser._build_parameter_declaration", "@1['type'][-1]"): "guarded by len(spec['type']) > 1 earlier in the same and-chain",
    ("CParser._fix_decl_name_type", "@2[0]"): "else-branch of `if not typename`",
    ("CParser._parse_decl_body_with_spec", "@1['type'][0]"): "guarded by len(ty) == 1 in the same and-chain / if",
    ("CParser._parse_pragmacomp_or_statement", "$(self._parse_pppragma_directive_list()[0])"): "_parse_pppragma_directive_list is entered under look-ahead PPPRAGMA/_PRAGMA and its loop runs at least once",
    ("CParser._parse_initializer_list", "$([self._parse_initializer_item()][0])"): "items is built as a one-element list display",
    ("CParser._parse_initializer_item", "$(None | self._parse_designation())[0]"): "inside `if designation is not None`; _parse_designation is entered under look-ahead LBRACKET/PERIOD and the loop of _parse_designator_list therefore runs at least once",
    ("CParser._parse_constant", "$(self._advance()).value[-1]"): "no token language contains the empty string (R-C09.5)",
    ("_extract_nested_case", "@0.stmts[0]"): "Case/Default nodes are built by _parse_labeled_statement with a one-element statement list and only grow",
    ("fix_switch_cases", "$(c_ast.Compound(block_items=[], coord=switch_node.stmt.coord)).block_items[-1]"): "read immediately after appending `child` to the same list",
    ("_TokenStream.peek", "self._buffer[self._index + k - 1]"): "_fill(k) has just extended the buffer to at least _index + k entries or appended the end-of-input marker, and k >= 1",
    ("_TokenStream.next", "self._buffer[self._index]"): "_fill(1) has just made sure the entry exists",
    ("CLexer.token", "self._lexdata[self._pos]"): "inside `while self._pos < n`",
    ("CLexer._match_token", "self._lexdata[self._pos]"): "called from token() only while _pos < len(text)",
    ("CLexer._match_token", "$(($, $, $, $, $) | ($, $.tok_type, $.literal, _RegexAction.TOKEN, None) | None)[0]"): "right operand of `best is None or ...`",
    ("CLexer._match_token", "_regex_actions[$(_regex_master.match($, $)).lastgroup]"): "tok_type is the name of a master-regex group and the table is built from the same rule list (checked when the model is built)",
}
PARTIAL_ARGUMENTS.update({
    ("CParser._add_typedef_name", "self._scope_stack[-1]"): "the scope stack is never empty: parse() starts it with one scope, _push_scope appends, _pop_scope refuses to pop the last one",
    ("CParser._add_identifier", "self._scope_stack[-1]"): "the scope stack is never empty (see _add_typedef_name)",
    ("CParser._build_declarations", "@1['type'][-1].names[0]"): "after the or-chain `len(spec['type'][-1].names) != 1` raised otherwise; at the abstract-declarator site reached only from _build_parameter_declaration, which tested len(...names) == 1",
    ("CParser._build_parameter_declaration", "@1['type'][-1].names[0]"): "right operand of `len(spec['type'][-1].names) == 1 and ...`",
})
# entries whose argument only holds for one particular statement
PARTIAL_ONLY_IN = {
    ("fix_switch_cases", "$(c_ast.Compound(block_items=[], coord=switch_node.stmt.coord)).block_items[-1]"): {"_ = $(c_ast.Compound(block_items=[], coord=switch_node.stmt.coord)).block_items[-1]"},
    ("_extract_nested_case", "@0.stmts[0]"): {"if isinstance(@0.stmts[0], (c_ast.Case, c_ast.Default)): _ = @0.stmts.pop() @1.append($(@0.stmts.pop())) _extract_nested_case(cast(Any, $(@0.stmts.pop())), @1)"},
}
# attribute reads on specifier-list elements that rely on an invariant instead of a visible isinstance test
HETERO_ARGUMENTS = {}     # (the one former entry was wrong - defect D23, fixed by e17b02d - and is now a visible isinstance guard)
TYPE_LIST_NAMES = {"spec", "typename", "ty"}


def reachable_functions():
    """(module, qualname, fn) of every function that can run during CParser.parse."""
    out = []
    px, lx, tx = S.module("c_parser"), S.module("c_lexer"), S.module("ast_transforms")
    for cls in ("CParser", "_TokenStream"):
        for n, f in px.methods(cls).items():
            if n == "__init__" and cls == "CParser":
                continue
            out.append((px, f"{cls}.{n}", f))
    for n, f in lx.methods("CLexer").items():
        out.append((lx, f"CLexer.{n}", f))
    for n, f in tx.functions.items():
        out.append((tx, n, f))
    return out


import re as _re_c
_ITEM_TAG = _re_c.compile(r"item(\d+) of ")
_SUBSCRIPT_OUT = _re_c.compile(r"\$\(([^$|()]*(?:\([^$|()]*\))?[^$|()]*)\)((?:\[-?\d+\])+)")


class Canon:
    """Rename-invariant rendering of expressions of one function: every local variable is replaced by the provenance of its
    value (the right-hand sides bound to it, rendered the same way), parameters and attribute paths keep their names."""

    POSITIONAL = True

    def __init__(self, fn):
        self.fn = fn
        self.param_index = {a.arg: i for i, a in enumerate(fn.args.args)}
        self.params = {a.arg for a in fn.args.args + fn.args.kwonlyargs} | ({fn.args.vararg.arg} if fn.args.vararg else set()) | ({fn.args.kwarg.arg} if fn.args.kwarg else set())
        self.defs = {}
        self.def_nodes = {}
        self._at = None
        for n in ast.walk(fn):
            if isinstance(n, ast.Assign):
                for t in n.targets:
                    self._bind(t, n.value, "")
            elif isinstance(n, ast.AnnAssign) and n.value is not None:
                self._bind(n.target, n.value, "")
            elif isinstance(n, ast.NamedExpr):
                self._bind(n.target, n.value, "")
            elif isinstance(n, (ast.For, ast.comprehension)):
                self._bind(n.target, n.iter, "each ")
            elif isinstance(n, ast.With):
                for it in n.items:
                    if it.optional_vars is not None:
                        self._bind(it.optional_vars, it.context_expr, "with ")
            elif isinstance(n, ast.MatchAs) and n.name:
                self.defs.setdefault(n.name, []).append(("case", None))
                self.def_nodes.setdefault(n.name, []).append(n)
            elif isinstance(n, ast.ExceptHandler) and n.name:
                self.defs.setdefault(n.name, []).append(("except", None))
                self.def_nodes.setdefault(n.name, []).append(n)
        self._memo = {}
        cls = getattr(fn, "_parent", None)
        self.cls_methods = {m.name: m for m in cls.body if isinstance(m, ast.FunctionDef)} if isinstance(cls, ast.ClassDef) else {}

    def _bind(self, t, value, tag):
        if isinstance(t, ast.Name):
            if t.id not in self.params:
                self.defs.setdefault(t.id, []).append((tag, value))
                self.def_nodes.setdefault(t.id, []).append(t)
        elif isinstance(t, (ast.Tuple, ast.List)):
            for i, e in enumerate(t.elts):
                self._bind(e, value, f"{tag}item{i} of ")

    def prov(self, name, depth=0, stack=()):
        if name in self.params or name not in self.defs:
            return name
        if name in stack or depth > 0:
            return "$"          # one level of provenance: deeper locals are anonymous
        # only the bindings that can reach the use: those written before it, and those inside a loop that also contains the use (a later
        # re-binding of the variable - `tok_type = ...` further down - is no part of what the variable holds here)
        live = self._reaching(name)
        key = (name, depth, live)
        defs_ = [d for i, d in enumerate(self.defs[name]) if i in live]
        if key not in self._memo and all(tag == "" and v is not None and _is_path(v) for tag, v in defs_):
            # a local that merely names ONE path expression (x = spec["type"], possibly bound in several branches) is transparent:
            # hoisting or inlining it changes no key
            texts = {self._sub(v, depth, stack + (name,)) for _tag, v in defs_}
            if len(texts) == 1:
                self._memo[key] = texts.pop()
        if key not in self._memo:
            parts = set()
            for tag, v in defs_:
                mt = _ITEM_TAG.fullmatch(tag)
                if mt and v is not None:
                    # `a, b = f()` binds a to f()[0]: rendered like the subscript, so unpacking a tuple and indexing it read the same
                    parts.add(self._sub(v, depth + 1, stack + (name,)) + f"[{mt.group(1)}]")
                    continue
                parts.add(tag + (self._sub(v, depth + 1, stack + (name,)) if v is not None else ""))
            self._memo[key] = "$(" + " | ".join(sorted(parts)) + ")"
        return self._memo[key]

    def _reaching(self, name):
        nodes = self.def_nodes.get(name, [])
        at = self._at
        if at is None or len(nodes) != len(self.defs.get(name, [])):
            return frozenset(range(len(self.defs.get(name, []))))
        loops = []
        cur = at
        while cur is not None and cur is not self.fn:
            cur = getattr(cur, "_parent", None)
            if isinstance(cur, (ast.For, ast.While, ast.ListComp, ast.GeneratorExp, ast.SetComp, ast.DictComp)):
                loops.append(cur)
        pos = (getattr(at, "lineno", 0), getattr(at, "col_offset", 0))
        out = set()
        for i, dn in enumerate(nodes):
            dpos = (getattr(dn, "lineno", 0), getattr(dn, "col_offset", 0))
            if dpos <= pos or any(dn in list(ast.walk(lp)) for lp in loops) or not hasattr(dn, "lineno"):
                out.add(i)
        return frozenset(out) or frozenset(range(len(nodes)))

    def _sub(self, node, depth, stack):
        saved_at = self._at
        try:
            return self.text(node, depth, stack, _keep_at=True)
        finally:
            self._at = saved_at

    def text(self, node, depth=0, stack=(), _keep_at=False):
        if not _keep_at:
            self._at = node
        saved = []
        calls = []
        try:
            for n in ast.walk(node):
                if isinstance(n, ast.Call) and isinstance(n.func, ast.Attribute) and isinstance(n.func.value, ast.Name) and n.func.value.id == "self" and (n.args or n.keywords) and self.cls_methods.get(n.func.attr) is not None:
                    # calls of the class's own helpers read the same whether their arguments are passed by position or by keyword
                    m = self.cls_methods[n.func.attr]
                    names = [a.arg for a in m.args.args[1:]]
                    if len(n.args) <= len(names) and not any(isinstance(a, ast.Starred) for a in n.args) and all(k.arg is not None for k in n.keywords) and n.args:
                        calls.append((n, n.args, n.keywords))
                        kws = [ast.keyword(arg=p, value=a) for p, a in zip(names, n.args)] + n.keywords
                        n.keywords = kws
                        n.args = []
                if isinstance(n, ast.Call) and isinstance(n.func, ast.Attribute) and isinstance(n.func.value, ast.Name) and n.func.value.id == "c_ast":
                    # node constructors read the same whether their fields are passed by position or by keyword
                    names = _ctor_params().get(n.func.attr)
                    if names is not None and len(n.args) <= len(names) and not any(isinstance(a, ast.Starred) for a in n.args):
                        calls.append((n, n.args, n.keywords))
                        kws = [ast.keyword(arg=p, value=a) for p, a in zip(names, n.args)] + n.keywords
                        n.keywords = sorted(kws, key=lambda k: names.index(k.arg) if k.arg in names else len(names))
                        n.args = []
                if isinstance(n, ast.Name) and n.id in self.defs and n.id not in self.params:
                    saved.append((n, n.id))
                elif self.POSITIONAL and isinstance(n, ast.Name) and n.id in self.param_index and n.id != "self" and self.fn.name.startswith("_"):
                    saved.append((n, n.id))        # parameters of private helpers are named by position: renaming them changes no key
            repl = [(f"@{self.param_index[old]}" if old in self.param_index and old not in self.defs else "_" if isinstance(n.ctx, ast.Store) else self.prov(old, depth, stack)) for n, old in saved]
            for (n, _old), new in zip(saved, repl):
                n.id = new
            # `$(f())[0]` (a local naming the whole result, then indexed) reads like `$(f()[0])` (the element bound by unpacking)
            return _SUBSCRIPT_OUT.sub(lambda m_: "$(" + m_.group(1) + m_.group(2) + ")", norm(ast.unparse(node)))
        finally:
            for n, old in saved:
                n.id = old
            for n, a, k in calls:
                n.args, n.keywords = a, k


_CTOR = {}


def _ctor_params():
    """node class -> parameter names of its constructor (from c_ast.py)"""
    if not _CTOR:
        for name, c in S.module("c_ast").classes.items():
            for m in c.body:
                if isinstance(m, ast.FunctionDef) and m.name == "__init__":
                    _CTOR[name] = [a.arg for a in m.args.args[1:]]
    return _CTOR


def _is_path(e):
    """Name / attribute / constant-subscript chains (no calls): evaluating them again gives the same object"""
    while isinstance(e, (ast.Attribute, ast.Subscript)):
        if isinstance(e, ast.Subscript) and not isinstance(e.slice, (ast.Constant, ast.UnaryOp)):
            return False
        e = e.value
    return isinstance(e, ast.Name)


_canons = {}


def canon_of(fn) -> Canon:
    c = _canons.get(id(fn))
    if c is None or c.fn is not fn:
        c = _canons[id(fn)] = Canon(fn)
    return c


def alpha_norm(expr, fn=None):
    """whitespace-normalised text; with fn, local variable names are replaced by their provenance (rename-invariant keys)"""
    if fn is None:
        return norm(S.unparse(expr))
    return canon_of(fn).text(expr)


def check(ctx):
    ctx.rule("R-C06.1", "single error channel: every raise reachable from parse() builds ParseError in _parse_error or is proved dead")
    ctx.rule("R-C06.2", "every reachable assert is discharged (automatically by the grammar model / rule tables, or by a named argument)")
    ctx.rule("R-C06.3", "partial operations: no attribute access on a possibly-None value, no attribute outside the class set of a specifier list element, no unguarded constant-index subscript")
    ctx.rule("R-C06.4", "every error message is prefixed by a source location (coordinate built from a token / node, or the file name)")
    ctx.rule("R-C06.5", "termination: no left recursion, every loop iteration of every production consumes a token or exits")
    ex, g = e1.get()
    px = S.module("c_parser")
    funcs = reachable_functions()
    ctx.unit("reachable functions", len(funcs))

    def viol(rule, mod, q, node, key, msg):
        ctx.violation(rule, key, msg, file=mod.rel, function=q, line=getattr(node, "lineno", 0), construct=S.unparse(node)[:200] if node is not None else "")

    # ---- R-C06.1 -------------------------------------------------------------
    m = LM.LexModel()
    T = LM.TokAutomaton(m)
    from . import c10_typing
    _, _, escapes = c10_typing.analyse(m, T)
    escaping_lines = {node.lineno for _, _, node in escapes}
    for mod, q, fn in funcs:
        for n in ast.walk(fn):
            if not isinstance(n, ast.Raise):
                continue
            text = S.unparse(n)
            if q == "CParser._parse_error":
                ok = n.exc is not None and isinstance(n.exc, ast.Call) and S.unparse(n.exc.func) == "ParseError"
                ctx.oblige("R-C06.1", f"{q}: {text}", ok, sample={"rule": "R-C06.1", "function": q, "construct": text[:80], "verdict": "the error channel" if ok else "NOT ParseError"})
                if not ok:
                    viol("R-C06.1", mod, q, n, f"channel:{norm(text)[:60]}", "the error channel _parse_error must raise ParseError")
                continue
            why = None
            if n.exc is None:
                why = "re-raise inside a handler"   # still the same exception type: judged at its origin
                ok = True
            elif _is_exhaustive_default(n, mod):
                ok, why = True, "default case of a match that covers every member of the enumeration"
            elif q == "CParser._parse_constant":
                ok = n.lineno not in escaping_lines
                why = "unreachable for every spelling the lexer produces (finite abstract evaluation over E2's suffix windows)" if ok else None
            else:
                ok = isinstance(n.exc, ast.Call) and S.unparse(n.exc.func) == "ParseError"
                why = "raises ParseError directly" if ok else None
            ctx.oblige("R-C06.1", f"{q}: {text[:80]}", ok, sample={"rule": "R-C06.1", "function": q, "construct": text[:80], "verdict": why or "ESCAPES"})
            if not ok:
                viol("R-C06.1", mod, q, n, f"raise:{q}:{norm(S.unparse(n.exc) if n.exc else '')[:60]}", f"`{text[:80]}` can escape from parse(): only ParseError may leave the parser")
    # _lex_error_func must reach the channel on every path (also R-C18.5)
    for kk in [k for k in g.pa if k[0] == "_lex_error_func"]:
        ok = not g.pa[kk].finals
        ctx.oblige("R-C06.1", "_lex_error_func always raises", ok)
        if not ok:
            viol("R-C06.1", px, "CParser._lex_error_func", None, "lex-error-returns", "the lexer's error callback can return without raising ParseError")
    ctx.require_instances("R-C06.1", 3)

    # the parser never catches its own error: ParseError ends the parse
    from .. import e1 as _e1s
    _exs, _gs = _e1s.get()
    ctx.oblige("R-C06.1", "no handler inside the parser catches ParseError", not _exs.swallows, sample={"rule": "R-C06.1", "handlers catching ParseError / Exception inside productions": [f"{m_}:{ln_}" for m_, ln_, _ in _exs.swallows]})
    for m_, ln_, names_ in _exs.swallows:
        ctx.violation("R-C06.1", f"swallowed-error:{m_}", f"{m_} (line {ln_}) catches {names_}: the single error channel is no longer terminal", file="pycparser/c_parser.py", function=f"CParser.{m_}", line=ln_)
    # ---- R-C06.2 ------------------------------------------------------------------
    auto = {}
    for key, prod in ex.prods.items():
        for stmt, vals, la in prod.asserts:
            auto.setdefault(id(stmt), set()).update(vals)
    pointer_entries = [ex.entry_la.get(k) for k in ex.prods if k[0] == "_parse_pointer"]
    for mod, q, fn in funcs:
        for n in ast.walk(fn):
            if not isinstance(n, ast.Assert):
                continue
            cond = alpha_norm(n.test, fn)
            how = None
            vals = auto.get(id(n))
            if vals is not None and vals <= {True}:
                how = "automatic: the grammar model evaluates the condition to True on every path"
            elif q == "CParser._parse_struct_declaration" and "typedef" in cond and "storage" in cond:
                sq = px.method("CParser", "_parse_specifier_qualifier_list")
                producers = [c for c in ast.walk(sq) if isinstance(c, ast.Call) and isinstance(c.func, ast.Attribute) and c.func.attr == "_add_declaration_specifier"
                             and len(c.args) >= 3 and isinstance(c.args[2], ast.Constant) and c.args[2].value == "storage"]
                if not producers:
                    how = "automatic: _parse_specifier_qualifier_list has no producer of storage-class specifiers"
            elif q == "fix_switch_cases" and cond.startswith("isinstance(switch_node"):
                sites = [c for _, _, f2 in funcs for c in ast.walk(f2) if isinstance(c, ast.Call) and isinstance(c.func, ast.Name) and c.func.id == "fix_switch_cases"]
                if sites and all(isinstance(c.args[0], ast.Call) and S.unparse(c.args[0].func) == "c_ast.Switch" for c in sites):
                    how = "automatic: every call site passes a freshly constructed c_ast.Switch"
            elif (q, cond) in ASSERT_ARGUMENTS:
                how = "argument: " + ASSERT_ARGUMENTS[(q, cond)]
                pre = ASSERT_PRECONDITIONS.get((q, cond))
                if pre is not None and not pre[0](n, fn):
                    how = None       # the structural fact the argument rests on ( + pre[1] + ) no longer holds
                if q == "CParser._parse_abstract_declarator_opt":
                    if not pointer_entries or not all(e is not None and e[0] <= {"TIMES"} for e in pointer_entries):
                        how = None
            ok = how is not None
            ctx.oblige("R-C06.2", f"{q}: assert {cond}", ok, sample={"rule": "R-C06.2", "function": q, "assert": cond, "discharge": how or "NONE"})
            if not ok:
                viol("R-C06.2", mod, q, n, f"assert:{q}:{cond[:80]}", f"`assert {cond}` is reachable from parse() and nothing shows its condition always holds: AssertionError could escape")
    ctx.require_instances("R-C06.2", 8)

    # ---- R-C06.3 ----------------------------------------------------------------------
    # (a) None-dereference found by the grammar model
    seen = set()
    npy = 0
    for key, prod in ex.prods.items():
        for e in prod.edges:
            for ev in e.events:
                if ev[0] == "pyerror" and (key[0], ev[2]) not in seen:
                    seen.add((key[0], ev[2]))
                    npy += 1
                    ctx.oblige("R-C06.3", f"none-deref {key[0]}:{ev[2]}", False)
                    ctx.violation("R-C06.3", f"none-deref:{key[0]}:{norm(ev[1])[:70]}", f"in {key[0]} (line {ev[2]}): {ev[1]} - an exception other than ParseError escapes",
                                  file=px.rel, function=f"CParser.{key[0]}", line=ev[2])
    ctx.oblige("R-C06.3", "no None dereference on any path of the grammar model", npy == 0, sample={"rule": "R-C06.3", "paths": sum(len(p.edges) for p in ex.prods.values()), "verdict": "no attribute access on a possibly-None token / result" if not npy else f"{npy} sites"})
    # (b) specifier-list elements: attribute must exist on every class that can be stored there, or be guarded by isinstance
    classes = _type_specifier_classes(px)
    ctx.info["type_specifier_classes"] = sorted(classes)
    cm = S.module("c_ast")
    slots = {}
    for cname in classes:
        c = cm.classes.get(cname)
        if c is None:
            raise AnalysisError(f"class {cname} stored in a specifier list is not defined in c_ast.py")
        for st in c.body:
            if isinstance(st, ast.Assign) and any(isinstance(t, ast.Name) and t.id == "__slots__" for t in st.targets):
                slots[cname] = {x.value for x in st.value.elts if isinstance(x, ast.Constant)}
    for mod, q, fn in funcs:
        if mod is not px:
            continue
        for n in ast.walk(fn):
            if isinstance(n, ast.Attribute) and isinstance(n.ctx, ast.Load) and _is_type_list_element(n.value, fn):
                missing = sorted(c for c in classes if n.attr not in slots.get(c, set()))
                stmt = n
                while stmt is not None and not isinstance(stmt, ast.stmt):
                    stmt = getattr(stmt, "_parent", None)
                ok = not missing or _guarded_by_isinstance(n, fn) or (q, alpha_norm(stmt, fn) if stmt is not None else "") in HETERO_ARGUMENTS
                ctx.oblige("R-C06.3", f"{q}: {alpha_norm(n)}", ok, sample={"rule": "R-C06.3", "function": q, "construct": alpha_norm(n), "classes lacking it": missing, "verdict": "guarded / total" if ok else "UNGUARDED"})
                if not ok:
                    viol("R-C06.3", mod, q, n, f"hetero:{q}:{alpha_norm(n)}", f"`{alpha_norm(n)}` reads .{n.attr} of a type-specifier list element, but the list can hold {missing} nodes which have no such attribute, and no isinstance test guards the access: AttributeError escapes")
    # (b1) the _Atomic(type-name) splice reads and writes attributes of the spliced-in declarator: every declarator class that
    #      _parse_atomic_specifier lets through must have them (an array or function declarator has no `quals`)
    _atomic_splice_attrs(ctx, viol)
    # (b2) conversions of input text that can raise ValueError (int / float of a matched string: CPython limits the length of the
    #      digit string, rejects suffixes) are made inside a try that handles ValueError
    for mod, q, fn in funcs:
        for n in ast.walk(fn):
            if isinstance(n, ast.Call) and isinstance(n.func, ast.Name) and n.func.id in ("int", "float") and n.args and not isinstance(n.args[0], ast.Constant):
                cur_ = n
                handled = False
                while cur_ is not None and cur_ is not fn:
                    par = getattr(cur_, "_parent", None)
                    if isinstance(par, ast.Try) and any(cur_ is st for st in par.body):
                        for h in par.handlers:
                            names = {x.id for x in ast.walk(h.type) if isinstance(x, ast.Name)} if h.type is not None else {"BaseException"}
                            if names & {"ValueError", "Exception", "BaseException"}:
                                handled = True
                    if isinstance(par, ast.FunctionDef) and par is not fn:
                        pass
                    cur_ = par
                ctx.oblige("R-C06.3", f"{q}: {S.unparse(n)[:40]} handles ValueError", handled, sample={"rule": "R-C06.3", "function": q, "construct": S.unparse(n)[:60], "verdict": "inside try/except ValueError" if handled else "UNGUARDED"})
                if not handled:
                    viol("R-C06.3", mod, q, n, f"conversion:{q}:{alpha_norm(n, fn)[:60]}", f"`{S.unparse(n)[:60]}` converts text of the input and can raise ValueError (over-long digit strings, unexpected characters) outside any try that handles it: the exception escapes parse()")
    # (c0) mechanical backing of the recorded argument "the scope stack is never empty"
    from . import c04
    c04.scope_stack_never_empty(ctx, "R-C06.3")
    # (c) constant-index subscripts and dictionary lookups by table
    for mod, q, fn in funcs:
        for n in ast.walk(fn):
            if isinstance(n, ast.Subscript) and isinstance(n.ctx, ast.Load) and _is_partial_subscript(n, fn):
                key = (q, alpha_norm(n, fn))
                auto_ok = _auto_guard(n, fn)
                ok = auto_ok or key in PARTIAL_ARGUMENTS
                if ok and not auto_ok and key in PARTIAL_ONLY_IN:
                    stmt = n
                    while stmt is not None and not isinstance(stmt, ast.stmt):
                        stmt = getattr(stmt, "_parent", None)
                    ok = stmt is not None and alpha_norm(stmt, fn) in PARTIAL_ONLY_IN[key]
                ctx.oblige("R-C06.3", f"{q}: {key[1][:60]}", ok, nontrivial=not auto_ok,
                           sample={"rule": "R-C06.3", "function": q, "construct": key[1][:80], "discharge": "syntactic guard" if auto_ok else PARTIAL_ARGUMENTS.get(key, "NONE")} if not auto_ok else None)
                if not ok:
                    viol("R-C06.3", mod, q, n, f"partial:{q}:{key[1][:80]}", f"`{key[1][:80]}` can raise IndexError/KeyError and no guard or recorded argument covers it")
    ctx.require_instances("R-C06.3", 25)

    # ---- R-C06.4 ------------------------------------------------------------------------
    for mod, q, fn in funcs:
        if mod is not px:
            continue
        for n in ast.walk(fn):
            if isinstance(n, ast.Call) and isinstance(n.func, ast.Attribute) and n.func.attr == "_parse_error" and isinstance(n.func.value, ast.Name):
                if len(n.args) < 2:
                    ctx.oblige("R-C06.4", f"{q}:{n.lineno}", False)
                    viol("R-C06.4", mod, q, n, f"coord-missing:{q}", "_parse_error called without a coordinate")
                    continue
                bad = _bad_coord_sources(n.args[1], fn, set())
                ok = not bad
                ctx.oblige("R-C06.4", f"{q}: {alpha_norm(n.args[1])[:50]} @{n.lineno}", ok,
                           sample={"rule": "R-C06.4", "function": q, "coord argument": alpha_norm(n.args[1])[:60], "verdict": "location" if ok else f"NOT A LOCATION: {bad}"} if (not ok or ctx.obligations % 11 == 0) else None)
                if not ok:
                    viol("R-C06.4", mod, q, n, f"coord:{q}:{bad[0][:40]}", f"the location given to _parse_error can be {bad[0]!r}, which is not a source location: the message would not start with 'file:line:column: ' or 'file: '")
    pe = px.method("CParser", "_parse_error")
    fmt = [n for n in ast.walk(pe) if isinstance(n, ast.JoinedStr)]
    ok = False
    if fmt:
        parts = fmt[0].values
        ok = (len(parts) >= 2 and isinstance(parts[0], ast.FormattedValue) and isinstance(parts[0].value, ast.Name) and parts[0].value.id == pe.args.args[2].arg
              and isinstance(parts[1], ast.Constant) and parts[1].value.startswith(": "))
    ctx.oblige("R-C06.4", "_parse_error formats '{coord}: {msg}'", ok)
    if not ok:
        viol("R-C06.4", px, "CParser._parse_error", pe, "format", "_parse_error no longer formats the message as '<coord>: <msg>'")
    # whether the `.coord` of the node handed over can be None (a node built without a coordinate), and whether it is the coordinate the reviewed
    # reference names, is decided by the def-use analysis of C11: a None there makes the message start with 'None: '
    from . import share
    share.borrow(ctx, "C11", ("R-C11.6", "R-C11.7"), "R-C06.4", count=10)
    # termination of the lexer's hand-written scanning loops (progress per iteration, loop tests that stay true at the end of the text) is decided
    # by the scanner rules of C09
    share.borrow(ctx, "C09", ("R-C09.5", "R-C09.6"), "R-C06.5", count=20)
    ctx.require_instances("R-C06.4", 30)

    # ---- R-C06.5 --------------------------------------------------------------------------
    probs = g.progress_problems()
    for kind, key, detail in probs:
        name = key[0]
        if kind == "loop iteration may consume no token" and name == "_parse_binary_expression":
            # inner loop of precedence climbing: the recursive call is made only for a strictly tighter operator, and the callee's first
            # iteration consumes that operator (its precedence is not below its own bound).  Recognised and checked by R-C02.2.
            ctx.oblige("R-C06.5", f"{e1.sig_text(key)} inner climbing loop", True, sample={"rule": "R-C06.5", "production": e1.sig_text(key), "discharge": "precedence-climbing schema (R-C02.2): callee consumes the operator it was called for"})
            continue
        ctx.oblige("R-C06.5", f"{e1.sig_text(key)}: {kind}", False)
        ctx.violation("R-C06.5", f"progress:{name}:{kind}", f"{kind} in {e1.sig_text(key)} ({detail if not isinstance(detail, list) else ' -> '.join(k[0] for k in detail)}): parse() may not terminate",
                      file=px.rel, function=f"CParser.{name}")
    for key in g.pa:
        ctx.oblige("R-C06.5", f"progress {e1.sig_text(key)}", True, nontrivial=False)
    ctx.info["explanation"] = ("exception-escape analysis over the functions reachable from CParser.parse: every raise and assert is classified (error channel / proved dead / discharged / escaping); "
                               "None-dereferences are found on the paths of the extracted grammar model; attribute reads on specifier-list elements are checked against the class set that can be stored there; "
                               "constant-index subscripts need a syntactic guard or a recorded argument; every _parse_error call site must pass a real location; termination by absence of left recursion and "
                               "token progress of every loop")
    ctx.assumptions += ["RecursionError on deeply nested input is tolerated by the property", "MemoryError / KeyboardInterrupt are out of scope",
                        "recorded arguments (ASSERT_ARGUMENTS / PARTIAL_ARGUMENTS in sa/props/c06.py) were confirmed by reading; a new assert or partial operation is a violation until argued"]
    ctx.trusted += ["E1 grammar model", "E2 tokeniser model", "frozen argument tables in sa/props/c06.py"]


# ---------------------------------------------------------------------------
def _is_exhaustive_default(raise_node, mod):
    case = getattr(raise_node, "_parent", None)
    if not isinstance(case, ast.match_case) or not (isinstance(case.pattern, ast.MatchAs) and case.pattern.pattern is None):
        return False
    match = getattr(case, "_parent", None)
    if not isinstance(match, ast.Match):
        return False
    fo = S.folded(mod.name)
    covered = {}
    for c in match.cases:
        pats = c.pattern.patterns if isinstance(c.pattern, ast.MatchOr) else [c.pattern]
        for p in pats:
            if isinstance(p, ast.MatchValue) and isinstance(p.value, ast.Attribute) and isinstance(p.value.value, ast.Name):
                covered.setdefault(p.value.value.id, set()).add(p.value.attr)
    for enum, members in covered.items():
        if enum in fo.enums and set(fo.enums[enum]) <= members:
            return True
    return False


def _type_specifier_classes(px):
    """Classes of the nodes that can be appended to a specifier list of kind 'type'."""
    out = set()
    cp = px.methods("CParser")
    for fn in cp.values():
        for c in ast.walk(fn):
            if (isinstance(c, ast.Call) and isinstance(c.func, ast.Attribute) and c.func.attr == "_add_declaration_specifier" and len(c.args) >= 3
                    and isinstance(c.args[2], ast.Constant) and c.args[2].value == "type"):
                out |= _classes_of(c.args[1], cp, set())
        # direct stores  spec["type"] = [c_ast.X(...)]
        for n in ast.walk(fn):
            if isinstance(n, ast.Assign) and any(isinstance(t, ast.Subscript) and isinstance(t.slice, ast.Constant) and t.slice.value == "type" for t in n.targets):
                for c in ast.walk(n.value):
                    if isinstance(c, ast.Call):
                        out |= _classes_of(c, cp, set())
            if isinstance(n, ast.keyword) and n.arg == "type" and isinstance(n.value, ast.List):
                par = getattr(n, "_parent", None)
                if isinstance(par, ast.Call) and isinstance(par.func, ast.Name) and par.func.id == "dict":
                    for c in n.value.elts:
                        out |= _classes_of(c, cp, set())
    if not out:
        raise AnalysisError("no producer of type specifiers found: anchors moved")
    return out


def _classes_of(e, cp, seen):
    if isinstance(e, ast.Call):
        f = e.func
        if isinstance(f, ast.Attribute) and isinstance(f.value, ast.Name) and f.value.id == "c_ast":
            return {f.attr}
        if isinstance(f, ast.Attribute) and isinstance(f.value, ast.Name) and f.value.id == "self" and f.attr in cp and f.attr not in seen:
            seen = seen | {f.attr}
            fn = cp[f.attr]
            out = set()
            local = {}
            for n in ast.walk(fn):
                if isinstance(n, ast.Assign) and len(n.targets) == 1 and isinstance(n.targets[0], ast.Name):
                    local.setdefault(n.targets[0].id, []).append(n.value)
            for n in ast.walk(fn):
                if isinstance(n, ast.Return) and n.value is not None:
                    out |= _classes_of_expr(n.value, cp, seen, local)
            return out
        if isinstance(f, ast.Name) and f.id == "cast" and len(e.args) == 2:
            return _classes_of(e.args[1], cp, seen)
    return set()


def _classes_of_expr(e, cp, seen, local):
    if isinstance(e, ast.Call):
        f = e.func
        if isinstance(f, ast.Name) and f.id in local:
            # class-valued local (klass = self._select_struct_union_class(...))
            out = set()
            for v in local[f.id]:
                out |= _classes_of_expr(v, cp, seen, local) if not isinstance(v, ast.Call) else _class_values(v, cp)
            return out
        return _classes_of(e, cp, seen)
    if isinstance(e, ast.Name) and e.id in local:
        out = set()
        for v in local[e.id]:
            out |= _classes_of_expr(v, cp, seen, {k: x for k, x in local.items() if k != e.id})
        return out
    return set()


def _class_values(call, cp):
    """Classes a class-returning helper can return (return c_ast.X)."""
    f = call.func
    if isinstance(f, ast.Attribute) and isinstance(f.value, ast.Name) and f.value.id == "self" and f.attr in cp:
        return {r.value.attr for r in ast.walk(cp[f.attr]) if isinstance(r, ast.Return) and isinstance(r.value, ast.Attribute) and isinstance(r.value.value, ast.Name) and r.value.value.id == "c_ast"}
    return set()


def _is_text_var(v, fn):
    """a local / parameter that holds (a slice of) the input text: its provenance reaches self._lexdata"""
    if not isinstance(v, ast.Name):
        return False
    c = canon_of(fn)
    if v.id in c.params:
        return v.id in ("text", "line")
    seen, todo = set(), [v.id]
    while todo:
        x = todo.pop()
        if x in seen:
            continue
        seen.add(x)
        for _tag, rhs in c.defs.get(x, []):
            if rhs is None:
                continue
            base = rhs
            while isinstance(base, ast.Subscript):
                base = base.value
            if isinstance(base, ast.Attribute) and base.attr == "_lexdata":
                return True
            if isinstance(base, ast.Name):
                todo.append(base.id)
    return False


def _is_type_list_element(e, fn):
    """e is  <name>['type'][i]  with a spec-like name, or  <v>[i] with v bound to <spec>['type'] / the typename parameter."""
    if isinstance(e, ast.Subscript):
        v = e.value
        if isinstance(v, ast.Subscript) and isinstance(v.slice, ast.Constant) and v.slice.value == "type":
            return True
        if isinstance(v, ast.Name) and not isinstance(e.slice, ast.Slice):
            c = canon_of(fn)
            if (v.id in c.params and fn.name == "_fix_decl_name_type" and len(fn.args.args) > 2 and v.id == fn.args.args[2].arg) \
                    or (v.id not in c.params and c.prov(v.id).rstrip(")").endswith("['type']")):
                return True
    return False


def _guarded_by_isinstance(attr_node, fn):
    target = S.unparse(attr_node.value)

    def is_guard(test, positive=True):
        for c in ast.walk(test):
            if isinstance(c, ast.Call) and isinstance(c.func, ast.Name) and c.func.id == "isinstance" and c.args and S.unparse(c.args[0]) == target:
                return True
        return False
    # (i) earlier operand of the same BoolOp
    cur = attr_node
    while cur is not None and cur is not fn:
        par = getattr(cur, "_parent", None)
        if isinstance(par, ast.BoolOp):
            idx = next((i for i, v in enumerate(par.values) if v is cur), None)
            if idx is not None and any(is_guard(v) for v in par.values[:idx]):
                return True
        if isinstance(par, (ast.If, ast.While)) and cur is not par.test and is_guard(par.test):
            return True
        # (ii) an earlier sibling `if <or-chain with not isinstance(...)>: <NoReturn call>` in the same block
        for field in ("body", "orelse"):
            blk = getattr(par, field, None)
            if isinstance(blk, list) and cur in blk:
                for sib in blk[:blk.index(cur)]:
                    if isinstance(sib, ast.If) and is_guard(sib.test) and _ends_noreturn(sib.body):
                        return True
                    for inner in ast.walk(sib):
                        if isinstance(inner, ast.If) and is_guard(inner.test) and _ends_noreturn(inner.body) and inner in getattr(sib, "body", []):
                            return True
        cur = par
    return False


def _ends_noreturn(body):
    if not body:
        return False
    last = body[-1]
    if isinstance(last, (ast.Raise, ast.Return)):
        return True
    return isinstance(last, ast.Expr) and isinstance(last.value, ast.Call) and isinstance(last.value.func, ast.Attribute) and last.value.func.attr == "_parse_error"


def _is_partial_subscript(n, fn):
    if isinstance(n.slice, ast.Slice):
        return False
    if isinstance(n.slice, ast.Constant) and isinstance(n.slice.value, str):
        # dictionary lookup with a constant key: only module-level tables (TypedDict specs always carry all five keys)
        return False
    if isinstance(n.slice, ast.UnaryOp) and isinstance(n.slice.operand, ast.Constant):
        return True
    if isinstance(n.slice, ast.Constant) and isinstance(n.slice.value, int):
        return True
    # index expressions / table lookups by variable
    if isinstance(n.value, ast.Name) and n.value.id.startswith("_") and n.value.id[1:2].isalpha():
        return True
    if isinstance(n.value, ast.Attribute) and n.value.attr == "_buffer":
        return True
    if _is_text_var(n.value, fn):
        return True
    return False


DECLARATOR_CLASSES = ("TypeDecl", "PtrDecl", "ArrayDecl", "FuncDecl")      # what a type name's `type` can be (results of _type_modify_decl)


def _atomic_splice_attrs(ctx, viol):
    px, tx, cm = S.module("c_parser"), S.module("ast_transforms"), S.module("c_ast")
    fx = tx.functions.get("_fix_atomic_specifiers_once")
    pa = px.methods("CParser").get("_parse_atomic_specifier")
    if fx is None or pa is None:
        raise AnalysisError("anchors _fix_atomic_specifiers_once / _parse_atomic_specifier vanished")
    slots = {}
    for cname in DECLARATOR_CLASSES:
        c = cm.classes.get(cname)
        if c is None:
            raise AnalysisError(f"declarator class {cname} is not defined in c_ast.py")
        for st in c.body:
            if isinstance(st, ast.Assign) and any(isinstance(t, ast.Name) and t.id == "__slots__" for t in st.targets):
                slots[cname] = {x.value for x in st.value.elts if isinstance(x, ast.Constant)}
    # classes the specifier production lets through: a guard `if isinstance(typ.type, (A, B)): self._parse_error(...)` removes A and B
    allowed = set(DECLARATOR_CLASSES)
    for n in ast.walk(pa):
        if isinstance(n, ast.If):
            t, neg = n.test, False
            if isinstance(t, ast.UnaryOp) and isinstance(t.op, ast.Not):
                t, neg = t.operand, True
            if isinstance(t, ast.Call) and isinstance(t.func, ast.Name) and t.func.id == "isinstance" and len(t.args) == 2 and S.unparse(t.args[0]).endswith(".type") \
                    and any(isinstance(c, ast.Call) and isinstance(c.func, ast.Attribute) and c.func.attr == "_parse_error" for s_ in n.body for c in ast.walk(s_)):
                named = {S.unparse(c).split(".")[-1] for c in (t.args[1].elts if isinstance(t.args[1], ast.Tuple) else [t.args[1]])}
                allowed = (allowed & named) if neg else (allowed - named)
    # names that hold the spliced-in declarator: bound from <x>.type of the Typename found by the search loop, directly or through a copy
    holders = set()
    for n in ast.walk(fx):
        if isinstance(n, ast.Assign) and len(n.targets) == 1 and isinstance(n.targets[0], ast.Name):
            v = n.value
            if isinstance(v, ast.Call) and len(v.args) == 1 and not v.keywords and isinstance(v.func, (ast.Name, ast.Attribute)):
                v = v.args[0]          # a copy of it (copy.deepcopy, a copying helper): same classes
            if isinstance(v, ast.Attribute) and v.attr == "type" and isinstance(v.value, ast.Name) and v.value.id == "node":
                holders.add(n.targets[0].id)
    if not holders:
        return            # the splice no longer goes through a local: nothing this rule can say
    guarded_attrs = set()
    for n in ast.walk(fx):
        if isinstance(n, ast.Attribute) and isinstance(n.value, ast.Name) and n.value.id in holders:
            if _guarded_by_isinstance(n, fx):
                continue
            lacking = sorted(c for c in allowed if n.attr not in slots.get(c, set()))
            ok = not lacking
            ctx.oblige("R-C06.3", f"_fix_atomic_specifiers_once: .{n.attr} of the spliced declarator", ok, sample={"rule": "R-C06.3", "function": "_fix_atomic_specifiers_once", "construct": S.unparse(n), "declarator classes let through by _parse_atomic_specifier": sorted(allowed), "classes lacking it": lacking})
            if not ok:
                viol("R-C06.3", tx, "_fix_atomic_specifiers_once", n, f"atomic-splice:{n.attr}:{','.join(lacking)}", f"`{S.unparse(n)}` is evaluated for the declarator inside _Atomic( type-name ), and _parse_atomic_specifier lets {lacking} declarators "
                     f"through, which have no `{n.attr}` attribute: AttributeError escapes from parse() instead of ParseError (e.g. `_Atomic(int(void)) x;`)")


def _not_none_here(node, fn, name):
    """the node is reached only where `name` was tested not to be None: inside `if name is not None` / `if name`, in the else of `if name is None`,
    or after an `if name is None:` that cannot fall through"""
    def kind(t):
        if isinstance(t, ast.Compare) and len(t.ops) == 1 and isinstance(t.left, ast.Name) and t.left.id == name and isinstance(t.comparators[0], ast.Constant) and t.comparators[0].value is None:
            return "notnone" if isinstance(t.ops[0], ast.IsNot) else ("none" if isinstance(t.ops[0], ast.Is) else None)
        if isinstance(t, ast.Name) and t.id == name:
            return "notnone"
        if isinstance(t, ast.UnaryOp) and isinstance(t.op, ast.Not) and isinstance(t.operand, ast.Name) and t.operand.id == name:
            return "none"
        if isinstance(t, ast.BoolOp) and isinstance(t.op, ast.And):
            return "notnone" if any(kind(v) == "notnone" for v in t.values) else None
        return None
    cur = node
    while cur is not None and cur is not fn:
        par = getattr(cur, "_parent", None)
        if isinstance(par, ast.If):
            kd = kind(par.test)
            if (kd == "notnone" and any(cur is x for x in par.body)) or (kd == "none" and any(cur is x for x in par.orelse)):
                return True
        for field in ("body", "orelse"):
            blk = getattr(par, field, None)
            if isinstance(blk, list) and any(x is cur for x in blk):
                for sib in blk[:[i for i, x in enumerate(blk) if x is cur][0]]:
                    if isinstance(sib, ast.If) and kind(sib.test) == "none" and not sib.orelse and sib.body and isinstance(sib.body[-1], (ast.Return, ast.Raise, ast.Continue, ast.Break)):
                        return True
        cur = par
    return False


def _min_tuple_len(cls, mname, stack, allow_none=False):
    """smallest length of the tuple that method `mname` returns, when every return is a tuple display or the result of a method that has
    this property; None otherwise.  With allow_none: (smallest length over the returns that are not the constant None, whether None can be returned)"""
    if allow_none:
        m0 = next((x for x in cls.body if isinstance(x, ast.FunctionDef) and x.name == mname), None)
        if m0 is None:
            return None
        rets0 = [x for x in ast.walk(m0) if isinstance(x, ast.Return) and S.enclosing_function(x) is m0]
        nones = [r for r in rets0 if r.value is None or (isinstance(r.value, ast.Constant) and r.value.value is None)]
        others = [r for r in rets0 if r not in nones]
        if not others or not isinstance(m0.body[-1], (ast.Return, ast.Raise)):
            return None
        if not all(isinstance(r.value, ast.Tuple) and not any(isinstance(y, ast.Starred) for y in r.value.elts) for r in others):
            # not all displays: the returns may hand on the result of another such method (`info = self._scan(); return info`)
            if not nones:
                ln0 = _min_tuple_len(cls, mname, stack)
                return None if ln0 is None else (ln0, False)
            return None
        return min(len(r.value.elts) for r in others), bool(nones)
    if mname in stack:
        return None
    m = next((x for x in cls.body if isinstance(x, ast.FunctionDef) and x.name == mname), None)
    if m is None:
        return None
    binds = {}
    for x in ast.walk(m):
        if isinstance(x, ast.Assign) and len(x.targets) == 1 and isinstance(x.targets[0], ast.Name):
            binds.setdefault(x.targets[0].id, []).append(x.value)
        elif isinstance(x, ast.Name) and isinstance(x.ctx, ast.Store):
            binds.setdefault(x.id, [])

    def length(e, depth=0):
        if isinstance(e, ast.Tuple) and not any(isinstance(y, ast.Starred) for y in e.elts):
            return len(e.elts)
        if isinstance(e, ast.Call) and isinstance(e.func, ast.Attribute) and isinstance(e.func.value, ast.Name) and e.func.value.id == m.args.args[0].arg:
            return _min_tuple_len(cls, e.func.attr, stack + (mname,))
        if isinstance(e, ast.Name) and depth < 3:
            vals = binds.get(e.id)
            stores = sum(1 for y in ast.walk(m) if isinstance(y, ast.Name) and y.id == e.id and isinstance(y.ctx, ast.Store))
            if vals and len(vals) == stores:
                ls = [length(v, depth + 1) for v in vals]
                return None if any(l is None for l in ls) else min(ls)
        return None
    rets = [x for x in ast.walk(m) if isinstance(x, ast.Return) and S.enclosing_function(x) is m]
    if not rets or any(r.value is None for r in rets):
        return None
    ls = [length(r.value) for r in rets]
    if any(l is None for l in ls):
        return None
    # falling off the end returns None: the last statement must not fall through
    last = m.body[-1]
    if not isinstance(last, (ast.Return, ast.Raise)):
        return None
    return min(ls)


def _auto_guard(n, fn):
    """Syntactic guards: table lookups dominated by a membership test on the same table; annotations; spec dictionaries."""
    # type annotations (Optional[...], List[...]) are not executed subscripts of data
    cur = n
    while cur is not None and cur is not fn:
        par = getattr(cur, "_parent", None)
        if isinstance(par, (ast.arg, ast.AnnAssign)) and (getattr(par, "annotation", None) is cur):
            return True
        if isinstance(par, ast.FunctionDef) and par.returns is cur:
            return True
        cur = par
    # E[0] / E[-1] inside the body of `if E:` / `elif E:` / `if len(E) == k (k >= 1)` / `if len(E) > k`: E is not empty there
    if isinstance(n.slice, (ast.Constant, ast.UnaryOp)):
        target = S.unparse(n.value)
        cur = n
        while cur is not None and cur is not fn:
            par = getattr(cur, "_parent", None)
            if isinstance(par, ast.If) and any(cur is st for st in par.body):
                t = par.test
                tests = t.values if isinstance(t, ast.BoolOp) and isinstance(t.op, ast.And) else [t]
                for tt in tests:
                    if S.unparse(tt) == target:
                        return True
                    if isinstance(tt, ast.Compare) and len(tt.ops) == 1 and isinstance(tt.left, ast.Call) and S.unparse(tt.left.func) == "len" and tt.left.args and S.unparse(tt.left.args[0]) == target \
                            and isinstance(tt.comparators[0], ast.Constant) and isinstance(tt.comparators[0].value, int):
                        k = tt.comparators[0].value
                        if (isinstance(tt.ops[0], ast.Eq) and k >= 1) or (isinstance(tt.ops[0], ast.Gt) and k >= 0) or (isinstance(tt.ops[0], ast.GtE) and k >= 1):
                            return True
            cur = par
    # self.m(...)[k] where every return of m hands back a tuple display of more than k elements (directly, or the result of such a method)
    if isinstance(n.value, ast.Call) and isinstance(n.value.func, ast.Attribute) and isinstance(n.value.func.value, ast.Name) and n.value.func.value.id == "self":
        k = n.slice.value if isinstance(n.slice, ast.Constant) else (-n.slice.operand.value if isinstance(n.slice, ast.UnaryOp) and isinstance(n.slice.op, ast.USub) and isinstance(n.slice.operand, ast.Constant) else None)
        if isinstance(k, int) and not isinstance(k, bool):
            need = k + 1 if k >= 0 else -k
            cls = fn
            while cls is not None and not isinstance(cls, ast.ClassDef):
                cls = getattr(cls, "_parent", None)
            if cls is not None:
                ln = _min_tuple_len(cls, n.value.func.attr, ())
                if ln is not None and ln >= need:
                    return True
    # x[k] where x = self.m(...) is bound once, every non-None return of m is a tuple display of more than k elements, and - when m can return
    # None - the subscript is reached only where x was tested not to be None
    if isinstance(n.value, ast.Name) and isinstance(n.slice, (ast.Constant, ast.UnaryOp)):
        k = n.slice.value if isinstance(n.slice, ast.Constant) else (-n.slice.operand.value if isinstance(n.slice.op, ast.USub) and isinstance(n.slice.operand, ast.Constant) else None)
        defs = [a for a in ast.walk(fn) if isinstance(a, (ast.Assign, ast.AnnAssign, ast.NamedExpr)) and any(isinstance(t, ast.Name) and t.id == n.value.id for t in (a.targets if isinstance(a, ast.Assign) else [a.target]))]
        stores = sum(1 for x in ast.walk(fn) if isinstance(x, ast.Name) and x.id == n.value.id and isinstance(x.ctx, ast.Store))
        if isinstance(k, int) and not isinstance(k, bool) and len(defs) == 1 and stores == 1:
            v = defs[0].value
            if isinstance(v, ast.Call) and isinstance(v.func, ast.Attribute) and isinstance(v.func.value, ast.Name) and v.func.value.id == "self":
                cls = fn
                while cls is not None and not isinstance(cls, ast.ClassDef):
                    cls = getattr(cls, "_parent", None)
                if cls is not None:
                    ln = _min_tuple_len(cls, v.func.attr, (), allow_none=True)
                    need = k + 1 if k >= 0 else -k
                    if ln is not None and ln[0] >= need and (not ln[1] or _not_none_here(n, fn, n.value.id)):
                        return True
    if isinstance(n.value, ast.Name) and n.value.id.startswith("_") and isinstance(n.slice, (ast.Attribute, ast.Name)):
        # TABLE[x] after `x not in TABLE: break` / `x in TABLE`
        tbl, idx = n.value.id, S.unparse(n.slice)
        for c in ast.walk(fn):
            if isinstance(c, ast.Compare) and len(c.ops) == 1 and isinstance(c.ops[0], (ast.In, ast.NotIn)) and S.unparse(c.left) == idx and S.unparse(c.comparators[0]) == tbl and c.lineno <= n.lineno:
                return True
    if _is_text_var(n.value, fn) and isinstance(n.slice, ast.BinOp) and isinstance(n.slice.op, ast.Sub) and isinstance(n.slice.left, ast.Name) \
            and isinstance(n.slice.right, ast.Constant) and n.slice.right.value == 1:
        # text[v - 1] as a later operand of `v > w and ...` (w a cursor value: never negative, v never beyond the cursor it was copied from)
        cur = n
        while cur is not None and cur is not fn:
            par = getattr(cur, "_parent", None)
            if isinstance(par, ast.BoolOp) and isinstance(par.op, ast.And):
                idx = next((i for i, v in enumerate(par.values) if v is cur), None)
                for v in par.values[:idx or 0]:
                    if isinstance(v, ast.Compare) and len(v.ops) == 1 and isinstance(v.ops[0], ast.Gt) and S.unparse(v.left) == n.slice.left.id:
                        return True
            cur = par
    if _is_text_var(n.value, fn) and isinstance(n.slice, ast.Name):
        # text[pos] / line[pos] inside `pos < n` guards of the hand-written scanners
        for c in ast.walk(fn):
            if isinstance(c, ast.Compare) and S.unparse(c.left) == S.unparse(n.slice) and any(isinstance(o, (ast.Lt, ast.GtE)) for o in c.ops):
                return True
    return False


def _bad_coord_sources(e, fn, seen):
    """Constant / non-location values that the coord expression can evaluate to."""
    if isinstance(e, ast.Call):
        f = e.func
        if isinstance(f, ast.Attribute) and f.attr in ("_tok_coord", "_coord"):
            return []
        return [S.unparse(e)[:40]]
    if isinstance(e, ast.Attribute):
        if e.attr in ("coord", "filename"):
            return []
        return [S.unparse(e)[:40]]
    if isinstance(e, ast.IfExp):
        return _bad_coord_sources(e.body, fn, seen) + _bad_coord_sources(e.orelse, fn, seen)
    if isinstance(e, ast.Constant):
        return [] if e.value is None else [repr(e.value)]
    if isinstance(e, ast.Name):
        if e.id in seen:
            return []
        seen = seen | {e.id}
        if e.id in [a.arg for a in fn.args.args]:
            return []    # a coordinate parameter: judged at the call sites of this method
        out = []
        found = False
        for n in ast.walk(fn):
            if isinstance(n, ast.Assign):
                for t in n.targets:
                    if isinstance(t, ast.Name) and t.id == e.id:
                        found = True
                        out += _bad_coord_sources(n.value, fn, seen)
            elif isinstance(n, ast.AnnAssign) and isinstance(n.target, ast.Name) and n.target.id == e.id and n.value is not None:
                found = True
                out += _bad_coord_sources(n.value, fn, seen)
        if not found:
            out.append(f"unbound name {e.id}")
        return out
    return [S.unparse(e)[:40]]
