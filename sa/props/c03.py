"""C03 - declaration ASTs encode C declarator semantics for every declared name.

Decided (wiring level): pointer chains nest so that the last '*' is outermost, array/function suffixes are applied left to
right and the pointer prefix after them (inside-out rule on the call protocol of _type_modify_decl), every specifier is
appended - in source order - to the list of its own kind and each Decl/Typedef/Typename field is fed from the same-named
list, initialisers / bit-widths / parameter lists come from their own call sites.  The heap-shape correctness of the splice
loops for arbitrary derivation sequences is NOT decided.
"""
from __future__ import annotations

import ast

from .. import srcmodel as S
from .. import wirecheck as WC
from ..core import AnalysisError
from . import wiring_common as WCm

LEVEL = "other"
KIND_OF_TABLE = {"_TYPE_QUALIFIER": "qual", "_STORAGE_CLASS": "storage", "_FUNCTION_SPEC": "function", "_TYPE_SPEC_SIMPLE": "type"}


def check(ctx):
    ctx.rule("R-C03.1", "declaration / declarator productions and builders: constructor, return and append wiring equals the reviewed reference")
    ctx.rule("R-C03.2", "specifier wiring: each _add_declaration_specifier site appends (append=True) to the kind matching the token class it consumed and, for type specifiers, records saw_type")
    ctx.rule("R-C03.3", "sibling agreement: declaration specifiers and specifier-qualifier lists accept the same kinds except storage-class and function specifiers")
    px = S.module("c_parser")
    cur = WC.current()
    methods = WCm.decl_methods(set(cur) | set(WC.load_ref())) | {"ast_transforms.fix_atomic_specifiers", "ast_transforms._fix_atomic_specifiers_once"}
    n = WCm.run_group(ctx, "R-C03.1", methods, lambda label, field: not WCm.is_coord_field(label, field) and not label.startswith("call:_parse_error")
                      and not label.startswith("call:_add_identifier") and not label.startswith("call:_add_typedef_name") and not (label == "call:_build_declarations" and field == "p2"),
                      "declaration tree wiring deviates from C's declarator / specifier rules")
    ctx.unit("declaration productions and builders compared", n)
    ctx.require_instances("R-C03.1", 150)

    # ---- R-C03.2 -----------------------------------------------------------------
    t = S.tables()
    kinds_by_method = {}
    for m in ("_parse_declaration_specifiers", "_parse_specifier_qualifier_list"):
        fn = px.method("CParser", m)
        kinds = set()
        for br in ast.walk(fn):
            if not isinstance(br, ast.If):
                continue
            calls = [c for s in br.body for c in ast.walk(s) if isinstance(c, ast.Call) and isinstance(c.func, ast.Attribute) and c.func.attr == "_add_declaration_specifier"]
            calls = [c for c in calls if _nearest_if(c) is br]
            for c in calls:
                kexpr = c.args[2] if len(c.args) > 2 else next((k.value for k in c.keywords if k.arg == "kind"), None)
                kvals = _const_values(kexpr, fn)
                if not kvals:
                    raise AnalysisError(f"{m}: cannot resolve the specifier kind `{S.unparse(kexpr) if kexpr is not None else None}` to constants")
                kind = sorted(kvals)[0] if len(kvals) == 1 else "|".join(sorted(kvals))
                app = next((k.value for k in c.keywords if k.arg == "append"), c.args[3] if len(c.args) > 3 else None)
                kinds |= kvals
                ok_app = isinstance(app, ast.Constant) and app.value is True
                ctx.oblige("R-C03.2", f"{m}: append=True for {kind}", ok_app)
                if not ok_app:
                    ctx.violation("R-C03.2", f"append:{m}:{kind}", f"{m} adds a `{kind}` specifier without append=True: it is inserted in front, so specifiers of that kind come out in reverse source order", file=px.rel, function=f"CParser.{m}", line=c.lineno)
                # the guard's token table must match the kind
                tbls = [n.id for n in ast.walk(br.test) if isinstance(n, ast.Name) and n.id in KIND_OF_TABLE]
                for tb in (tbls if len(kvals) == 1 else []):
                    okk = KIND_OF_TABLE[tb] == kind
                    ctx.oblige("R-C03.2", f"{m}: tokens of {tb} go to kind {kind}", okk)
                    if not okk:
                        ctx.violation("R-C03.2", f"kind:{m}:{tb}:{kind}", f"{m} files tokens of {tb} under `{kind}` (expected `{KIND_OF_TABLE[tb]}`): the specifier ends up in the wrong Decl field", file=px.rel, function=f"CParser.{m}", line=c.lineno)
                if "type" in kvals:
                    saw_type_rule(ctx, "R-C03.2", px, m, br, c)
        kinds_by_method[m] = kinds
    ctx.require_instances("R-C03.2", 18)
    # ---- R-C03.3 --------------------------------------------------------------------
    a, b = kinds_by_method["_parse_declaration_specifiers"], kinds_by_method["_parse_specifier_qualifier_list"]
    ok = a - b == {"storage", "function"} and not (b - a)
    ctx.oblige("R-C03.3", "kinds accepted by the two specifier loops", ok, sample={"rule": "R-C03.3", "declaration specifiers": sorted(a), "specifier-qualifier list": sorted(b)})
    if not ok:
        ctx.violation("R-C03.3", f"sibling-kinds:{sorted(a)}:{sorted(b)}", f"declaration specifiers accept kinds {sorted(a)}, specifier-qualifier lists {sorted(b)}: they must differ exactly by storage-class and function specifiers", file=px.rel, function="CParser._parse_specifier_qualifier_list")
    # ---- R-C03.4: specifier conservation in the builders ---------------------------------------------------------------
    # Which kinds of specifier C allows where (6.7p1, 6.7.1, 6.7.4, 6.7.5, 6.7.6 type-name):  declarations: all five kinds;  typedefs: qualifiers,
    # the `typedef` storage class and types;  parameter declarations: qualifiers, `register` and types;  type names (specifier-qualifier list): qualifiers and types.
    import re as _re
    REQUIRED = {"Decl": {"qual", "storage", "function", "alignment"}, "Typedef": {"qual", "storage"}}
    ctx.rule("R-C03.4", "specifier conservation: a node built from a specifier record receives every kind of specifier that C allows in that context (qualifiers, storage class, function specifiers, alignment) - none is collected by the specifier loop and then dropped by the builder")
    n34 = 0
    for meth, info in sorted(cur.items()):
        for lab, fa in info["records"]:
            cls = lab.split(">")[-1]
            if cls not in ("Decl", "Typedef", "Typename"):
                continue
            srcs = {}
            for f_, vals in fa.items():
                for v in vals:
                    for base, kind in _re.findall(r"((?:param:#\d+!?|_parse_[a-z_]+#\d+\+?(?:@\w+)?(?:\[\d\])?))\[(qual|storage|function|alignment|type)\]", v):
                        srcs.setdefault(base, set()).add(kind)
            for base, got in sorted(srcs.items()):
                if "qual" not in got:
                    continue          # not built from a specifier record (a field of one flows in for another reason)
                if cls == "Typename":
                    # a type name made from DECLARATION specifiers (an unnamed parameter) can carry a storage class; one made from a specifier-qualifier list cannot
                    from_decl_specs = base.startswith("_parse_declaration_specifiers") or (base.startswith("param:") and any(
                        v2.startswith("_parse_declaration_specifiers") for m2, i2 in cur.items() for l2, f2 in i2.get("calls", i2["records"]) if l2 == "call:" + meth for v2 in f2.get("p" + base.split("#")[1].rstrip("!"), [])))
                    need = {"qual", "storage"} if from_decl_specs else {"qual"}
                else:
                    need = REQUIRED[cls]
                missing = sorted(need - got)
                n34 += 1
                ctx.oblige("R-C03.4", f"{meth}: {cls} built from {base} receives {sorted(need)}", not missing, sample={"rule": "R-C03.4", "builder": meth, "node": cls, "specifier record": base, "kinds wired into the node": sorted(got), "kinds C allows here": sorted(need)})
                if missing:
                    ex = "void f(register int);" if cls == "Typename" else ""
                    ctx.violation("R-C03.4", f"specifier-dropped:{meth}:{cls}:{','.join(missing)}", f"{meth} builds a {cls} from the specifier record {base} but never reads its {missing} entry: specifiers of that kind, which C allows in this context, are parsed and then "
                                  f"silently dropped from the AST{' (e.g. `' + ex + '` loses `register`: an unnamed parameter becomes a Typename, which has no storage field)' if ex else ''}", file=px.rel, function=f"CParser.{meth}")
    if n34 < 3:
        raise AnalysisError(f"only {n34} nodes built from specifier records found (confirmed by reading: Decl, Typedef, Typename in the builders)")
    ctx.info["explanation"] = ("def-use wiring of the declaration, declarator, struct/enum, initialiser productions and of the declaration builders compared with the reviewed reference (which call site feeds which field / list, "
                               "in which order modifiers are spliced); per-branch check of the two specifier loops (kind vs token table, append=True, saw_type); sibling agreement of the two loops")
    ctx.assumptions += ["the splice loops of _type_modify_decl / _fix_decl_name_type / fix_atomic_specifiers are not proved correct for arbitrary derivation sequences (shape analysis would be needed)",
                        "sa/wiring_ref.json was reviewed against C99 6.7.5"]
    ctx.trusted += ["sa/wiring_ref.json", "E1 token-type sets"]


def type_flag(px, m):
    """the local of specifier loop m that records 'a type specifier was seen': the flag tested by the typedef-name branch (`if <flag>: break`)"""
    fn = px.method("CParser", m)
    for b in ast.walk(fn):
        if isinstance(b, ast.If) and "TYPEID" in S.unparse(b.test) and b.body and isinstance(b.body[0], ast.If) and isinstance(b.body[0].test, ast.Name) and any(isinstance(x, ast.Break) for x in b.body[0].body):
            return b.body[0].test.id
    raise AnalysisError(f"{m}: the typedef-name branch does not start with `if <type-seen flag>: break` (specifier-loop idiom changed)")


def saw_type_rule(ctx, rid, px, m, br, c):
    """the branch `br` of specifier loop `m` appends a type specifier through call `c`: it must record that a type was seen"""
    flag = type_flag(px, m)
    sets = [s for s in br.body if isinstance(s, ast.Assign) and any(isinstance(tg, ast.Name) and tg.id == flag for tg in s.targets) and isinstance(s.value, ast.Constant) and s.value.value is True]
    oks = bool(sets)
    ctx.oblige(rid, f"{m}: type-seen flag recorded after `{S.unparse(c.args[1])[:40]}`", oks)
    if not oks:
        ctx.violation(rid, f"saw_type:{m}:{S.unparse(c.args[1])[:50]}", f"{m} appends a type specifier ({S.unparse(c.args[1])[:60]}) without setting {flag}: a following typedef name is then taken as a second type specifier instead of the declared identifier "
                      "(e.g. `struct S T = 0;` with T a typedef name)", file=px.rel, function=f"CParser.{m}", line=c.lineno)


def type_specifier_branches(px, m):
    """(branch, call) pairs of specifier loop m whose _add_declaration_specifier call files under kind 'type'"""
    fn = px.method("CParser", m)
    out = []
    for br in ast.walk(fn):
        if not isinstance(br, ast.If):
            continue
        calls = [c for s in br.body for c in ast.walk(s) if isinstance(c, ast.Call) and isinstance(c.func, ast.Attribute) and c.func.attr == "_add_declaration_specifier"]
        for c in calls:
            if _nearest_if(c) is not br:
                continue
            kexpr = c.args[2] if len(c.args) > 2 else next((k.value for k in c.keywords if k.arg == "kind"), None)
            if "type" in _const_values(kexpr, fn):
                out.append((br, c))
    return out


def _const_values(e, fn, depth=0):
    if e is None or depth > 3:
        return set()
    if isinstance(e, ast.Constant) and isinstance(e.value, str):
        return {e.value}
    if isinstance(e, ast.IfExp):
        return _const_values(e.body, fn, depth + 1) | _const_values(e.orelse, fn, depth + 1)
    if isinstance(e, ast.Name):
        out = set()
        for n in ast.walk(fn):
            if isinstance(n, ast.Assign) and any(isinstance(t, ast.Name) and t.id == e.id for t in n.targets):
                out |= _const_values(n.value, fn, depth + 1)
        return out
    return set()


def _nearest_if(node):
    cur = getattr(node, "_parent", None)
    while cur is not None and not isinstance(cur, ast.If):
        cur = getattr(cur, "_parent", None)
    return cur
