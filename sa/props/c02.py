"""C02 - expression ASTs follow C precedence, associativity and operator binding.

Decided on the parser source: the precedence table induces C99's ten levels; the precedence-climbing loop is an
instance of the classical schema with strict comparisons (left associativity); every expression production builds
its node from the operands parsed at the grammar level C assigns to that operand (def-use wiring of constructor
sites against the reviewed reference).
"""
from __future__ import annotations

import ast

from .. import srcmodel as S
from ..core import AnalysisError, norm
from . import wiring_common as WCm

LEVEL = "other"

C_LEVELS = [["||"], ["&&"], ["|"], ["^"], ["&"], ["==", "!="], ["<", ">", "<=", ">="], ["<<", ">>"], ["+", "-"], ["*", "/", "%"]]


def check_table(ctx, table, spelling_of, rule, where, what):
    """table: token type or spelling -> number; must induce exactly C's ten levels (weak order)."""
    lvl = {}
    for i, ops in enumerate(C_LEVELS):
        for o in ops:
            lvl[o] = i
    by_sp = {}
    for k, v in table.items():
        sp = spelling_of(k)
        if sp is None:
            ctx.violation(rule, f"prec-unknown:{k}", f"{what}: entry {k!r} is not a binary operator token", file=where[0], function=where[1])
            continue
        by_sp[sp] = v
    for o in lvl:
        ok = o in by_sp
        ctx.oblige(rule, f"{what} has {o}", ok, nontrivial=False)
        if not ok:
            ctx.violation(rule, f"prec-missing:{o}", f"{what}: binary operator `{o}` has no precedence entry", file=where[0], function=where[1])
    ops = sorted(o for o in lvl if o in by_sp)
    for i, a in enumerate(ops):
        for b in ops[i + 1:]:
            want = (lvl[a] > lvl[b]) - (lvl[a] < lvl[b])
            got = (by_sp[a] > by_sp[b]) - (by_sp[a] < by_sp[b])
            ok = want == got
            ctx.oblige(rule, f"{what}: {a} vs {b}", ok, sample={"rule": rule, "pair": [a, b], "C99 order": want, "table order": got} if (not ok or (len(ctx.samples) < 4)) else None)
            if not ok:
                rel = {1: "binds tighter than", 0: "binds like", -1: "binds looser than"}
                ctx.violation(rule, f"prec-order:{a}:{b}", f"{what}: `{a}` {rel[got]} `{b}`, but in C99 6.5.5-6.5.14 it {rel[want]} it: `x {a} y {b} z` / `x {b} y {a} z` group wrongly", file=where[0], function=where[1])


def check(ctx):
    ctx.rule("R-C02.1", "the weak order induced by _BINARY_PRECEDENCE equals C99's ten binary-operator levels")
    ctx.rule("R-C02.2", "precedence climbing: exit on strictly lower precedence, recurse only for strictly tighter operators with (next_prec, rhs), operands at cast level")
    ctx.rule("R-C02.4", "adjacent string literals: the accumulated spelling loses exactly its closing quote and every following piece exactly its prefix and opening quote (prefix lengths from the lexer's token languages)")
    ctx.rule("R-C02.5", "the expression slots of statements (conditions, loop clauses, return / expression statements) are parsed at the grammar level C gives them - a full comma expression (decided by the reviewed statement wiring of C05)")
    ctx.rule("R-C02.3", "every expression production wires operators, operands (parsed at the right grammar level, in source order), names and spellings into its node as the reviewed reference says")
    t = S.tables()
    px = S.module("c_parser")
    sp_of = {tt: lit for tt, lit in t.fixed_tokens}
    check_table(ctx, t.binary_precedence, lambda k: sp_of.get(k), "R-C02.1", (px.rel, "_BINARY_PRECEDENCE"), "parser precedence table")

    # ---- R-C02.2 -----------------------------------------------------------------
    fn = px.method("CParser", "_parse_binary_expression")
    params = [a.arg for a in fn.args.args[1:]]
    if len(params) < 2:
        raise AnalysisError("_parse_binary_expression no longer takes (min_prec, lhs): climbing schema not recognised")
    minp, lhsp = params[0], params[1]
    # helpers of the class that just return an entry of the table (or None): `prec = self._peek_binary_prec()` reads a precedence too
    prec_helpers = set()
    for hname, h in px.methods("CParser").items():
        rets = [r.value for r in ast.walk(h) if isinstance(r, ast.Return) and r.value is not None and not (isinstance(r.value, ast.Constant) and r.value.value is None)]
        if hname != fn.name and rets and all(isinstance(v, ast.Subscript) and isinstance(v.value, ast.Name) and v.value.id == "_BINARY_PRECEDENCE" for v in rets):
            prec_helpers.add(hname)
    prec_vars = {}
    for n in ast.walk(fn):
        if isinstance(n, ast.Assign) and len(n.targets) == 1 and isinstance(n.targets[0], ast.Name):
            v = n.value
            reads = (isinstance(v, ast.Subscript) and isinstance(v.value, ast.Name) and v.value.id == "_BINARY_PRECEDENCE") or \
                    (isinstance(v, ast.Call) and isinstance(v.func, ast.Attribute) and v.func.attr in prec_helpers)
            if reads:
                prec_vars[n.targets[0].id] = (n, _loop_depth(n))
    if len(prec_vars) != 2:
        raise AnalysisError(f"precedence-climbing schema not recognised in _parse_binary_expression (precedence variables found: {sorted(prec_vars)})")
    by_line = sorted(prec_vars, key=lambda k: prec_vars[k][0].lineno)
    outer, inner = by_line[0], by_line[1]          # the operator's own precedence is read first, the look-ahead operator's second
    ok = prec_vars[inner][1] == prec_vars[outer][1] + 1
    ctx.oblige("R-C02.2", "the right operand absorbs every tighter operator: the look-ahead test sits in a loop of its own", ok, sample={"rule": "R-C02.2", "loop depth of the operator read": prec_vars[outer][1], "loop depth of the look-ahead read": prec_vars[inner][1]})
    if not ok:
        ctx.violation("R-C02.2", "climb-absorb-once", f"in _parse_binary_expression the look-ahead precedence `{inner}` is read at loop depth {prec_vars[inner][1]} (the operator's own `{outer}` at depth {prec_vars[outer][1]}): the right operand must absorb tighter "
                      "operators in a loop of its own - with a single step `i < a * b + c` groups as `(i < a * b) + c`", file=px.rel, function="CParser._parse_binary_expression", line=prec_vars[inner][0].lineno)
    FLIP = {"Lt": "Gt", "Gt": "Lt", "LtE": "GtE", "GtE": "LtE"}
    NEG = {"Lt": "GtE", "GtE": "Lt", "Gt": "LtE", "LtE": "Gt"}
    rec_calls = [c for c in ast.walk(fn) if isinstance(c, ast.Call) and isinstance(c.func, ast.Attribute) and c.func.attr == "_parse_binary_expression"]

    def role(cmp_node):
        """('break' | 'recurse', effective operator) : what happens when the comparison holds, read off the enclosing `if`"""
        cur, neg = cmp_node, False
        par = getattr(cur, "_parent", None)
        while isinstance(par, (ast.BoolOp, ast.UnaryOp)):
            if isinstance(par, ast.UnaryOp) and isinstance(par.op, ast.Not):
                neg = not neg
            cur, par = par, getattr(par, "_parent", None)
        if not isinstance(par, ast.If) or cur is not par.test:
            return None, None
        body_breaks = any(isinstance(x, ast.Break) for st in par.body for x in ast.walk(st))
        else_breaks = any(isinstance(x, ast.Break) for st in par.orelse for x in ast.walk(st))
        body_recs = any(c in rec_calls for st in par.body for c in ast.walk(st))
        blk, idx = None, None
        pp = getattr(par, "_parent", None)
        for field in ("body", "orelse"):
            bl = getattr(pp, field, None)
            if isinstance(bl, list) and any(x is par for x in bl):
                blk, idx = bl, [i for i, x in enumerate(bl) if x is par][0]
        after_recs = blk is not None and any(c in rec_calls for st in blk[idx + 1:] for c in ast.walk(st))
        if body_recs and (else_breaks or not par.orelse):
            return "recurse", neg
        if body_breaks and (after_recs or any(c in rec_calls for st in par.orelse for c in ast.walk(st))):
            return "break-else-recurse", neg
        if body_breaks:
            return "break", neg
        return None, None
    found_exit = found_rec = False
    for n in ast.walk(fn):
        if isinstance(n, ast.Compare) and len(n.ops) == 1 and isinstance(n.left, ast.Name) and isinstance(n.comparators[0], ast.Name):
            l, r = n.left, n.comparators[0]
            names = {l.id, r.id}
            op = type(n.ops[0]).__name__
            if op not in FLIP:
                continue
            if names == {outer, minp}:
                if l.id == minp:
                    op = FLIP[op]
                what, neg = role(n)
                if neg:
                    op = NEG[op]
                ok = op == "Lt" and what in ("break", "break-else-recurse")
                found_exit = True
                ctx.oblige("R-C02.2", "loop exit: prec < min_prec", ok, sample={"rule": "R-C02.2", "construct": S.unparse(n), "verdict": "strict" if ok else "NOT the schema"})
                if not ok:
                    ctx.violation("R-C02.2", f"climb-exit:{op}", f"the climbing loop must stop exactly when the operator's precedence is strictly below the bound (`{outer} < {minp}: break`); found `{S.unparse(n)}`: operators of the bound's own level would be "
                                  f"{'left to an outer call (right-to-left grouping)' if op == 'LtE' else 'mis-grouped'}", file=px.rel, function="CParser._parse_binary_expression", line=n.lineno)
            if names == {outer, inner}:
                if l.id == outer:
                    op = FLIP[op]
                what, neg = role(n)
                if neg:
                    op = NEG[op]
                # recursion must happen exactly for inner > outer: either `if inner > outer: recurse` or `if ... inner <= outer: break` followed by the recursion
                ok = (what == "recurse" and op == "Gt") or (what == "break-else-recurse" and op == "LtE")
                found_rec = True
                eff = op if what == "recurse" else NEG.get(op, op)
                ctx.oblige("R-C02.2", "recursion only for strictly tighter operator", ok, sample={"rule": "R-C02.2", "construct": S.unparse(n), "recursion happens when": f"{inner} {eff} {outer}", "verdict": "strict" if ok else "NOT the schema"})
                if not ok:
                    ctx.violation("R-C02.2", f"climb-rec:{eff}", f"the right operand may be extended only by strictly tighter operators (`{inner} > {outer}`); found `{S.unparse(n)}` (recursion when {inner} {eff} {outer}): operators of equal precedence would associate to the right", file=px.rel,
                                  function="CParser._parse_binary_expression", line=n.lineno)
    for c in rec_calls:
        pa = S.positional_args(c, fn)
        a_ok = (pa is not None and len(pa) == 2 and isinstance(pa[0], ast.Name) and pa[0].id == inner and isinstance(pa[1], ast.Name))
        ctx.oblige("R-C02.2", "recursive call passes (next_prec, rhs)", a_ok)
        if not a_ok:
            ctx.violation("R-C02.2", "climb-rec-args", f"the recursive call must pass the tighter operator's precedence and the right operand parsed so far; found `{S.unparse(c)}`", file=px.rel, function="CParser._parse_binary_expression", line=c.lineno)
    if not (found_exit and found_rec):
        raise AnalysisError("precedence-climbing schema not recognised in _parse_binary_expression (exit test or recursion test missing)")
    ctx.require_instances("R-C02.2", 3)

    # ---- R-C02.4 -------------------------------------------------------------------
    _check_concat(ctx, px)
    # ---- R-C02.3 -------------------------------------------------------------------
    # (the type string that _parse_constant computes from the suffix is decided semantically by R-C10.3, not by comparing how it is computed)
    n = WCm.run_group(ctx, "R-C02.3", WCm.EXPR - {"_parse_constant"}, lambda label, field: not WCm.is_coord_field(label, field) and not label.startswith("call:_parse_error"),
                      "expression tree wiring deviates from C's grammar", returns=True, appends=True)
    n += WCm.run_group(ctx, "R-C02.3", {"_parse_constant"}, lambda label, field: not WCm.is_coord_field(label, field) and not label.startswith("call:_parse_error") and not (label == "Constant" and field == "type"),
                       "expression tree wiring deviates from C's grammar", returns=True, appends=True)
    ctx.unit("expression productions compared", n)
    ctx.require_instances("R-C02.3", 60)
    # expression slots OUTSIDE the expression productions: the controlling expressions of statements take a full (comma) expression - 6.8.4 / 6.8.5 /
    # 6.8.6.4 - so `do ; while (a, b);` groups as one ExprList; the level each slot is parsed at is part of the reviewed statement wiring (C05)
    from . import share
    EXPR_SLOTS = (".cond:", ".expr:", ".next:", ".init:", ".iftrue:", ".iffalse:")
    share.borrow(ctx, "C05", ("R-C05.1",), "R-C02.5", keep=lambda f: any(k in f.message for k in EXPR_SLOTS), count=12)
    # "constant spellings (with the type implied by their suffix / prefix) appear in the tree exactly as written": the type computed by
    # _parse_constant for every literal class and suffix is decided by the finite abstract evaluation of C10
    ctx.rule("R-C02.6", "Constant.type is the type the literal's suffix / prefix implies, for every literal class and suffix spelling (decided by the constant-typing evaluation of C10)")
    share.borrow(ctx, "C10", ("R-C10.3",), "R-C02.6", count=40)
    ctx.info["explanation"] = ("order comparison of the folded precedence table with C99's ten levels (all operator pairs); relational recognition of the precedence-climbing schema; flow-sensitive "
                               "def-use wiring of every constructor site, return and list append of the 18 expression productions compared with the reviewed reference in sa/wiring_ref.json "
                               "(operand provenance = producing call site of the production of the right level, token provenance = set of token types the call site can consume)")
    ctx.assumptions += ["equality of run-time trees with independently computed trees is not executed", "the reviewed reference wiring (sa/wiring_ref.json) is a correct reading of C99 6.5; it was reviewed record by record (DESIGN.md Appendix B)"]
    ctx.trusted += ["E1 grammar model (token-type sets of call sites)", "sa/wiring_ref.json"]


def _prefix_lengths(lm, rule):
    """set of possible numbers of characters before the first '"' in the token language of a lexer rule (from its regex automaton)"""
    from .. import rxmodel as R
    node = next(nd for nme, nd, _ in lm.rules if nme == rule)
    d = R.language_dfa(lm.alpha, node)
    quote = lm.alpha.of_char('"')
    # states from which an accepting state is reachable
    rev = {}
    for (q, a), q2 in d.trans.items():
        rev.setdefault(q2, set()).add(q)
    live, todo = set(d.accepting), list(d.accepting)
    while todo:
        x = todo.pop()
        for y in rev.get(x, ()):
            if y not in live:
                live.add(y)
                todo.append(y)
    out, frontier = set(), {d.start}
    for depth in range(0, 6):
        nxt = set()
        for q in frontier:
            for a in range(d.n_syms):
                q2 = d.step(q, a)
                if q2 is None or q2 not in live:
                    continue
                if a == quote:
                    out.add(depth)
                else:
                    nxt.add(q2)
        frontier = nxt
        if not frontier:
            break
    if frontier:
        raise AnalysisError(f"token language {rule}: unbounded text before the opening quote")
    return out


def _check_concat(ctx, px):
    from .. import e1
    from .. import lexmodel as LM
    lm = LM.LexModel()
    toksites = e1.token_sites()
    found = 0
    for m in ("_parse_unified_string_literal", "_parse_unified_wstring_literal"):
        fn = px.method("CParser", m)
        for lp in [n for n in ast.walk(fn) if isinstance(n, ast.While)]:
            for st in lp.body:
                if not (isinstance(st, ast.Assign) and isinstance(st.targets[0], ast.Attribute) and st.targets[0].attr == "value"):
                    continue
                found += 1
                acc = S.unparse(st.targets[0])
                v = st.value
                okA = okB = False
                whyA = whyB = "not the idiom <accumulated>[:-1] + <piece>[k:]"
                if isinstance(v, ast.BinOp) and isinstance(v.op, ast.Add):
                    A, B = v.left, v.right
                    # A: acc[:-1], optionally through .rstrip() without arguments (token spellings never end in white space)
                    if isinstance(A, ast.Subscript) and isinstance(A.slice, ast.Slice) and A.slice.lower is None and S.unparse(A.slice.upper) == "-1" and A.slice.step is None:
                        base = A.value
                        if isinstance(base, ast.Call) and isinstance(base.func, ast.Attribute) and base.func.attr == "rstrip" and not base.args and not base.keywords:
                            base = base.func.value
                        okA = S.unparse(base) == acc
                        whyA = "drops exactly the closing quote" if okA else f"`{S.unparse(A)}` is not {acc}[:-1]"
                    else:
                        whyA = f"`{S.unparse(A)}` does not drop exactly one trailing character"
                    # B: piece.value[k:]  with k = prefix length + 1 for every token type the piece can have, or piece.value[piece.value.index('"') + 1:]
                    if isinstance(B, ast.Subscript) and isinstance(B.slice, ast.Slice) and B.slice.upper is None and B.slice.step is None and isinstance(B.value, ast.Attribute) and B.value.attr == "value" and isinstance(B.value.value, ast.Name):
                        piece = B.value.value.id
                        lo = B.slice.lower
                        defs = [a_ for a_ in ast.walk(lp) if isinstance(a_, ast.Assign) and isinstance(a_.targets[0], ast.Name) and a_.targets[0].id == piece and isinstance(a_.value, ast.Call)]
                        types = set()
                        for a_ in defs:
                            types |= set(toksites.get((a_.value.lineno, a_.value.col_offset), ()))
                        if not types:
                            raise AnalysisError(f"{m}: cannot determine the token types of `{piece}`")
                        plens = set()
                        for t_ in types:
                            plens |= _prefix_lengths(lm, t_)
                        if isinstance(lo, ast.Constant) and isinstance(lo.value, int):
                            okB = plens == {lo.value - 1}
                            whyB = f"piece types {sorted(types)} have {sorted(plens)} characters before the opening quote; the slice drops {lo.value}"
                        elif S.unparse(lo).replace("'\"'", "Q").replace('"\\""', "Q") in (f"{piece}.value.index(Q) + 1",) or norm(S.unparse(lo)) in (f"{piece}.value.index('\"') + 1", f'{piece}.value.index("\\"") + 1'):
                            okB = True
                            whyB = "drops everything up to and including the opening quote"
                        else:
                            whyB = f"slice start `{S.unparse(lo)}` is neither a constant nor the position after the opening quote"
                    else:
                        whyB = f"`{S.unparse(B)}` is not a suffix of the next piece's spelling"
                ok = okA and okB
                ctx.oblige("R-C02.4", f"{m}: {S.unparse(st)[:70]}", ok, sample={"rule": "R-C02.4", "method": m, "statement": S.unparse(st), "accumulated part": whyA, "following piece": whyB})
                if not ok:
                    ctx.violation("R-C02.4", f"concat:{m}", f"{m}: `{S.unparse(st)}` does not splice adjacent string literals exactly ({whyA}; {whyB}): the concatenated spelling loses or keeps characters it should not",
                                  file=px.rel, function=f"CParser.{m}", line=st.lineno, construct=S.unparse(st))
    if found < 2:
        raise AnalysisError("string-literal concatenation statements not found in _parse_unified_(w)string_literal")


def escape_merge(ctx, rid, px):
    """Adjacent literals are joined textually: an escape that ends one piece (\\x hex digits without bound, \\d octal with fewer than three digits)
    is extended by a digit that starts the next piece - C concatenates AFTER escapes are interpreted (5.1.1.2 phases 5 and 6)."""
    from .. import lexmodel as LM
    from .. import rxmodel as R
    lm = LM.LexModel()
    a = lm.alpha
    hexd = R.cls("0-9a-fA-F")
    octd = R.cls("0-7")
    anyc = R.setof(R.cs_neg(()))
    # a string token whose content ends with an extensible escape / whose content starts with a hex or octal digit
    ends_ext = R.seq(R.star(anyc), R.alt(R.seq(R.lit("\\x"), R.plus(hexd)), R.seq(R.lit("\\"), R.rep(1, 2, octd))), R.lit('"'))
    for m in ("_parse_unified_string_literal", "_parse_unified_wstring_literal"):
        fn = px.method("CParser", m)
        joins = [st for lp in ast.walk(fn) if isinstance(lp, ast.While) for st in lp.body if isinstance(st, ast.Assign) and isinstance(st.targets[0], ast.Attribute) and st.targets[0].attr == "value"
                 and isinstance(st.value, ast.BinOp) and isinstance(st.value.op, ast.Add)]
        if not joins:
            raise AnalysisError(f"{m}: the statement that joins adjacent literals was not found")
        rule_name = "STRING_LITERAL" if m == "_parse_unified_string_literal" else "WSTRING_LITERAL"
        node = next(nd for nme, nd, _ in lm.rules if nme == rule_name)
        al = R.Alphabet(list(R.charsets(node)) + list(R.charsets(ends_ext)))
        can_end = _intersects(R, al, node, ends_ext)
        separated = any(isinstance(c, ast.Constant) and isinstance(c.value, str) and c.value in ('""', '" "') for st in joins for c in ast.walk(st.value))
        ok = not can_end or separated
        ctx.oblige(rid, f"{m}: joining adjacent literals cannot extend an escape sequence", ok, sample={"rule": rid, "method": m, "a piece can end with an extensible escape": can_end, "join": S.unparse(joins[0])[:80]})
        if not ok:
            ctx.violation(rid, f"escape-merge:{m}", f"{m} joins adjacent string literals by plain text concatenation (`{S.unparse(joins[0])[:70]}`); a piece may end with a hexadecimal or short octal escape and the next piece start with a digit: "
                          "`\"\\x12\" \"3\"` (two characters then '3') becomes `\"\\x123\"` (one character) - a different string", file=px.rel, function=f"CParser.{m}", line=joins[0].lineno)


def _intersects(R, al, node_a, node_b):
    """is L(node_a) & L(node_b) non-empty?  (product search on the two DFAs)"""
    da, db = R.language_dfa(al, node_a), R.language_dfa(al, node_b)
    seen, todo = {(da.start, db.start)}, [(da.start, db.start)]
    while todo:
        x, y = todo.pop()
        if x in da.accepting and y in db.accepting:
            return True
        for s_ in range(da.n_syms):
            x2, y2 = da.step(x, s_), db.step(y, s_)
            if x2 is None or y2 is None:
                continue
            if (x2, y2) not in seen:
                seen.add((x2, y2))
                todo.append((x2, y2))
    return False


def _loop_depth(n):
    d = 0
    cur = getattr(n, "_parent", None)
    while cur is not None:
        if isinstance(cur, (ast.While, ast.For)):
            d += 1
        cur = getattr(cur, "_parent", None)
    return d
