"""C17 - the AST (minus coordinates) depends only on the token sequence.

Non-interference analysis: position information (token line/column, the
lexer's line/file bookkeeping, Coord objects, .coord attributes) may flow only
into coordinates and error messages - never into a branch that selects a
production, into another node field, or into generated text.
"""
from __future__ import annotations

import ast

from .. import astspec as A
from .. import srcmodel as S
from .. import stateflow as F
from .. import taint as TA
from ..core import AnalysisError, norm

LEVEL = "other"

LAYOUT_ATTRS = {"_pos", "_lineno", "_line_start", "_filename"}


def _ctor_resolver(spec_entries, modname):
    idx = {name: len(entries) for name, entries, _ in spec_entries}

    def node_ctor(call):
        f = call.func
        if isinstance(f, ast.Attribute) and isinstance(f.value, ast.Name) and f.value.id == "c_ast" and f.attr in idx:
            return f.attr, idx[f.attr]
        return None
    return node_ctor


TOKEN_SOURCES = {"_peek", "_advance", "_accept", "_expect", "next", "peek"}


def _token_equality(ctx, report):
    """A Token carries its line, column and file name and is a dataclass: `tok == other` compares those too.  Tokens may be tested for
    None / identity and their .type / .value compared; comparing whole tokens for (in)equality or membership lets layout decide a branch."""
    mod = S.module("c_parser")
    tok_attrs = set()
    funcs = [(f"CParser.{n}", f) for n, f in mod.methods("CParser").items()] + [(f"_TokenStream.{n}", f) for n, f in (mod.methods("_TokenStream").items() if "_TokenStream" in mod.classes else [])]

    def is_tok(e, names):
        if isinstance(e, ast.Call) and isinstance(e.func, ast.Attribute) and e.func.attr in TOKEN_SOURCES:
            return True
        if isinstance(e, ast.Name):
            return e.id in names
        if isinstance(e, ast.Attribute) and isinstance(e.value, ast.Name) and e.value.id == "self":
            return e.attr in tok_attrs
        if isinstance(e, ast.NamedExpr):
            return is_tok(e.value, names)
        if isinstance(e, ast.IfExp):
            return is_tok(e.body, names) or is_tok(e.orelse, names)
        return False
    local = {}
    for _ in range(4):                      # names and self attributes that hold tokens (to a fixed point)
        before = (len(tok_attrs), sum(len(v) for v in local.values()))
        for q, fn in funcs:
            names = local.setdefault(q, set())
            for n in ast.walk(fn):
                tv = None
                if isinstance(n, ast.Assign):
                    tv = (n.targets, n.value)
                elif isinstance(n, ast.AnnAssign) and n.value is not None:
                    tv = ([n.target], n.value)
                elif isinstance(n, ast.NamedExpr):
                    tv = ([n.target], n.value)
                if tv and is_tok(tv[1], names):
                    for t in tv[0]:
                        if isinstance(t, ast.Name):
                            names.add(t.id)
                        elif isinstance(t, ast.Attribute) and isinstance(t.value, ast.Name) and t.value.id == "self":
                            tok_attrs.add(t.attr)
        if before == (len(tok_attrs), sum(len(v) for v in local.values())):
            break
    ncmp = 0
    for q, fn in funcs:
        names = local.get(q, set())
        for n in ast.walk(fn):
            if isinstance(n, ast.Compare):
                operands = [n.left] + list(n.comparators)
                for i, op in enumerate(n.ops):
                    a, b = operands[i], operands[i + 1]
                    if not (is_tok(a, names) or is_tok(b, names)):
                        continue
                    ncmp += 1
                    none = any(isinstance(x, ast.Constant) and x.value is None for x in (a, b))
                    ok = isinstance(op, (ast.Is, ast.IsNot)) or none
                    ctx.oblige("R-C17.1", f"c_parser:{q}:token-compare:{n.lineno}:{n.col_offset}", ok, nontrivial=False)
                    if not ok:
                        report("R-C17.1", mod, q, n, "token-compare", f"`{S.unparse(n)}` compares whole Token objects: a Token is a dataclass whose equality includes line, column and file name, so two different tokens "
                               "that line markers give the same coordinates compare equal (and the same token compared after a re-lex may not): the layout of the input decides this branch")
    if ncmp < 5:
        raise AnalysisError(f"only {ncmp} comparisons involving tokens found in the parser (the token sources of R-C17.1 are stale)")


def check(ctx):
    ctx.rule("R-C17.1", "parser / transforms: position information flows only into coord arguments, .coord stores and error messages")
    ctx.rule("R-C17.2", "lexer: line / file bookkeeping flows only into token positions and error reports; layout paths write only cursor and position state")
    ctx.rule("R-C17.3", "a parenthesised primary expression returns the inner node itself")
    ctx.rule("R-C17.4", "the generator never reads coordinates or positions")
    ctx.rule("R-C17.6", "an operand and the same operand in redundant parentheses are parsed by the same productions: precedence climbing (R-C02.2), the grouping of the conditional / assignment / unary / postfix operators (R-C02.3) and look-ahead guards that admit every token an expression can start with (R-C01.4)")
    ctx.rule("R-C17.5", "redundant parentheses are redundant for the parser too: its binary precedence order is C's (shared with R-C02.1)")
    spec_entries = A.parse_cfg()

    def report(rule, mod, q, node, kind, msg):
        text = S.unparse(node)
        ctx.violation(rule, f"{mod.name}:{q}:{kind}:{norm(text)[:100]}", msg, file=mod.rel, function=q, line=getattr(node, "lineno", 0), construct=text[:200])

    # ---- R-C17.1 -----------------------------------------------------------
    pspec = TA.Spec(
        source_attrs={"lineno", "column", "coord", "filename", "line", "file"},
        source_calls={"_coord", "_tok_coord", "Coord"},
        tainted_params={"coord", "spec_coord", "first_coord", "lineno", "line", "column"},
        sink_attr_ok={"coord"},
        node_ctor=_ctor_resolver(spec_entries, "c_parser"),
        clean_calls={"hasattr", "isinstance", "_parse_error"},
        skip_classes={"Coord"},   # the coordinate value class itself
        skip_functions={"_tok_coord", "_coord"},   # the coordinate constructors: they are the sources, what they compute is position data by definition
    )
    for modname in ("c_parser", "ast_transforms"):
        mod = S.module(modname)
        an = TA.Analysis(mod, pspec).run()
        ctx.unit(f"functions in {modname}", len(an.funcs))
        nsrc = 0
        for q, node, kind, ok in an.sites:
            ctx.oblige("R-C17.1", f"{modname}:{q}:{kind}:{getattr(node, 'lineno', 0)}:{getattr(node, 'col_offset', 0)}", ok,
                       nontrivial=kind in ("ctor-arg", "branch", "attr-store", "ctor-coord"),
                       sample={"rule": "R-C17.1", "function": q, "sink": kind, "construct": S.unparse(node)[:100], "verdict": "position-free" if ok else "POSITION FLOWS HERE"} if (not ok or ctx.obligations % 97 == 0) else None)
        for q, node, kind, msg in an.violations:
            report("R-C17.1", mod, q, node, kind, msg)
        ctx.info.setdefault("tainted_returns", {})[modname] = {q: repr(v) for q, v in an.ret.items() if v != TA.U}
    _token_equality(ctx, report)
    ctx.require_instances("R-C17.1", 400)
    # the analysis must have seen the coordinate constructor as a source (anchor check)
    pm = S.module("c_parser")
    if "_tok_coord" not in pm.methods("CParser") or "_coord" not in pm.methods("CParser"):
        raise AnalysisError("coordinate constructors CParser._coord/_tok_coord vanished: the source table of R-C17.1 is stale")

    # ---- R-C17.2 ---------------------------------------------------------------
    lmod = S.module("c_lexer")

    def lex_ctor(call):
        f = call.func
        if isinstance(f, ast.Name) and f.id == "Token":
            return "Token", None
        return None

    lspec = TA.Spec(source_self_attrs={"_lineno", "_line_start", "_filename"}, source_attrs=set(), source_calls=set(),
                    tainted_params={"lineno", "column", "line"}, sink_attr_ok={"_lineno", "_line_start", "_filename", "lineno", "column"},
                    node_ctor=None, clean_calls={"Token"})   # a Token object is not position data; its lineno/column fields are
    an = TA.Analysis(lmod, lspec).run()
    for q, node, kind, ok in an.sites:
        ctx.oblige("R-C17.2", f"c_lexer:{q}:{kind}:{getattr(node, 'lineno', 0)}:{getattr(node, 'col_offset', 0)}", ok, nontrivial=kind in ("branch", "attr-store"))
    for q, node, kind, msg in an.violations:
        report("R-C17.2", lmod, q, node, kind, msg.replace("position information", "line/file bookkeeping"))
    # Token(...) construction: type and value arguments must be position-free
    for q, (fn, cls) in an.funcs.items():
        for n in F.own_nodes(fn):
            if isinstance(n, ast.Call) and isinstance(n.func, ast.Name) and n.func.id == "Token":
                for i, a in enumerate(n.args[:2]):
                    ok = not TA.collapse(an.te(q, a))
                    ctx.oblige("R-C17.2", f"c_lexer:{q}:Token-arg{i}", ok)
                    if not ok:
                        report("R-C17.2", lmod, q, a, "token-field", "token type/value depends on line bookkeeping")
            # the cursor must never be computed from line bookkeeping
            if isinstance(n, (ast.Assign, ast.AugAssign)):
                tg = n.targets if isinstance(n, ast.Assign) else [n.target]
                for t in tg:
                    if isinstance(t, ast.Attribute) and t.attr == "_pos" and TA.collapse(an.te(q, n.value)):
                        ctx.oblige("R-C17.2", f"c_lexer:{q}:_pos-store", False)
                        report("R-C17.2", lmod, q, n, "cursor", "scan position is computed from line bookkeeping")
    # layout paths: whitespace / newline cases of token() and the #line scanner write only cursor + position state
    lex = F.classes(lmod).get("CLexer")
    if lex is None or "token" not in lex.methods or "_handle_ppline" not in lex.methods:
        raise AnalysisError("anchor CLexer.token / _handle_ppline vanished")
    layout_blocks = []
    tokfn = lex.methods["token"]
    for n in ast.walk(tokfn):
        if isinstance(n, ast.match_case):
            pats = n.pattern.patterns if isinstance(n.pattern, ast.MatchOr) else [n.pattern]
            vals = [p.value.value for p in pats if isinstance(p, ast.MatchValue) and isinstance(p.value, ast.Constant)]
            if vals and all(isinstance(v, str) and v.strip(" \t\n\r\f\v") == "" for v in vals):
                layout_blocks.append((f"token():case {vals!r}", n.body))
    if len(layout_blocks) < 2:
        raise AnalysisError("cannot find the white-space / newline cases of CLexer.token (expected a match on text[self._pos])")
    layout_blocks.append(("_handle_ppline", lex.methods["_handle_ppline"].body))
    for label, body in layout_blocks:
        writes, calls, returns = set(), set(), []
        for st in body:
            for n in ast.walk(st):
                if isinstance(n, ast.Attribute) and isinstance(n.value, ast.Name) and n.value.id == "self":
                    par = getattr(n, "_parent", None)
                    if isinstance(n.ctx, (ast.Store, ast.Del)) or (isinstance(par, ast.AugAssign) and par.target is n):
                        writes.add(n.attr)
                    if isinstance(par, ast.Call) and par.func is n:
                        calls.add(n.attr)
                if isinstance(n, ast.Return) and n.value is not None and not (isinstance(n.value, ast.Constant) and n.value.value is None):
                    returns.append(n)
        ok = writes <= LAYOUT_ATTRS and calls <= {"_error", "_handle_ppline"} and not returns
        ctx.oblige("R-C17.2", f"layout path {label}", ok, sample={"rule": "R-C17.2", "path": label, "writes": sorted(writes), "calls": sorted(calls)})
        if not ok:
            ctx.violation("R-C17.2", f"c_lexer:layout:{label}", f"layout path {label} writes {sorted(writes - LAYOUT_ATTRS)} / calls {sorted(calls - {'_error', '_handle_ppline'})} / returns a value: white space or #line would influence more than positions",
                          file=lmod.rel, function="CLexer." + label.split(":")[0])
    from . import c09
    c09.scanner_sibling_rules(ctx, "R-C17.2", "R-C17.2")   # blanks are skipped by loops everywhere: the amount of white space never reaches a token
    ctx.require_instances("R-C17.2", 20)

    # ---- R-C17.3 / R-C17.5 -------------------------------------------------------------
    from .. import wiring as W
    from . import c02
    px = S.module("c_parser")
    w = W.of("c_parser", "CParser", "_parse_primary_expression")
    bare = [(st, d) for st, v, _g, _e in w.returns for d in v if d[0] == "call" and d[1] == "_parse_expression"]
    wrapped = [s_ for s_ in w.sites if any(d[0] == "call" and d[1] == "_parse_expression" for a in list(s_.node._args) + list(s_.node._kws.values()) for d in a)
               and not (isinstance(s_.node.func, ast.Attribute) and s_.node.func.attr in W.TOKEN_HELPERS)]
    ok = bool(bare) and not wrapped
    ctx.oblige("R-C17.3", "'(' expression ')' returns the inner node", ok, sample={"rule": "R-C17.3", "returns": [S.unparse(st) for st, _ in bare], "wrapping calls": [S.unparse(s_.node)[:80] for s_ in wrapped]})
    if not ok:
        ctx.violation("R-C17.3", "paren-wrapper", "the parenthesised primary expression does not return the inner expression node itself (it is wrapped or passed through a call): redundant parentheses leave a trace in the AST",
                      file=px.rel, function="CParser._parse_primary_expression", line=(wrapped[0].node.lineno if wrapped else w.fn.lineno))
    holders = {n for n, ds in ((k, v) for _st, _v, _g, env in w.returns for k, v in env.items() if not k.startswith("$")) if any(d[0] == "call" and d[1] == "_parse_expression" for d in ds)}
    for n in ast.walk(w.fn):
        if isinstance(n, (ast.Assign, ast.AugAssign)):
            for t in (n.targets if isinstance(n, ast.Assign) else [n.target]):
                if isinstance(t, ast.Attribute) and isinstance(t.value, ast.Name) and t.value.id in holders:
                    ctx.oblige("R-C17.3", f"store on the inner node: {S.unparse(n)}", False)
                    ctx.violation("R-C17.3", f"paren-mark:{t.attr}", f"`{S.unparse(n)}` marks the node of a parenthesised expression: redundant parentheses change the AST", file=px.rel, function="CParser._parse_primary_expression", line=n.lineno)
    # grouping is recognised in one place: inside the expression productions, _parse_expression is entered only after '(' in the primary
    # expression, after '[' (subscripts) and after '?' - any other entry is a second bracketing rule that redundant parentheses can trip over
    from .. import e1
    from . import wiring_common as WCm
    ex_, _g = e1.get()
    ENTRY_OK = {("_parse_primary_expression", "LPAREN"), ("_parse_postfix_expression", "LBRACKET"), ("_parse_offsetof_member_designator", "LBRACKET"), ("_parse_conditional_expression", "CONDOP"),
                ("_parse_expression_opt", "<entry>")}
    entries = set()
    for key, prod in ex_.prods.items():
        if key[0] not in WCm.EXPR:
            continue
        out = prod.out()
        seen_, todo = set(), [(prod.start, "<entry>")]
        while todo:
            node, last = todo.pop()
            if (node, last) in seen_:
                continue
            seen_.add((node, last))
            for e in out.get(node, []):
                cur = last
                for ev in e.events:
                    if ev[0] == "consume":
                        cur = "|".join(sorted(ev[1]))
                    elif ev[0] == "call":
                        if ev[1] == "_parse_expression":
                            entries.add((key[0], cur, ev[4]))
                        cur = "<after " + ev[1] + ">"
                todo.append((e.dst, cur))
    if len({(m_, l_) for m_, l_, _ in entries}) < 4:
        raise AnalysisError(f"only {len(entries)} entries into _parse_expression found in the expression productions (confirmed by reading: 5)")
    for m_, last, line in sorted(entries):
        ok = (m_, last) in ENTRY_OK
        ctx.oblige("R-C17.3", f"{m_}: expression entered after {last}", ok, sample={"rule": "R-C17.3", "production": m_, "token consumed just before _parse_expression": last, "verdict": "reviewed entry" if ok else "SECOND GROUPING RULE"})
        if not ok:
            ctx.violation("R-C17.3", f"expression-entry:{m_}:{last}", f"{m_} (line {line}) enters _parse_expression after consuming {last}: besides the parenthesised primary expression this is a second rule that consumes `( expression )` "
                          "(or another bracketing), so an operand wrapped in redundant parentheses is parsed by a different production than the bare operand (e.g. `sizeof (a)[0]` vs `sizeof a[0]`)",
                          file=px.rel, function=f"CParser.{m_}", line=line)
    from . import share
    share.borrow(ctx, "C02", ("R-C02.2",), "R-C17.6", count=4)
    # ... and the grouping of the operators that do not go through precedence climbing (conditional, assignment, unary, cast, postfix, comma) must be C's too:
    # redundant parentheses are placed where C's grammar groups, so a parser that groups otherwise gives `a ? b : c ? d : e` and `a ? b : (c ? d : e)` different trees
    share.borrow(ctx, "C02", ("R-C02.3",), "R-C17.6", count=20)
    share.borrow(ctx, "C01", ("R-C01.4",), "R-C17.6", count=20)
    t_ = S.tables()
    sp_of = {tt: lit for tt, lit in t_.fixed_tokens}
    c02.check_table(ctx, t_.binary_precedence, lambda k: sp_of.get(k), "R-C17.5", (px.rel, "_BINARY_PRECEDENCE"), "parser precedence table")

    # ---- R-C17.4 ---------------------------------------------------------------------
    gmod = S.module("c_generator")
    nread = 0
    for n in ast.walk(gmod.tree):
        if isinstance(n, ast.Attribute):
            nread += 1
            bad = n.attr in ("coord", "lineno", "column", "line", "file", "filename")
            ctx.oblige("R-C17.4", f"c_generator:{n.lineno}:{n.attr}", not bad, nontrivial=bad)
            if bad:
                fn = S.enclosing_function(n)
                report("R-C17.4", gmod, getattr(fn, "name", "<module>"), getattr(n, "_parent", n), "coord-read", f"generator reads position attribute .{n.attr}: generated text would depend on layout")
        if isinstance(n, ast.Call) and isinstance(n.func, ast.Name) and n.func.id in ("getattr", "vars") or (isinstance(n, ast.Attribute) and n.attr == "__slots__"):
            fn = S.enclosing_function(n)
            if fn is not None and fn.name not in ("visit",):
                ctx.oblige("R-C17.4", f"c_generator:{n.lineno}:reflective", False)
                report("R-C17.4", gmod, fn.name, n, "reflective", "generator inspects nodes reflectively (could reach coord)")
    ctx.require_instances("R-C17.4", 200)
    ctx.info["explanation"] = ("forward information-flow analysis with tuple/collection shapes, return summaries and parameter propagation over "
                               "all functions of c_parser.py, ast_transforms.py and c_lexer.py; sinks are branch conditions, constructor arguments, attribute "
                               "stores, token fields and the scan cursor; plus write-effect check of the lexer's layout paths and an attribute-read scan of the generator")
    ctx.assumptions += ["#pragma text is line-oriented by definition and outside the property's quantifier",
                        "flow-insensitive per function: a variable is position-dependent if any assignment to it is"]
    ctx.trusted += ["CPython ast parser", "source/sink tables in sa/props/c17.py"]
