"""C11 - coordinates point at the real source location of every construct and error.

Decided: every node of the classes the property names is built with a coordinate; the coordinate of each node comes from
the token / sub-node the reviewed reference names (the spelling token for identifiers, constants and declared names; a
token consumed inside the construct otherwise); line, column AND file are stamped on the token when it is lexed and
_tok_coord uses exactly those; error locations come from tokens, nodes or the file name.  That line numbers equal those
of an independent re-lexing of a concrete input is not executed.
"""
from __future__ import annotations

import ast

from .. import callgraph as CG
from .. import srcmodel as S
from .. import wirecheck as WC
from ..core import AnalysisError
from . import wiring_common as WCm

LEVEL = "other"
MUST_HAVE_COORD = {"Decl", "Typedef", "FuncDef", "ID", "Constant", "UnaryOp", "BinaryOp", "TernaryOp", "Assignment", "Cast", "ArrayRef", "StructRef", "FuncCall",
                   "CompoundLiteral", "ExprList", "If", "While", "DoWhile", "For", "Switch", "Case", "Default", "Label", "Goto", "Break", "Continue", "Return",
                   "Compound", "EmptyStatement", "Pragma", "StaticAssert", "DeclList", "Enumerator", "Enum", "Struct|Union", "PtrDecl", "FuncDecl", "ArrayDecl",
                   "EllipsisParam", "ParamList", "InitList", "Alignas", "EnumeratorList"}


# coordinate-less constructor sites outside the placeholder idiom, one construct each
COORDLESS_OK = {
    ("_parse_translation_unit_or_empty", "FileAST"): "the root node stands for the whole input, not for a token; the property does not list it",
    ("_parse_struct_declaration", "IdentifierType"): "legacy branch for non-node entries of spec['type']; every producer of type specifiers stores nodes (R-C03.2 sites), so the branch is dead",
}


def _placeholder_context(c, fn, spec):
    """How a coordinate-less constructor call is used, when that use cannot expose its missing coordinate; None otherwise."""
    cur = c
    par = getattr(cur, "_parent", None)
    while isinstance(par, ast.BoolOp):       # `decl or TypeDecl(...)`
        cur, par = par, getattr(par, "_parent", None)
    if isinstance(par, ast.keyword) and par.arg in ("type", "base_type"):
        return f"{par.arg}= operand of a located node"
    if isinstance(par, ast.Call) and isinstance(par.func, ast.Attribute) and isinstance(par.func.value, ast.Name) and par.func.value.id == "c_ast" and par.func.attr in spec:
        idx = next((i for i, a in enumerate(par.args) if a is cur), None)
        if idx is not None and idx < len(spec[par.func.attr]) and spec[par.func.attr][idx].rstrip("*") == "type":
            return "type operand of a located node"
    if isinstance(par, ast.Assign) and len(par.targets) == 1 and isinstance(par.targets[0], ast.Name) and fn is not None:
        v = par.targets[0].id
        uses = [n_ for n_ in ast.walk(fn) if isinstance(n_, ast.Name) and n_.id == v and isinstance(n_.ctx, ast.Load)]
        if uses and all(isinstance(getattr(u, "_parent", None), ast.Call) and S.unparse(getattr(u, "_parent").func).endswith("_type_modify_decl") and getattr(u, "_parent").args and getattr(u, "_parent").args[0] is u for u in uses):
            return "spliced under a located modifier by _type_modify_decl"
    return None


def check(ctx):
    ctx.rule("R-C11.1", "every node of the classes named by the property is constructed with a coordinate that cannot be None")
    ctx.rule("R-C11.7", "a node built without a coordinate is only ever the `type` operand of a node that has one (declarator placeholders): its missing coordinate can never become a node's coordinate or an error location")
    ctx.rule("R-C11.2", "the coordinate of every constructed node comes from the token / sub-node the reviewed reference names (spelling token for names and constants, a token of the construct otherwise)")
    ctx.rule("R-C11.4", "line, column and file are stamped on the token when it is lexed (only in _make_token, from the start offset) and _tok_coord uses the token's own values")
    ctx.rule("R-C11.6", "error locations: every _parse_error location is a token / node coordinate or the file name; the illegal-character error passes the offending offset")
    px, lx = S.module("c_parser"), S.module("c_lexer")
    cur = WC.current()
    # ---- R-C11.1 ---------------------------------------------------------------
    n = 0
    for m, info in sorted(cur.items()):
        for label, fields in info["records"]:
            cls = label.split(">")[-1]
            if cls not in MUST_HAVE_COORD:
                continue
            c = fields.get("coord")
            ok = c is not None and "None" not in c
            n += 1
            ctx.oblige("R-C11.1", f"{m}:{cls}:{c}", ok, sample={"rule": "R-C11.1", "method": m, "node": cls, "coord": c} if (not ok or n % 23 == 0) else None)
            if not ok:
                ctx.violation("R-C11.1", f"nocoord:{m}:{cls}", f"{m} builds a {cls} node {'without a coordinate' if c is None else 'whose coordinate can be None'} ({c})", file=px.rel, function=m)
    ctx.require_instances("R-C11.1", 70)
    # ---- R-C11.7 ------------------------------------------------------------------
    from .. import astspec as A
    spec = {nme: [e for e, _ in ents] for nme, ents, _ in A.parse_cfg()}
    n7 = 0
    for mod in (px, S.module("ast_transforms")):
        for c in ast.walk(mod.tree):
            if not (isinstance(c, ast.Call) and isinstance(c.func, ast.Attribute) and isinstance(c.func.value, ast.Name) and c.func.value.id == "c_ast" and c.func.attr in spec):
                continue
            fields = spec[c.func.attr] + ["coord"]
            got = {fields[i]: a for i, a in enumerate(c.args) if i < len(fields)}
            got.update({k_.arg: k_.value for k_ in c.keywords})
            cv = got.get("coord")
            if not (cv is None or (isinstance(cv, ast.Constant) and cv.value is None)):
                continue
            fn = S.enclosing_function(c)
            q = fn.name if fn is not None else "<module>"
            how = _placeholder_context(c, fn, spec)
            ok = how is not None or (q, c.func.attr) in COORDLESS_OK
            n7 += 1
            ctx.oblige("R-C11.7", f"{q}:{c.func.attr}@{S.unparse(c)[:40]}", ok, sample={"rule": "R-C11.7", "function": q, "node": S.unparse(c)[:60], "context": how or COORDLESS_OK.get((q, c.func.attr), "ESCAPES")})
            if not ok:
                ctx.violation("R-C11.7", f"coordless-escapes:{q}:{c.func.attr}", f"{q} builds `{S.unparse(c)[:70]}` without a coordinate and the node is not just the `type` operand of a located node: whoever reads its .coord (the enclosing declaration, an error message) gets None",
                              file=mod.rel, function=q, line=c.lineno, construct=S.unparse(getattr(c, "_parent", c))[:120])
    ctx.require_instances("R-C11.7", 5)
    # ---- R-C11.2 ------------------------------------------------------------------
    allm = set(cur) | set(WC.load_ref())
    k = WCm.run_group(ctx, "R-C11.2", allm, lambda label, field: WCm.is_coord_field(label, field) and not label.startswith("call:_parse_error"),
                      "coordinate provenance deviates from the reviewed reference", returns=False, appends=True,
                      append_filter=lambda tgt, op: op.startswith("store") and tgt.endswith(".coord"))     # ... and so does every coordinate stored into an existing node
    ctx.require_instances("R-C11.2", 90)
    # ---- R-C11.4 ----------------------------------------------------------------------
    mk = lx.method("CLexer", "_make_token")
    toks = [c for fn in lx.methods("CLexer").values() for c in ast.walk(fn) if isinstance(c, ast.Call) and isinstance(c.func, ast.Name) and c.func.id == "Token"]
    only = all(S.enclosing_function(c) is mk for c in toks) and len(toks) == 1
    ctx.oblige("R-C11.4", "Token objects are created only in _make_token", only)
    if not only:
        ctx.violation("R-C11.4", "token-sites", "Token(...) must be constructed only in CLexer._make_token, where its position is computed", file=lx.rel, function="CLexer")
    if toks:
        c = toks[0]
        posname = mk.args.args[3].arg if len(mk.args.args) > 3 else "pos"
        from .c09 import _single_def
        # Token is a dataclass: its fields, in order, are its constructor parameters - arguments read the same by position or by keyword
        tcls = lx.classes.get("Token")
        tfields = [st.target.id for st in tcls.body if isinstance(st, ast.AnnAssign) and isinstance(st.target, ast.Name)] if tcls is not None else ["type", "value", "lineno", "column", "filename"]
        byname = dict(zip(tfields, c.args))
        for k_ in c.keywords:
            if k_.arg:
                byname[k_.arg] = k_.value
        colarg = byname.get("column")
        colexpr = colarg
        if isinstance(colarg, ast.Name):
            d = _single_def(mk, colarg.id)
            colexpr = d if isinstance(d, ast.AST) else None
        col_defs = [colexpr] if colexpr is not None else []
        col_ok = colexpr is not None and S.unparse(colexpr) == f"{posname} - self._line_start + 1"
        args = [f"{f_}={S.unparse(byname[f_])}" for f_ in tfields if f_ in byname]
        ok = col_ok and "lineno" in byname and S.unparse(byname["lineno"]) == "self._lineno" and "filename" in byname and S.unparse(byname["filename"]) == "self._filename"
        ctx.oblige("R-C11.4", "token position = (current line, start offset - line start + 1, current file)", ok, sample={"rule": "R-C11.4", "Token args": args, "column": S.unparse(col_defs[0]) if col_defs else None})
        if not ok:
            ctx.violation("R-C11.4", "token-position", f"_make_token must stamp Token(type, value, self._lineno, pos - self._line_start + 1, self._filename); found args {args}, column = {S.unparse(col_defs[0]) if col_defs else None}", file=lx.rel, function="CLexer._make_token")
    # fields of Token are never re-assigned in the package
    for mod in S.all_modules():
        for n in ast.walk(mod.tree):
            if isinstance(n, ast.Attribute) and isinstance(n.ctx, ast.Store) and n.attr in ("lineno", "column") and mod.name in ("c_lexer", "c_parser"):
                ctx.oblige("R-C11.4", f"{mod.name}:{n.lineno} store .{n.attr}", False)
                ctx.violation("R-C11.4", f"restamp:{mod.name}:{n.attr}", f"a token's .{n.attr} is re-assigned after lexing", file=mod.rel, function=getattr(S.enclosing_function(n), "name", ""), line=n.lineno)
    from . import c09
    c09.token_spelling_sites(ctx, "R-C11.4")      # the offset a token is stamped with is where its spelling starts
    from . import share
    share.borrow(ctx, "C09", ("R-C09.4",), "R-C11.4")    # ... and the line start the column is measured from is the offset after the last newline
    tc = px.method("CParser", "_tok_coord")
    tokp = tc.args.args[1].arg
    coords = [c for c in ast.walk(tc) if isinstance(c, ast.Call) and S.unparse(c.func) in ("Coord", "self._coord")]
    uses = {S.unparse(a) for c in coords for a in list(c.args) + [k.value for k in c.keywords]}
    ok = {f"{tokp}.lineno", f"{tokp}.column"} <= uses and f"{tokp}.filename" in uses
    ctx.oblige("R-C11.4", "_tok_coord uses the token's line, column and file", ok, sample={"rule": "R-C11.4", "arguments": sorted(uses)})
    if not ok:
        ctx.violation("R-C11.4", "tok-coord", f"_tok_coord must build the coordinate from the token's own lineno, column and filename (found {sorted(uses)}): reading the lexer's current file name when a node is built mislocates nodes that precede a #line marker", file=px.rel, function="CParser._tok_coord")
    # every exit of _tok_coord / _coord hands out a coordinate built right there from its own arguments: no memo, no state
    for fname in ("_tok_coord", "_coord"):
        f2 = px.method("CParser", fname)
        rets = [r for r in ast.walk(f2) if isinstance(r, ast.Return)]
        fresh = all(isinstance(r.value, ast.Call) and S.unparse(r.value.func) in ("Coord", "self._coord") for r in rets) and bool(rets)
        writes = sorted({S.unparse(t) for n in ast.walk(f2) if isinstance(n, (ast.Assign, ast.AugAssign, ast.AnnAssign)) for t in (n.targets if isinstance(n, ast.Assign) else [n.target]) if isinstance(t, (ast.Attribute, ast.Subscript))})
        reads = sorted({n.attr for n in ast.walk(f2) if isinstance(n, ast.Attribute) and isinstance(n.value, ast.Name) and n.value.id == "self"} - {"_coord", "clex"})
        ok = fresh and not writes and not reads
        ctx.oblige("R-C11.4", f"{fname} is a pure function of its token / arguments", ok, sample={"rule": "R-C11.4", "function": fname, "returns": [S.unparse(r.value)[:60] for r in rets if r.value is not None], "state written": writes, "state read": reads})
        if not ok:
            ctx.violation("R-C11.4", f"coord-not-pure:{fname}", f"{fname} must return a coordinate constructed from its own arguments on every path; it {'returns a value that is not constructed there' if not fresh else ''}"
                          f"{' writes ' + str(writes) if writes else ''}{' reads self.' + ', self.'.join(reads) if reads else ''}: a remembered coordinate can belong to another token (same line and column in another file, or after a #line)",
                          file=px.rel, function=f"CParser.{fname}", line=f2.lineno)
    cg = CG.ClassCalls("c_parser", "CParser")
    callers = cg.callers("_coord")
    ok = callers <= {"_tok_coord", "_lex_error_func"}
    ctx.oblige("R-C11.4", "_coord (lexer's current file) is used only at lex time and as _tok_coord's fallback", ok)
    if not ok:
        ctx.violation("R-C11.4", f"coord-callers:{sorted(callers)}", f"_coord reads the lexer's *current* file name; it is called from {sorted(callers)}: only _tok_coord (fallback) and _lex_error_func (lex time) may use it", file=px.rel, function="CParser._coord")
    # ---- R-C11.6 ---------------------------------------------------------------------------
    k2 = WCm.run_group(ctx, "R-C11.6", allm, lambda label, field: label == "call:_parse_error" and field in ("p0", "p1", "p1@coord"), "error location deviates from the reviewed reference", returns=False, appends=False,
                       label_filter=lambda lab: lab == "call:_parse_error", global_records=True)
    mt = lx.method("CLexer", "_match_token")
    ill = [c for c in ast.walk(mt) if isinstance(c, ast.Call) and getattr(c.func, "attr", "") == "_error" and c.args and "Illegal character" in S.unparse(c.args[0])]
    ok = False
    if len(ill) == 1 and len(ill[0].args) == 2:
        from .c09 import _single_def as _sd
        where = ill[0].args[1]
        idx = [x.slice for x in ast.walk(ill[0].args[0]) if isinstance(x, ast.Subscript)]     # the character the message shows: text[<offset>]
        origin = _sd(mt, where.id) if isinstance(where, ast.Name) else where
        ok = bool(idx) and all(S.unparse(i) == S.unparse(where) for i in idx) and isinstance(origin, ast.AST) and S.unparse(origin) == "self._pos"
    ctx.oblige("R-C11.6", "illegal character error is located at the offending offset", ok)
    if not ok:
        ctx.violation("R-C11.6", "illegal-char-pos", "the 'Illegal character' error must be reported at the offset of that character", file=lx.rel, function="CLexer._match_token")
    er = lx.method("CLexer", "_error")
    ok = S.unparse(er.body[-2].value if len(er.body) >= 2 and isinstance(er.body[-2], ast.Assign) else ast.Constant(0)) == f"{er.args.args[2].arg} - self._line_start + 1"
    ctx.oblige("R-C11.6", "_error computes the column from the offset it is given", ok)
    if not ok:
        ctx.violation("R-C11.6", "error-column", "CLexer._error must compute column = pos - self._line_start + 1", file=lx.rel, function="CLexer._error")
    ctx.require_instances("R-C11.6", 25)
    ctx.info["explanation"] = ("def-use provenance of the coord argument of every constructor site and every _parse_error call (which token / sub-node it comes from), compared with the reviewed reference; "
                               "structural rules on token stamping (_make_token) and on _tok_coord; who-may-call rule on _coord")
    ctx.assumptions += ["that line numbers equal an independent re-lexing of a concrete input is not executed (position bookkeeping of the lexer is C09's R-C09.4)"]
    ctx.trusted += ["sa/wiring_ref.json"]
