"""R-C10.3 / R-C06.1 - constant typing: finite abstract evaluation of CParser._parse_constant.

_parse_constant observes its token only through tok.type, membership of the last
few characters of tok.value in constant tuples, and passes tok.value through.
The tokeniser model (E2) gives, per literal class, the exact set of possible
"last three characters" windows (projected on the letters the function tests).
The function is evaluated on every (class, window) pair of that finite
abstraction: reached `raise` statements are escapes, returned type strings are
compared with the reference typing.
"""
from __future__ import annotations

import ast
from collections import deque

from .. import lexmodel as LM
from .. import rxmodel as R
from .. import srcmodel as S
from ..core import AnalysisError

WINDOW = 3

INT_TYPES = {"": "int", "u": "unsigned int", "l": "long int", "ul": "unsigned long int", "lu": "unsigned long int",
             "ll": "long long int", "ull": "unsigned long long int", "llu": "unsigned long long int"}


def observed_letters(fn):
    """Single-character string constants the function compares characters with."""
    out = set()
    for n in ast.walk(fn):
        if isinstance(n, ast.Constant) and isinstance(n.value, str) and len(n.value) == 1:
            out.add(n.value)
    return out


def windows(T: LM.TokAutomaton, m: LM.LexModel, letters):
    """Exact sets of abstract windows (tuples over letters + '.') of the last <=3 characters of the full-length tokens of every class."""
    a = m.alpha
    sym_letter = {s: "." for s in range(a.n)}
    for ch in letters:
        sym_letter[a.of_char(ch)] = ch
    succ = {}
    for i in range(len(T.keys)):
        succ[i] = sorted({(T.trans[(i, s)], sym_letter[s]) for s in range(a.n)})
    out = {}
    seen = {(0, ())}
    dq = deque(seen)
    while dq:
        i, w = dq.popleft()
        o = T.outcome[i]
        if o["kind"] == "regex" and o["full"]:
            out.setdefault(o["label"], set()).add(w)
        for j, letter in succ[i]:
            w2 = (w + (letter,))[-WINDOW:]
            if (j, w2) not in seen:
                seen.add((j, w2))
                dq.append((j, w2))
    return out


class Escape(Exception):
    def __init__(self, node):
        self.node = node


class Evaluator:
    """Evaluates the statement subset used by _parse_constant on one abstract token."""

    def __init__(self, fn, tables, tok_type, window, prefix="00000", filler="7"):
        self.fn, self.tables = fn, tables
        self.env = {}
        self.tok_type = tok_type
        # a representative spelling whose last characters realise the window ('.' = a character none of the tests mention); the function is
        # run on two representatives that differ everywhere outside the window letters: equal results show that only the window is observed
        self.value = prefix + "".join(filler if c == "." else c for c in window)
        self.result = None

    def run(self):
        tokname = None
        try:
            self.block(self.fn.body)
        except StopIteration:
            pass
        return self.result

    def block(self, body):
        for st in body:
            self.stmt(st)

    def stmt(self, st):
        if isinstance(st, ast.Expr):
            if isinstance(st.value, ast.Constant):
                return
            v = self.ev(st.value)
            if isinstance(v, tuple) and v and v[0] == "ERROR-CHANNEL":
                self.result = ("error-channel",)
                raise StopIteration
            return
        if isinstance(st, ast.Assign):
            v = self.ev(st.value)
            for t in st.targets:
                if isinstance(t, ast.Name):
                    self.env[t.id] = v
                else:
                    raise AnalysisError(f"_parse_constant: unsupported assignment target at line {st.lineno}")
            return
        if isinstance(st, ast.AugAssign) and isinstance(st.target, ast.Name):
            cur = self.env[st.target.id]
            v = self.ev(st.value)
            self.env[st.target.id] = cur + v if isinstance(st.op, ast.Add) else cur - v if isinstance(st.op, ast.Sub) else cur * v
            return
        if isinstance(st, ast.If):
            if self.truth(st.test):
                self.block(st.body)
            else:
                self.block(st.orelse)
            return
        if isinstance(st, ast.For) and isinstance(st.target, ast.Name):
            for x in self.ev(st.iter):
                self.env[st.target.id] = x
                self.block(st.body)
            return
        if isinstance(st, ast.Raise):
            raise Escape(st)
        if isinstance(st, ast.Return):
            self.result = ("return", self.ev(st.value) if st.value is not None else None)
            raise StopIteration
        if isinstance(st, ast.Pass):
            return
        raise AnalysisError(f"_parse_constant: statement {type(st).__name__} at line {st.lineno} is outside the evaluated subset")

    def truth(self, e):
        return bool(self.ev(e))

    def ev(self, e):
        if isinstance(e, ast.Constant):
            return e.value
        if isinstance(e, ast.Name):
            if e.id in self.env:
                return self.env[e.id]
            if e.id in self.tables:
                return self.tables[e.id]
            raise AnalysisError(f"_parse_constant: unknown name {e.id}")
        if isinstance(e, ast.Tuple):
            return tuple(self.ev(x) for x in e.elts)
        if isinstance(e, ast.Attribute):
            base = e.value
            if isinstance(base, ast.Name) and self.env.get(base.id) == ("TOKEN",):
                if e.attr == "type":
                    return self.tok_type
                if e.attr == "value":
                    return self.value
                return ("TOKFIELD", e.attr)
            raise AnalysisError(f"_parse_constant: attribute {S.unparse(e)} outside the evaluated subset")
        if isinstance(e, ast.Subscript):
            v = self.ev(e.value)
            if isinstance(e.slice, ast.Slice):
                lo = self.ev(e.slice.lower) if e.slice.lower else None
                hi = self.ev(e.slice.upper) if e.slice.upper else None
                return v[lo:hi]
            i = self.ev(e.slice)
            return v[i]
        if isinstance(e, ast.Compare):
            left = self.ev(e.left)
            for op, c in zip(e.ops, e.comparators):
                right = self.ev(c)
                r = {ast.In: lambda a, b: a in b, ast.NotIn: lambda a, b: a not in b, ast.Eq: lambda a, b: a == b, ast.NotEq: lambda a, b: a != b,
                     ast.Gt: lambda a, b: a > b, ast.GtE: lambda a, b: a >= b, ast.Lt: lambda a, b: a < b, ast.LtE: lambda a, b: a <= b}.get(type(op))
                if r is None:
                    raise AnalysisError("_parse_constant: comparison outside the evaluated subset")
                if not r(left, right):
                    return False
                left = right
            return True
        if isinstance(e, ast.BoolOp):
            if isinstance(e.op, ast.And):
                return all(self.truth(x) for x in e.values)
            return any(self.truth(x) for x in e.values)
        if isinstance(e, ast.UnaryOp) and isinstance(e.op, ast.Not):
            return not self.truth(e.operand)
        if isinstance(e, ast.UnaryOp) and isinstance(e.op, ast.USub):
            return -self.ev(e.operand)
        if isinstance(e, ast.BinOp):
            a, b = self.ev(e.left), self.ev(e.right)
            if isinstance(e.op, ast.Add):
                return a + b
            if isinstance(e.op, ast.Mult):
                return a * b
            if isinstance(e.op, ast.Sub):
                return a - b
            if isinstance(e.op, ast.FloorDiv) and b:
                return a // b
            if isinstance(e.op, ast.Mod) and b and not isinstance(a, str):
                return a % b
            raise AnalysisError("_parse_constant: operator outside the evaluated subset")
        if isinstance(e, ast.Call):
            f = e.func
            if isinstance(f, ast.Attribute) and isinstance(f.value, ast.Name) and f.value.id == "self":
                if f.attr == "_advance":
                    return ("TOKEN",)
                if f.attr == "_tok_coord":
                    return ("COORD",)
                if f.attr == "_parse_error":
                    return ("ERROR-CHANNEL",)
            if isinstance(f, ast.Attribute) and isinstance(f.value, ast.Name) and f.value.id == "c_ast":
                return ("NODE", f.attr, tuple(self.ev(a) for a in e.args), {k.arg: self.ev(k.value) for k in e.keywords})
            if isinstance(f, ast.Name) and f.id == "len":
                return len(self.ev(e.args[0]))
            if isinstance(f, ast.Name) and f.id in ("sum", "any", "all", "min", "max", "sorted", "tuple", "list", "set", "str", "bool", "int") and not e.keywords and len(e.args) == 1:
                return {"sum": sum, "any": any, "all": all, "min": min, "max": max, "sorted": sorted, "tuple": tuple, "list": list, "set": set, "str": str, "bool": bool, "int": int}[f.id](self.ev(e.args[0]))
            if isinstance(f, ast.Attribute) and f.attr in ("rstrip", "lstrip", "strip", "lower", "upper", "endswith", "startswith", "count") and not e.keywords:
                base = self.ev(f.value)
                if isinstance(base, str):
                    return getattr(base, f.attr)(*[self.ev(a) for a in e.args])
            if isinstance(f, ast.Attribute) and f.attr == "get" and not e.keywords and 1 <= len(e.args) <= 2:
                base = self.ev(f.value)
                if isinstance(base, dict):
                    return base.get(*[self.ev(a) for a in e.args])
            raise AnalysisError(f"_parse_constant: call {S.unparse(f)} outside the evaluated subset")
        if isinstance(e, (ast.GeneratorExp, ast.ListComp, ast.SetComp)) and len(e.generators) == 1 and isinstance(e.generators[0].target, ast.Name) and not e.generators[0].is_async:
            g = e.generators[0]
            out = []
            saved = self.env.get(g.target.id, self)
            for x in self.ev(g.iter):
                self.env[g.target.id] = x
                if all(self.truth(c) for c in g.ifs):
                    out.append(self.ev(e.elt))
            if saved is self:
                self.env.pop(g.target.id, None)
            else:
                self.env[g.target.id] = saved
            return set(out) if isinstance(e, ast.SetComp) else out
        if isinstance(e, ast.IfExp):
            return self.ev(e.body) if self.truth(e.test) else self.ev(e.orelse)
        raise AnalysisError(f"_parse_constant: expression {type(e).__name__} outside the evaluated subset")


def reference_type(K, window):
    if K.startswith("INT_CONST_") and K != "INT_CONST_CHAR":
        suf = "".join(c.lower() for c in window if c in "uUlL")
        # only trailing letters count: the window is the tail of digits+suffix, letters can only be the suffix
        return INT_TYPES.get(suf)
    if K == "INT_CONST_CHAR":
        return "int"
    if K in ("FLOAT_CONST", "HEX_FLOAT_CONST"):
        last = window[-1] if window else "."
        return "float" if last in "fF" else "long double" if last in "lL" else "double"
    if K.endswith("CHAR_CONST"):
        return "char"
    return None


def _strip_spelling(r, spelling):
    """the result with the representative spelling itself (which legitimately differs between the two runs) replaced by a marker"""
    if isinstance(r, tuple):
        return tuple(_strip_spelling(x, spelling) for x in r)
    if isinstance(r, dict):
        return {k: _strip_spelling(v, spelling) for k, v in r.items()}
    if isinstance(r, str) and r == spelling:
        return "<spelling>"
    return r


def analyse(m, T):
    """Returns (results, escapes): results[(K, window)] = type string or ('error-channel',) ; escapes = [(K, window, raise node)]"""
    px = S.module("c_parser")
    fn = px.method("CParser", "_parse_constant")
    letters = observed_letters(fn)
    if not letters <= set("uUlLfF"):
        # the function tests other characters: extend the projection
        pass
    tables = {k: v for k, v in m.t.parser_sets.items()}
    classes = sorted(set().union(*(m.t.parser_sets.get(n, set()) for n in ("_INT_CONST", "_FLOAT_CONST", "_CHAR_CONST"))))
    results, escapes = {}, []
    allw = windows(T, m, letters | set("uUlLfF"))
    for K in classes:
        if not any(n == K for n, _, _ in m.rules):
            continue
        for w in sorted(allw.get(K, ())):
            outcomes = []
            for prefix, filler in (("00000", "7"), ("93x1.", "4")):
                ev = Evaluator(fn, tables, K, w, prefix, filler)
                try:
                    outcomes.append(("ok", ev.run(), ev.value))
                except Escape as esc:
                    outcomes.append(("esc", esc.node, ev.value))
            (k1, r1, v1), (k2, r2, v2) = outcomes
            if k1 != k2 or (k1 == "esc" and r1 is not r2) or (k1 == "ok" and _strip_spelling(r1, v1) != _strip_spelling(r2, v2)):
                raise AnalysisError(f"_parse_constant observes more of a {K} spelling than its last {WINDOW} characters (window abstraction too small): {''.join(w)!r}")
            if k1 == "esc":
                escapes.append((K, w, r1))
                continue
            results[(K, w)] = r1
    return fn, results, escapes


def check_typing(ctx, m, T):
    px = S.module("c_parser")
    fn, results, escapes = analyse(m, T)
    for K, w, node in escapes:
        ctx.oblige("R-C10.3", f"{K} window {''.join(w)} escapes", False)
    seen = set()
    for K, w, node in escapes:
        if (K, node.lineno) in seen:
            continue
        seen.add((K, node.lineno))
        ctx.violation("R-C10.3", f"typing-raise:{K}:{S.unparse(node.exc)[:40] if node.exc else ''}",
                      f"_parse_constant raises {S.unparse(node.exc)[:60] if node.exc else 'an exception'} for a {K} token ending in {''.join(w)!r}, a spelling the lexer does produce",
                      file=px.rel, function="CParser._parse_constant", line=node.lineno, construct=S.unparse(node))
    for (K, w), r in sorted(results.items()):
        want = reference_type(K, w)
        if r is None or r[0] != "return" or not (isinstance(r[1], tuple) and r[1][0] == "NODE"):
            ok = False
            got = r
        else:
            _, cname, args, kw = r[1]
            got = args[0] if args else kw.get("type")
            spelling_ok = (len(args) > 1 and isinstance(args[1], str) and args[1] == "00000" + "".join("7" if c == "." else c for c in w))
            ok = cname == "Constant" and got == want and spelling_ok
        ctx.oblige("R-C10.3", f"{K} ...{''.join(w)}", ok, nontrivial=bool(set(w) - {"."}),
                   sample={"rule": "R-C10.3", "class": K, "last characters": "".join(w), "type": got, "expected": want} if (not ok or (set(w) - {"."} and ctx.obligations % 9 == 0)) else None)
        if not ok:
            ctx.violation("R-C10.3", f"typing:{K}:{''.join(w)}", f"a {K} constant ending in {''.join(w)!r} gets type {got!r}, the C rules give {want!r} (or its spelling is not kept unchanged)",
                          file=px.rel, function="CParser._parse_constant", line=fn.lineno)
    ctx.require_instances("R-C10.3", 20)
    ctx.info["typing_windows"] = len(results) + len(escapes)
