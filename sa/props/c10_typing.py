"""R-C10.3 placeholder until the abstract evaluation of _parse_constant is wired in."""


def check_typing(ctx, m, T):
    return
