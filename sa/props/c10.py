"""C10 - literals are accepted iff well-formed and classified by their spelling.

Exact language comparison (strings of every length) between the tokeniser
function model extracted from c_lexer.py and reference lexical languages.
"""
from __future__ import annotations

from .. import lexmodel as LM
from .. import rxmodel as R
from .. import srcmodel as S
from ..core import AnalysisError

LEVEL = "other"


def check(ctx):
    ctx.rule("R-C10.1", "class languages: Strict_K is a subset of Lex_K, and Lex_K a subset of Strict_K + documented lenient extension, for every literal class (whole strings of any length)")
    ctx.rule("R-C10.2", "error routing: every malformed literal / comment opener is answered by an ERROR rule (or illegal character), never split into tokens")
    ctx.rule("R-C10.3", "constant typing by suffix / prefix")
    m = LM.LexModel()
    T = LM.TokAutomaton(m)
    a = m.alpha
    ctx.unit("regex rules", len(m.rules))
    ctx.unit("alphabet minterms", a.n)
    ctx.unit("leftmost-first DFA states", len(m.prio().states))
    ctx.unit("tokeniser automaton states", len(T.keys))
    ctx.info["automata"] = {"nfa_states": len(m.nfa()[0].eps), "prio_dfa_states": len(m.prio().states), "subset_dfa_states": len(m.subset().states),
                            "tokeniser_states": len(T.keys), "minterms": a.n, "combine_op": m.combine_op}
    lx = S.module("c_lexer")

    def viol(rule, key, msg, construct=""):
        ctx.violation(rule, key, msg, file=lx.rel, function="_regex_rules / _match_token", construct=construct)

    # model assumption: `$` before a final newline never changes an answer (checked by building both interpretations)
    D1, D2 = m.prio(True), m.prio(False)
    same = len(D1.states) == len(D2.states) and all(D1.trans[k][1] == D2.trans.get(k, (None, "?"))[1] for k in D1.trans)
    if not same:
        # compare as functions through a product walk
        from collections import deque
        seen = {(D1.start, D2.start)}
        dq = deque(seen)
        ok = True
        while dq and ok:
            s1, s2 = dq.popleft()
            for sym in R.syms(a):
                n1, e1 = D1.trans[(s1, sym)]
                n2, e2 = D2.trans[(s2, sym)]
                if e1 != e2 and not (sym != R.END and sym in m.nfa()[0].nl):
                    ok = False
                    break
                if (n1, n2) not in seen:
                    seen.add((n1, n2))
                    dq.append((n1, n2))
        if not ok:
            raise AnalysisError("a `$` anchor in the master regex is sensitive to 'before the final newline': outside the supported model")
    # every TOKEN / ID rule of the code must be a class the reference knows
    for name, _, act in m.rules:
        if act in ("TOKEN", "ID"):
            known = name in LM.REFERENCE
            ctx.oblige("R-C10.1", f"rule {name} known to the reference", known, nontrivial=False)
            if not known:
                viol("R-C10.1", f"unknown-class:{name}", f"lexer rule {name} produces a token class the C99/C11 reference (with documented extensions) does not know")
    for K, (strict, lenient) in LM.REFERENCE.items():
        present = any(n == K for n, _, _ in m.rules)
        parts = LM.strict_parts(strict)
        if not present:
            w = R.nonempty_word(R.union_dfa([R.language_dfa(a, p) for p in parts.values()]))
            ctx.oblige("R-C10.1", f"{K} rule present", w is None)
            if w is not None:
                viol("R-C10.1", f"missing-class:{K}", f"no lexer rule produces {K}; e.g. {a.word(w)!r} can no longer be a {K} token")
            continue
        lex = T.dfa(lambda o, K=K: o["kind"] == "regex" and o["label"] == K and o["full"])
        pds = {pn: R.language_dfa(a, p) for pn, p in parts.items()}
        sd, ld = R.union_dfa(list(pds.values())), R.language_dfa(a, lenient)
        for pn, pd in pds.items():
            w1 = R.find_in_a_not_b(pd, lex)
            ok1 = w1 is None
            ctx.oblige("R-C10.1", f"Strict_{K}[{pn}] subset of Lex_{K}", ok1,
                       sample={"rule": "R-C10.1", "class": K, "part": pn, "obligation": "every strict C99 spelling is lexed as one token of this class", "verdict": "holds" if ok1 else f"fails for {a.word(w1)!r}"})
            if not ok1:
                res = m.run(w1)
                viol("R-C10.1", f"lower:{K}:{pn}", f"well-formed {K} {a.word(w1)!r} is not returned as one {K} token (model answer: {res})", construct=a.word(w1))
        if lenient is not LM.EMPTY:
            # the documented extension is a promise too: every spelling of the documented lenient language is one token of this class
            # ('\\00'-style decimal escape runs make a multi-character constant and a one-character constant overlap: either class will do there)
            target = lex if K != "INT_CONST_CHAR" else R.union_dfa([lex, T.dfa(lambda o: o["kind"] == "regex" and o["label"] == "CHAR_CONST" and o["full"])])
            w3 = R.find_in_a_not_b(ld, target)
            ok3 = w3 is None
            ctx.oblige("R-C10.1", f"Lenient_{K} subset of Lex_{K}", ok3,
                       sample={"rule": "R-C10.1", "class": K, "obligation": "every spelling of the documented extension is lexed as one token of this class", "verdict": "holds" if ok3 else f"fails for {a.word(w3)!r}"})
            if not ok3:
                viol("R-C10.1", f"lower-ext:{K}", f"{a.word(w3)!r} belongs to the documented extension of {K} (binary integers, u8/u/U prefixes, '$' in identifiers, lenient escapes for Windows paths) but is not returned as one {K} token "
                     f"(model answer: {m.run(w3)})", construct=a.word(w3))
        w2 = R.find_in_a_not_b(lex, R.union_dfa([sd, ld]))
        ok2 = w2 is None
        ctx.oblige("R-C10.1", f"Lex_{K} subset of Strict+Lenient", ok2,
                   sample={"rule": "R-C10.1", "class": K, "obligation": "nothing outside strict C99 + documented extensions is accepted as this class", "verdict": "holds" if ok2 else f"fails for {a.word(w2)!r}"})
        if not ok2:
            viol("R-C10.1", f"upper:{K}", f"{a.word(w2)!r} is returned as a {K} token but is neither a well-formed C99 literal of that kind nor a documented extension", construct=a.word(w2))
    ctx.require_instances("R-C10.1", 30)

    # ---- R-C10.2 ---------------------------------------------------------------
    # reported as ONE error by an ERROR rule that consumes the malformed literal - not as an illegal first character followed by the rest split into other tokens
    err = T.dfa(lambda o: o["kind"] == "regex" and o["action"] == "ERROR")
    err_nonfinal = None
    for what, lang in LM.MALFORMED.items():
        if what.startswith("NONFINAL-NL "):
            # strings in which the newline is followed by more text: `$` does not match before that newline
            if err_nonfinal is None:
                err_nonfinal = LM.TokAutomaton(m, eos_nl=False).dfa(lambda o: o["kind"] == "regex" and o["action"] == "ERROR")
            what = what[len("NONFINAL-NL "):]
            w = R.find_in_a_not_b(R.language_dfa(a, lang), err_nonfinal)
        else:
            w = R.find_in_a_not_b(R.language_dfa(a, lang), err)
        ok = w is None
        ctx.oblige("R-C10.2", what, ok, sample={"rule": "R-C10.2", "malformed class": what, "verdict": "always reported as an error" if ok else f"NOT an error: {a.word(w)!r} -> {m.run(w)}"})
        if not ok:
            viol("R-C10.2", f"routing:{what}", f"malformed input {a.word(w)!r} ({what}) is not reported through the error callback: the tokeniser answers {m.run(w)}", construct=a.word(w))
    # error rules must carry a message (the assert in _match_token) except BAD_CHAR_CONST which builds its own
    for name, (act, msg) in m.t.regex_actions.items():
        if act == "ERROR":
            ok = msg is not None or name == "BAD_CHAR_CONST"
            ctx.oblige("R-C10.2", f"error rule {name} has a message", ok, nontrivial=False)
            if not ok:
                viol("R-C10.2", f"nomsg:{name}", f"ERROR rule {name} has no message: `assert msg is not None` in _match_token would fail")
    ctx.require_instances("R-C10.2", 9)
    from . import c10_typing
    c10_typing.check_typing(ctx, m, T)
    ctx.info["explanation"] = ("exact automata comparison: leftmost-first determinisation of the master regex (a model of re's backtracking order), composed with the "
                               "fixed-token scan, compared by product constructions with reference C99 6.4.4/6.4.5 languages (lower bound) and the documented lenient "
                               "languages (upper bound); malformed-literal languages are shown to reach ERROR rules; holds for strings of every length")
    ctx.info["exhaustive"] = True
    ctx.assumptions += ["Python's re implements leftmost-first backtracking semantics as modelled (ordered alternation, greedy repetition, 1-character negative look-ahead)",
                        "the reference languages in sa/lexmodel.py are a faithful reading of C99 6.4.4-6.4.5 and of the extensions documented in c_lexer.py"]
    ctx.trusted += ["re._parser (regex syntax trees)", "reference lexical languages in sa/lexmodel.py"]
