"""C04 - an identifier is a type name exactly where C scoping makes it one.

Decided: scope typestate (push/pop only from the two lexer callbacks, fired exactly on LBRACE / RBRACE), the innermost-first
lookup rule, classification order in the lexer (keyword, then typedef lookup), and the registration table (which production
registers which declared names, as typedef or as ordinary identifier).  The timing clause (hiding starts at the end of the
declarator although look-ahead tokens may already be classified) depends on the run-time interleaving of lexing and
reduction and is NOT decided.
"""
from __future__ import annotations

import ast

from .. import callgraph as CG
from .. import srcmodel as S
from .. import wirecheck as WC
from ..core import AnalysisError
from . import wiring_common as WCm

LEVEL = "other"


def check(ctx):
    ctx.rule("R-C04.1", "scope typestate: _push_scope/_pop_scope are reached only through the lexer callbacks, which fire exactly on LBRACE / RBRACE; parse() starts with one fresh scope")
    ctx.rule("R-C04.2", "lookup: scopes are searched innermost first and the first scope containing the name decides; the lexer consults the keyword map, then the typedef lookup, and only that produces TYPEID")
    ctx.rule("R-C04.3", "registration table: every call site that registers declared names does so as the reviewed reference says (typedef_namespace flag, typedef vs identifier, enumerators, parameters of a definition)")
    ctx.rule("R-C04.4", "tags, members and labels never register a name")
    ctx.rule("R-C04.5", "re-declaration of a visible type name: once a type specifier was seen (saw_type on every type-specifier branch), a TYPEID ends the specifiers and is the declared identifier")
    px, lx = S.module("c_parser"), S.module("c_lexer")
    cg = CG.ClassCalls("c_parser", "CParser")
    # ---- R-C04.5 -------------------------------------------------------------
    from . import c03
    n5 = 0
    for m in ("_parse_declaration_specifiers", "_parse_specifier_qualifier_list"):
        for br, c in c03.type_specifier_branches(px, m):
            c03.saw_type_rule(ctx, "R-C04.5", px, m, br, c)
            n5 += 1
        fn = px.method("CParser", m)
        # the TYPEID branch stops the specifier loop when a type was already seen
        tybr = [b for b in ast.walk(fn) if isinstance(b, ast.If) and isinstance(b.test, ast.Compare) and isinstance(b.test.left, ast.Attribute) and b.test.left.attr == "type"
                and any(isinstance(c_, ast.Constant) and c_.value == "TYPEID" for c_ in b.test.comparators)]
        ok = any(isinstance(s0, ast.If) and isinstance(s0.test, ast.Name) and any(isinstance(x, ast.Break) for x in s0.body) and b.body.index(s0) == 0 for b in tybr for s0 in b.body[:1])
        ctx.oblige("R-C04.5", f"{m}: a TYPEID after a type specifier ends the specifier list", ok)
        if not ok:
            ctx.violation("R-C04.5", f"typeid-break:{m}", f"{m}: the TYPEID branch does not start with `if saw_type: break`: a typedef name that follows a type specifier is consumed as a second type specifier, so `int T;` can no longer hide the typedef T",
                          file=px.rel, function=f"CParser.{m}")
    if n5 < 8:
        raise AnalysisError(f"only {n5} type-specifier branches found in the specifier loops (confirmed by reading: 10)")
    # ---- R-C04.1 -------------------------------------------------------------
    init = px.method("CParser", "__init__")
    wired = {k.arg: k.value.attr for n in ast.walk(init) for k in (n.keywords if isinstance(n, ast.Call) else []) if isinstance(k.value, ast.Attribute)}

    def passes_through(mname):
        """the method a callback stands for: itself, or - when its body only hands its arguments on (`self.T(...)` / `return self.T(...)`) - that method"""
        m_ = px.methods("CParser").get(mname)
        if m_ is None:
            return mname
        body = [st for st in m_.body if not (isinstance(st, ast.Expr) and isinstance(st.value, ast.Constant))]
        if len(body) == 1 and isinstance(body[0], (ast.Expr, ast.Return)) and isinstance(body[0].value, ast.Call) and isinstance(body[0].value.func, ast.Attribute) \
                and isinstance(body[0].value.func.value, ast.Name) and body[0].value.func.value.id == m_.args.args[0].arg:
            params = [a.arg for a in m_.args.args[1:]]
            if [S.unparse(a) for a in body[0].value.args] == params and not body[0].value.keywords:
                return body[0].value.func.attr
        return mname
    effective = {kw: passes_through(wired.get(kw, "")) for kw in ("on_lbrace_func", "on_rbrace_func", "type_lookup_func")}
    for target, kw in (("_push_scope", "on_lbrace_func"), ("_pop_scope", "on_rbrace_func")):
        callers = cg.callers(target)
        # reached only as the lexer's callback: through a pass-through wrapper, or handed to the lexer itself by the constructor
        only = {wired.get(kw)} if wired.get(kw) != target else {"__init__"}
        ok = callers == only and effective[kw] == target
        ctx.oblige("R-C04.1", f"callers of {target}", ok, sample={"rule": "R-C04.1", "method": target, "callers": sorted(callers)})
        if not ok:
            ctx.violation("R-C04.1", f"scope-callers:{target}:{sorted(callers)}", f"{target} is called from {sorted(callers)} (expected only {sorted(only)}): scopes would open/close at points that are not braces", file=px.rel, function=f"CParser.{target}")
    for kw, meth in (("on_lbrace_func", "_push_scope"), ("on_rbrace_func", "_pop_scope"), ("type_lookup_func", "_is_type_in_scope")):
        ok = effective.get(kw) == meth
        ctx.oblige("R-C04.1", f"lexer callback {kw}", ok)
        if not ok:
            ctx.violation("R-C04.1", f"callback:{kw}", f"CParser.__init__ passes {wired.get(kw)} as {kw} (expected {meth} or a method that only hands on to it)", file=px.rel, function="CParser.__init__")
    # lexer side: callbacks fire on LBRACE / RBRACE tokens only, once
    calls = {"on_lbrace_func": [], "on_rbrace_func": []}
    for mname, fn in lx.methods("CLexer").items():
        for n in ast.walk(fn):
            if isinstance(n, ast.Call) and isinstance(n.func, ast.Attribute) and n.func.attr in calls and isinstance(n.func.value, ast.Name) and n.func.value.id == "self":
                calls[n.func.attr].append((mname, n))
    for cb, tok in (("on_lbrace_func", "LBRACE"), ("on_rbrace_func", "RBRACE")):
        ok = len(calls[cb]) == 1
        if ok:
            mname, n = calls[cb][0]
            guard = _nearest_if(n)
            ok = guard is not None and _is_type_test(guard.test, tok) and n in [c for s in guard.body for c in ast.walk(s)]
        ctx.oblige("R-C04.1", f"{cb} fires exactly on {tok}", ok, sample={"rule": "R-C04.1", "callback": cb, "sites": [(m, c.lineno) for m, c in calls[cb]]})
        if not ok:
            ctx.violation("R-C04.1", f"brace-callback:{cb}", f"the lexer must call {cb} exactly once, under the test that the token just produced is {tok}; found {[(m, S.unparse(_nearest_if(c).test) if _nearest_if(c) else None) for m, c in calls[cb]]}", file=lx.rel, function="CLexer._match_token")
    scope_stack_never_empty(ctx, "R-C04.1")
    # every scope that is opened is a table of its own: the stack grows only by one fresh empty dict at a time (a table shared between
    # two levels would let a name declared in an inner block survive the closing brace, or hide one in the outer block)
    grows = []
    for mname, fn in px.methods("CParser").items():
        for n in ast.walk(fn):
            if isinstance(n, ast.Call) and isinstance(n.func, ast.Attribute) and n.func.attr in ("append", "insert", "extend", "__iadd__") and S.unparse(n.func.value) == "self._scope_stack":
                grows.append((mname, n))
            if isinstance(n, ast.AugAssign) and S.unparse(n.target) == "self._scope_stack":
                grows.append((mname, n))
    if not grows:
        raise AnalysisError("no statement grows the scope stack (scope typestate not recognised)")
    for mname, n in grows:
        fresh = isinstance(n, ast.Call) and n.func.attr == "append" and len(n.args) == 1 and ((isinstance(n.args[0], ast.Dict) and not n.args[0].keys)
                                                                                                or (isinstance(n.args[0], ast.Call) and isinstance(n.args[0].func, ast.Name) and n.args[0].func.id == "dict" and not n.args[0].args and not n.args[0].keywords))
        ok = fresh and mname == "_push_scope"
        ctx.oblige("R-C04.1", f"{mname}: `{S.unparse(n)[:50]}` opens a fresh scope table", ok, sample={"rule": "R-C04.1", "method": mname, "construct": S.unparse(n)[:60], "verdict": "fresh empty dict" if ok else "NOT a fresh table"})
        if not ok:
            ctx.violation("R-C04.1", f"scope-grow:{mname}:{" ".join(S.unparse(n).split())[:50]}", f"{mname}: `{S.unparse(n)[:70]}` - the scope stack must grow only in _push_scope and only by a fresh empty dict: a table that is shared with another level "
                          "(or pre-filled) makes declarations of one block visible in, or survive into, another", file=px.rel, function=f"CParser.{mname}", line=n.lineno)
    # the scope TABLES are written by the two registration helpers and by nothing else: an entry is never removed, replaced or copied elsewhere
    # (removing "the loop variable" from the enclosing block's table after a for statement also removes an entry that block owned before the loop)
    for mname, fn in px.methods("CParser").items():
        al_ = S.path_aliases(fn)
        for n in ast.walk(fn):
            tbl = None
            how = None
            if isinstance(n, ast.Call) and isinstance(n.func, ast.Attribute) and n.func.attr in ("pop", "popitem", "clear", "update", "setdefault", "__setitem__", "__delitem__"):
                recv = S.unparse_resolved(n.func.value, al_)
                if recv.startswith("self._scope_stack["):
                    tbl, how = recv, f".{n.func.attr}()"
            elif isinstance(n, ast.Delete):
                for t in n.targets:
                    if isinstance(t, ast.Subscript) and S.unparse_resolved(t.value, al_).startswith("self._scope_stack["):
                        tbl, how = S.unparse_resolved(t.value, al_), "del"
            elif isinstance(n, (ast.Assign, ast.AugAssign)):
                for t in (n.targets if isinstance(n, ast.Assign) else [n.target]):
                    if isinstance(t, ast.Subscript) and S.unparse_resolved(t.value, al_).startswith("self._scope_stack["):
                        tbl, how = S.unparse_resolved(t.value, al_), "store"
            if tbl is None:
                continue
            ok = mname in ("_add_typedef_name", "_add_identifier") and how == "store"
            ctx.oblige("R-C04.1", f"{mname}: {how} on a scope table", ok)
            if not ok:
                ctx.violation("R-C04.1", f"scope-table-write:{mname}:{how}", f"{mname} changes a scope table ({how} on `{tbl}`): entries are only ever ADDED, by _add_typedef_name / _add_identifier; removing or replacing an entry elsewhere "
                              "makes a name that the enclosing block declared earlier visible again as the outer typedef (or hides one)", file=px.rel, function=f"CParser.{mname}", line=n.lineno)
    parse = px.method("CParser", "parse")
    fresh = [n for n in parse.body if isinstance(n, ast.Assign) and any(isinstance(t, ast.Attribute) and t.attr == "_scope_stack" for t in n.targets)]
    ok = bool(fresh) and isinstance(fresh[0].value, ast.List) and len(fresh[0].value.elts) == 1
    ctx.oblige("R-C04.1", "parse() starts from one fresh file scope", ok)
    if not ok:
        ctx.violation("R-C04.1", "initial-scope", "parse() must start with exactly one fresh (file) scope", file=px.rel, function="CParser.parse")
    # ---- R-C04.2 ---------------------------------------------------------------
    fn = px.method("CParser", "_is_type_in_scope")
    loops = [n for n in ast.walk(fn) if isinstance(n, ast.For)]
    ok = False
    why = "no loop over the scope stack"
    if len(loops) == 1:
        lp = loops[0]
        it = lp.iter
        rev = isinstance(it, ast.Call) and isinstance(it.func, ast.Name) and it.func.id == "reversed" and isinstance(it.args[0], ast.Attribute) and it.args[0].attr == "_scope_stack"
        rev = rev or (isinstance(it, ast.Subscript) and isinstance(it.slice, ast.Slice) and isinstance(it.slice.step, ast.UnaryOp) and isinstance(it.value, ast.Attribute) and it.value.attr == "_scope_stack")
        rets = [n for n in ast.walk(lp) if isinstance(n, ast.Return)]
        name = fn.args.args[1].arg
        sv = lp.target.id if isinstance(lp.target, ast.Name) else None
        good_ret = (len(rets) == 1 and isinstance(rets[0].value, ast.Subscript) and isinstance(rets[0].value.value, ast.Name) and rets[0].value.value.id == sv
                    and isinstance(_nearest_if(rets[0]), ast.If) and S.unparse(_nearest_if(rets[0]).test) == f"{name} in {sv}")
        if not good_ret and len(rets) == 1 and isinstance(rets[0].value, ast.Name) and isinstance(_nearest_if(rets[0]), ast.If):
            # the same decision spelled with dict.get: `v = scope.get(name)` (no default, or None), `if v is not None: return v` - the scope tables
            # only ever hold True / False (checked with the registration helpers below), so "present" and "not None" coincide
            v_ = rets[0].value.id
            binds_ = [a for a in ast.walk(lp) if isinstance(a, (ast.Assign, ast.NamedExpr)) and any(isinstance(t, ast.Name) and t.id == v_ for t in (a.targets if isinstance(a, ast.Assign) else [a.target]))]
            getcall = binds_[0].value if len(binds_) == 1 else None
            good_ret = (isinstance(getcall, ast.Call) and isinstance(getcall.func, ast.Attribute) and getcall.func.attr == "get" and isinstance(getcall.func.value, ast.Name) and getcall.func.value.id == sv
                        and getcall.args and S.unparse(getcall.args[0]) == name and (len(getcall.args) == 1 or (isinstance(getcall.args[1], ast.Constant) and getcall.args[1].value is None))
                        and S.unparse(_nearest_if(rets[0]).test) in (f"{v_} is not None", f"({v_} := {S.unparse(getcall)}) is not None"))
        tail = fn.body[-1]
        falls_false = isinstance(tail, ast.Return) and isinstance(tail.value, ast.Constant) and tail.value.value is False
        ok = rev and good_ret and falls_false
        why = f"innermost-first={rev}, first-containing-scope-decides={good_ret}, default-False={falls_false}"
    ctx.oblige("R-C04.2", "_is_type_in_scope lookup rule", ok, sample={"rule": "R-C04.2", "verdict": why})
    if not ok:
        ctx.violation("R-C04.2", "lookup-rule", f"_is_type_in_scope must search the scopes innermost first, answer from the first scope that contains the name, and answer False otherwise ({why})", file=px.rel, function="CParser._is_type_in_scope")
    # single source of truth: the lookup and the registration helpers consult / update the scope stack and nothing else
    allowed = {"_is_type_in_scope": {"_scope_stack"}, "_lex_type_lookup_func": {"_is_type_in_scope"}, "_add_typedef_name": {"_scope_stack", "_parse_error"},
               "_add_identifier": {"_scope_stack", "_parse_error"}, "_push_scope": {"_scope_stack"}, "_pop_scope": {"_scope_stack", "_parse_error", "clex"}}
    for meth, okset in allowed.items():
        if meth == "_lex_type_lookup_func" and meth not in px.methods("CParser"):
            continue          # no pass-through wrapper: the lookup itself is the lexer's callback (checked above)
        f2 = px.method("CParser", meth)
        used = {n.attr for n in ast.walk(f2) if isinstance(n, ast.Attribute) and isinstance(n.value, ast.Name) and n.value.id == "self"}
        extra = sorted(used - okset)
        ctx.oblige("R-C04.2", f"{meth} consults only the scope stack", not extra, sample={"rule": "R-C04.2", "method": meth, "instance attributes used": sorted(used)})
        if extra:
            ctx.violation("R-C04.2", f"second-source:{meth}:{','.join(extra)}", f"{meth} uses self.{', self.'.join(extra)} besides the scope stack: the answer to 'is this identifier a type name' then depends on state other than the scope tables "
                          "(a memo or index that can disagree with them after a scope closes, a name is re-declared, or a new parse starts)", file=px.rel, function=f"CParser.{meth}")
    nret = len([n for n in ast.walk(fn) if isinstance(n, ast.Return)])
    ok = nret == 2
    ctx.oblige("R-C04.2", "_is_type_in_scope has no exit besides the loop hit and the final False", ok)
    if not ok:
        ctx.violation("R-C04.2", "lookup-extra-exit", f"_is_type_in_scope has {nret} return statements (expected: the hit inside the loop and the final `return False`): an extra exit answers without consulting the scopes", file=px.rel, function="CParser._is_type_in_scope")
    tl = px.methods("CParser").get(wired.get("type_lookup_func", ""))
    if tl is None:
        raise AnalysisError("the method handed to the lexer as type_lookup_func was not found")
    ok = tl.name == "_is_type_in_scope" or (any(isinstance(n, ast.Call) and isinstance(n.func, ast.Attribute) and n.func.attr == "_is_type_in_scope" for n in ast.walk(tl)) and len([n for n in ast.walk(tl) if isinstance(n, ast.Return)]) == 1)
    ctx.oblige("R-C04.2", "_lex_type_lookup_func = _is_type_in_scope", ok)
    if not ok:
        ctx.violation("R-C04.2", "lookup-callback", "_lex_type_lookup_func must answer with _is_type_in_scope(name)", file=px.rel, function="CParser._lex_type_lookup_func")
    _check_id_action(ctx, lx)
    # registration helpers themselves
    for meth, flag in (("_add_typedef_name", True), ("_add_identifier", False)):
        fn = px.method("CParser", meth)
        al = S.path_aliases(fn)
        stores = [n for n in ast.walk(fn) if isinstance(n, ast.Assign) and isinstance(n.targets[0], ast.Subscript) and S.unparse_resolved(n.targets[0].value, al) == "self._scope_stack[-1]"]
        ok = len(stores) == 1 and isinstance(stores[0].value, ast.Constant) and stores[0].value.value is flag and S.unparse(stores[0].targets[0].slice) == fn.args.args[1].arg
        ctx.oblige("R-C04.2", f"{meth} records {flag} in the innermost scope", ok)
        if not ok:
            ctx.violation("R-C04.2", f"register:{meth}", f"{meth} must store {flag} for the name in the innermost scope (self._scope_stack[-1][name] = {flag})", file=px.rel, function=f"CParser.{meth}")
        # ... and every look at the scope stack in a registration helper is a look at the innermost scope: the "previously declared in THIS scope"
        # test must read the table the name is then written to (a test against another scope rejects legal inner re-declarations / misses real conflicts)
        for n in ast.walk(fn):
            if isinstance(n, ast.Subscript) and S.unparse_resolved(n.value, al) == "self._scope_stack":
                idx = n.slice
                innermost = isinstance(idx, ast.UnaryOp) and isinstance(idx.op, ast.USub) and isinstance(idx.operand, ast.Constant) and idx.operand.value == 1
                ctx.oblige("R-C04.2", f"{meth}: scope stack read at index {S.unparse(idx)}", innermost)
                if not innermost:
                    ctx.violation("R-C04.2", f"register-scope:{meth}:{S.unparse(idx)}", f"{meth} consults `{S.unparse(n)}`: the conflict test and the registration must both use the innermost scope (self._scope_stack[-1]); with another "
                                  "index an inner typedef / identifier is checked against a scope it does not belong to", file=px.rel, function=f"CParser.{meth}", line=n.lineno)
    # ---- R-C04.3 ----------------------------------------------------------------
    # names are registered when the declarator is complete: the builders that register them consume no token themselves (a body parsed inside
    # a builder would be parsed before / after the registration it is meant to follow, in the wrong scope)
    from .. import e1 as _e1
    ex_, _g = _e1.get()
    for b in ("_build_declarations", "_build_function_definition", "_build_parameter_declaration", "_fix_decl_name_type", "_type_modify_decl", "_add_declaration_specifier"):
        ok = b not in ex_.token_effect
        if not ok and b in px.methods("CParser"):
            # a builder that parses part of the construct itself is fine as long as it parses FIRST and registers AFTERWARDS: what matters is that the
            # body of a function is complete (its closing brace consumed, its scope popped) before the function's own name is registered
            bf = px.method("CParser", b)
            prod_calls = [c for c in ast.walk(bf) if isinstance(c, ast.Call) and isinstance(c.func, ast.Attribute) and (c.func.attr in ex_.productions or c.func.attr in ("_expect", "_accept", "_advance"))]
            reg_calls = [c for c in ast.walk(bf) if isinstance(c, ast.Call) and isinstance(c.func, ast.Attribute) and c.func.attr in ("_build_declarations", "_add_identifier", "_add_typedef_name")]
            in_loop = any(isinstance(x, (ast.For, ast.While)) and any(c in list(ast.walk(x)) for c in prod_calls) for x in ast.walk(bf))
            ok = bool(prod_calls) and bool(reg_calls) and not in_loop and max((c.lineno, c.col_offset) for c in prod_calls) < min((c.lineno, c.col_offset) for c in reg_calls)
        ctx.oblige("R-C04.3", f"{b} consumes no token after it has registered a name", ok)
        if not ok:
            ctx.violation("R-C04.3", f"builder-consumes:{b}", f"{b} (which registers the declared names) now consumes tokens itself: what it parses is parsed in a different order relative to the registration - e.g. a function body parsed inside "
                          "_build_function_definition sees the function's own name registered in the body scope", file=px.rel, function=f"CParser.{b}")
    allm = set(WC.current()) | set(WC.load_ref())
    n = WCm.run_group(ctx, "R-C04.3", allm - WCm.HELPERS | {"_parse_enumerator"},
                      lambda label, field: (label in ("call:_add_identifier", "call:_add_typedef_name") and field == "p0") or (label == "call:_build_declarations" and field == "p2"),      # (name, coord) / (spec, decls, typedef_namespace)
                      "registration of declared names deviates from the reviewed table", returns=False, appends=False,
                      label_filter=lambda lab: lab in ("call:_add_identifier", "call:_add_typedef_name", "call:_build_declarations"))
    ctx.require_instances("R-C04.3", 8)
    bd = px.method("CParser", "_build_declarations")
    # the If that chooses between _add_typedef_name (body) and _add_identifier (orelse); its test is a local bound to `'typedef' in spec['storage']`
    sel = [n for n in ast.walk(bd) if isinstance(n, ast.If) and isinstance(n.test, ast.Name) and any(isinstance(s, ast.Expr) and isinstance(s.value, ast.Call) and getattr(s.value.func, "attr", "") == "_add_typedef_name" for s in n.body)]
    flagname = sel[0].test.id if len(sel) == 1 else None
    isdef = [n for n in ast.walk(bd) if isinstance(n, ast.Assign) and any(isinstance(t, ast.Name) and t.id == flagname for t in n.targets)]
    ok = (len(sel) == 1 and any(isinstance(s, ast.Expr) and isinstance(s.value, ast.Call) and getattr(s.value.func, "attr", "") == "_add_identifier" for s in sel[0].orelse)
          and len(isdef) == 1 and S.unparse(isdef[0].value) == f"'typedef' in {bd.args.args[1].arg}['storage']")
    ctx.oblige("R-C04.3", "typedef vs identifier chosen by 'typedef' in spec['storage'] alone: every other declared name is registered as an ordinary identifier, unconditionally", ok)
    if not ok:
        ctx.violation("R-C04.3", "typedef-choice", "_build_declarations must register a name as typedef exactly when 'typedef' is among the storage-class specifiers, and as ordinary identifier otherwise - unconditionally: a declaration that "
                      "is skipped (by storage class, kind of declarator, ...) does not hide an outer typedef of the same name", file=px.rel, function="CParser._build_declarations")
    # parameters of a function definition: registered iff a body follows; only the ellipsis may stop the loop
    fd = px.method("CParser", "_parse_function_decl")
    guards = [n for n in ast.walk(fd) if isinstance(n, ast.If) and "LBRACE" in S.unparse(n.test) and any(isinstance(c, ast.Call) and getattr(c.func, "attr", "") == "_add_identifier" for c in ast.walk(n))]
    ok = len(guards) == 1
    detail = ""
    if ok:
        loops = [n for n in ast.walk(guards[0]) if isinstance(n, ast.For)]
        ok = len(loops) == 1
        if ok:
            lp = loops[0]
            for ex in ast.walk(lp):
                if isinstance(ex, (ast.Break, ast.Continue, ast.Return)):
                    g = _nearest_if(ex)
                    if not (g is not None and "EllipsisParam" in S.unparse(g.test)):
                        ok = False
                        detail = f"`{type(ex).__name__.lower()}` under `{S.unparse(g.test) if g else 'no test'}`"
            adds = [c for c in ast.walk(lp) if isinstance(c, ast.Call) and getattr(c.func, "attr", "") == "_add_identifier"]
            for a in adds:
                g = _nearest_if(a)
                if g is None or not isinstance(g.test, ast.Name):
                    ok = False
                    detail = detail or "registration not guarded by `if name`"
    ctx.oblige("R-C04.3", "parameters of a definition are registered for the body, each named one, up to the ellipsis", ok)
    if not ok:
        ctx.violation("R-C04.3", f"param-registration:{detail}", f"_parse_function_decl must register every named parameter when (and only when) a function body follows; the loop may stop only at the ellipsis ({detail})", file=px.rel, function="CParser._parse_function_decl")
    # ---- R-C04.6: a declared name is registered before anything after its declarator is consumed ---------------------------------
    # C99 6.2.1p7: the scope of an identifier begins just after the completion of its declarator.  The lexer classifies an identifier as type name
    # or not when it lexes it, so the parser must register a declarator's name before it consumes a token that follows the declarator (its
    # initialiser, the next declarator of the list): `int T = 2, y = (T) - 1;` must see T as a variable in `(T) - 1`.  Decided on the event automata:
    # per production clone, a path  [declarator parsed] ... [token consumed] ... [names registered]  is a late registration.
    ctx.rule("R-C04.6", "timing: the name a declarator declares is registered before any token after that declarator is consumed (no initialiser, further declarator or body is parsed between a declarator and the registration of its name)")
    from .. import e1 as _e16
    ex6, g6 = _e16.get()
    DECLARATORS = {k for k in ex6.prods if "declarator" in k[0] and "abstract" not in k[0] and "struct" not in k[0] and "init" not in k[0] and "list" not in k[0]}
    if len({k[0] for k in DECLARATORS}) < 3:
        raise AnalysisError("declarator productions not found in the grammar model")

    NESTED_CONSTRUCTS = set(WCm.EXPR) | {"_parse_type_name", "_parse_initializer", "_parse_initializer_list", "_parse_initializer_item", "_parse_constant_expression", "_parse_compound_statement",
                                          "_parse_struct_or_union_specifier", "_parse_enum_specifier", "_parse_alignment_specifier", "_parse_atomic_specifier", "_parse_static_assert"}

    def is_reg(ev):
        if ev[0] != "opaque":
            return False
        if ev[1] in ("_add_identifier", "_add_typedef_name", "_build_function_definition"):
            return True
        return ev[1] == "_build_declarations" and any(k_ == "typedef_namespace" and v_ == ("c", True) for k_, v_ in ev[2])
    # per clone: can its subtree parse a declarator / consume a token / consume a token AFTER a declarator it parsed
    has_decl, can_consume, decl_then_consume = {}, {}, {}
    changed = True
    while changed:
        changed = False
        for k, p_ in ex6.prods.items():
            hd = cc = False
            for e_ in p_.edges:
                if e_.dst in p_.error_nodes:
                    continue
                for ev in e_.events:
                    if ev[0] == "consume":
                        cc = True
                    elif ev[0] == "call":
                        ck = (ev[1], ev[2])
                        # declarators nested inside an expression / initialiser / type name (casts, sizeof, compound literals) belong to constructs of
                        # their own: only the declarators of THIS declaration count
                        if (ck in DECLARATORS or has_decl.get(ck)) and k[0] not in NESTED_CONSTRUCTS:
                            hd = True
                        if ck in DECLARATORS or can_consume.get(ck, ck in DECLARATORS):
                            cc = cc or bool(can_consume.get(ck)) or ck in DECLARATORS
            if hd != has_decl.get(k, False) or cc != can_consume.get(k, False):
                has_decl[k], can_consume[k] = hd, cc
                changed = True

    def scan(p_, want_reg):
        """paths of one clone: state 0 = no declarator yet, 1 = a declarator was parsed, 2 = ... and a token was consumed since.
        want_reg: report registration events reached in state 2; otherwise report whether state 2 is reachable at all (for the summaries)."""
        out_ = p_.out()
        seen = {(p_.start, 0)}
        todo = [(p_.start, 0)]
        hits = []
        reach2 = False
        last_decl = [None]       # (informative: the declarator-bearing call seen last on the walk; it names the finding)
        while todo:
            node, stt = todo.pop()
            for e_ in out_.get(node, []):
                if e_.dst in p_.error_nodes:
                    continue
                cur = stt
                for ev in e_.events:
                    if ev[0] == "consume":
                        if cur == 1:
                            cur = 2
                    elif ev[0] == "call":
                        ck = (ev[1], ev[2])
                        if cur == 1 and (can_consume.get(ck) or ck in DECLARATORS):
                            cur = 2
                        if ck in DECLARATORS or has_decl.get(ck):
                            last_decl[0] = ev[1]
                            if decl_then_consume.get(ck):
                                cur = 2
                            elif cur == 0:
                                cur = 1
                    elif is_reg(ev):
                        if cur == 2 and want_reg:
                            hits.append((ev[1], last_decl[0]))
                        cur = 0          # the names parsed so far are registered now
                    if cur == 2:
                        reach2 = True
                if (e_.dst, cur) not in seen:
                    seen.add((e_.dst, cur))
                    todo.append((e_.dst, cur))
        return hits, reach2
    changed = True
    while changed:
        changed = False
        for k, p_ in ex6.prods.items():
            if k in DECLARATORS:
                continue
            _h, r2 = scan(p_, False)
            # a clone that registers what it parsed on every path is not "declarator then consumption" for its callers; approximated by: it has no
            # registration event at all and state 2 is reachable
            has_reg = any(is_reg(ev) for e_ in p_.edges for ev in e_.events)
            v = r2 and not has_reg
            if v != decl_then_consume.get(k, False):
                decl_then_consume[k] = v
                changed = True
    n6 = 0
    late = {}
    for k, p_ in sorted(ex6.prods.items(), key=str):
        if not any(is_reg(ev) for e_ in p_.edges for ev in e_.events):
            continue
        hits, _r2 = scan(p_, True)
        n6 += 1
        ok = not hits
        ctx.oblige("R-C04.6", f"{_e16.sig_text(k)}: names are registered before the tokens after their declarator are consumed", ok,
                   sample={"rule": "R-C04.6", "production": _e16.sig_text(k), "registrations reached after a declarator AND later consumption": sorted(set(hits))[:4]})
        for reg_, _d in hits:
            late.setdefault(reg_, set()).add(k[0])
    # one finding per registering call (what is late), whichever productions the path runs through: splitting or merging productions moves no key
    for reg_, prods in sorted(late.items()):
        prod = sorted(prods)[0]
        regs = {reg_}
        ctx.violation("R-C04.6", f"late-registration:{reg_}", f"in {', '.join(sorted(prods))} the registration of declared names ({', '.join(sorted(regs))}) is reached only after tokens that FOLLOW a declarator have been consumed "
                      "(an initialiser, the next declarator of the list, a parameter list's closing parenthesis, a function body): identifiers lexed in between are classified with the old meaning of the name - "
                      "`typedef int T; void f(void){ int T = 2, y = (T) - 1; }` parses `(T) - 1` as a cast", file=px.rel, function=f"CParser.{prod}")
    if n6 < 3:
        raise AnalysisError(f"only {n6} production clones with a registration event found (confirmed by reading: external declarations, declaration bodies, function declarators)")
    # ---- R-C04.7: statements that are blocks do not leak declarations -----------------------------------------------------------
    # C99 6.8.4p3 / 6.8.5p5: a selection statement and an iteration statement are blocks whose scope is a strict subset of the enclosing block's:
    # a name declared inside them (the declaration clause of a for statement) is not visible after them.  Scopes are opened and closed by the braces
    # the lexer sees, so a production "leaks" when a registration happens in its subtree outside every brace pair consumed in that subtree.
    ctx.rule("R-C04.7", "scope of statements: nothing declared inside a selection or iteration statement (for-init declarations) stays registered after the statement - every registration in their subtree lies between braces consumed in that subtree")

    def leaks_at_depth0(p_, leak_of):
        out_ = p_.out()
        seen = {(p_.start, 0)}
        todo = [(p_.start, 0)]
        found = []
        while todo:
            node, depth = todo.pop()
            for e_ in out_.get(node, []):
                if e_.dst in p_.error_nodes:
                    continue
                d = depth
                for ev in e_.events:
                    if ev[0] == "consume":
                        tys = set(ev[1])
                        if tys == {"LBRACE"}:
                            d = min(d + 1, 3)
                        elif tys == {"RBRACE"}:
                            d = max(d - 1, 0)
                    elif ev[0] == "call":
                        if d == 0 and leak_of.get((ev[1], ev[2])):
                            found.append(ev[1])
                    elif is_reg(ev) and d == 0:
                        # a registration made while the NEXT token is known to be '{' goes into the scope that brace has already opened (the lexer
                        # pushes the scope when it lexes the brace, i.e. when the parser peeks it): parameters of a function definition
                        la_ = p_.node_info[e_.src].get("la") if e_.src < len(p_.node_info) else None
                        if la_ is not None and set(la_[0]) <= {"LBRACE"}:
                            continue
                        found.append(ev[1])
                if (e_.dst, d) not in seen:
                    seen.add((e_.dst, d))
                    todo.append((e_.dst, d))
        return found
    leak = {}
    changed = True
    while changed:
        changed = False
        for k, p_ in ex6.prods.items():
            v = bool(leaks_at_depth0(p_, leak))
            if v != leak.get(k, False):
                leak[k] = v
                changed = True
    BLOCK_STATEMENTS = ("_parse_iteration_statement", "_parse_selection_statement")
    n7 = 0
    for k, p_ in sorted(ex6.prods.items(), key=str):
        if k[0] not in BLOCK_STATEMENTS:
            continue
        n7 += 1
        # (a nested statement that leaks is reported at that statement's own production: only the direct sources count here)
        what = sorted(x for x in set(leaks_at_depth0(p_, leak)) if x not in WCm.STMT)
        ok = not what
        ctx.oblige("R-C04.7", f"{_e16.sig_text(k)} keeps its declarations to itself", ok, sample={"rule": "R-C04.7", "production": _e16.sig_text(k), "registrations outside every brace pair of the statement": what})
        if not ok:
            ctx.violation("R-C04.7", f"scope-leak:{k[0]}", f"{k[0]} registers declared names (through {', '.join(what)}) outside every brace pair it consumes: they land in the ENCLOSING scope and stay there after the statement, "
                          "although C99 makes the statement a block of its own - `typedef int T; void g(void){ for (int T = 0; T < 3; T++) ; T y; }` is rejected because T is still the loop variable after the loop", file=px.rel, function=f"CParser.{k[0]}")
    if n7 < 2:
        raise AnalysisError("selection / iteration statement productions not found in the grammar model")
    # ---- R-C04.4 -----------------------------------------------------------------
    reg = {"_add_identifier", "_add_typedef_name"}
    for m in ("_parse_struct_or_union_specifier", "_parse_enum_specifier", "_parse_labeled_statement", "_parse_jump_statement", "_parse_struct_declarator", "_parse_struct_declarator_list", "_parse_postfix_expression", "_parse_designator"):
        fn = px.method("CParser", m)
        direct = {c.func.attr for c in ast.walk(fn) if isinstance(c, ast.Call) and isinstance(c.func, ast.Attribute) and c.func.attr in reg}
        ok = not direct
        ctx.oblige("R-C04.4", f"{m} registers nothing itself", ok, nontrivial=False)
        if not ok:
            ctx.violation("R-C04.4", f"registers:{m}", f"{m} registers a name ({sorted(direct)}): tags, members and labels live in their own name spaces and must not hide or create typedef names", file=px.rel, function=f"CParser.{m}")
    ctx.info["explanation"] = ("typestate / who-may-call rules on the scope stack and the brace callbacks, structural rule on the innermost-first lookup loop and on the lexer's identifier action, and the def-use "
                               "wiring of every registration call site compared with the reviewed registration table")
    ctx.assumptions += ["NOT decided: the timing clause - names are registered when a declaration is reduced while look-ahead tokens may already have been classified by the lexer (run-time interleaving)"]
    ctx.trusted += ["sa/wiring_ref.json (registration table)"]


def _no_fallthrough(body):
    last = body[-1] if body else None
    if isinstance(last, (ast.Raise, ast.Return)):
        return True
    return isinstance(last, ast.Expr) and isinstance(last.value, ast.Call) and isinstance(last.value.func, ast.Attribute) and last.value.func.attr == "_parse_error"


def _eval_len(t, L):
    """truth value of a test on the scope stack when it holds L scopes; None = the test does not speak about it"""
    if isinstance(t, ast.UnaryOp) and isinstance(t.op, ast.Not):
        v = _eval_len(t.operand, L)
        return None if v is None else not v
    if isinstance(t, ast.BoolOp):
        vs = [_eval_len(v, L) for v in t.values]
        if isinstance(t.op, ast.And):
            return False if any(v is False for v in vs) else (None if any(v is None for v in vs) else True)
        return True if any(v is True for v in vs) else (None if any(v is None for v in vs) else False)
    if S.unparse(t) == "self._scope_stack":
        return L > 0
    if isinstance(t, ast.Compare) and len(t.ops) == 1:
        l, r = t.left, t.comparators[0]
        op = type(t.ops[0])
        flip = {ast.Lt: ast.Gt, ast.Gt: ast.Lt, ast.LtE: ast.GtE, ast.GtE: ast.LtE, ast.Eq: ast.Eq, ast.NotEq: ast.NotEq}
        if S.unparse(r) == "len(self._scope_stack)" and op in flip:
            l, r, op = r, l, flip[op]
        if S.unparse(l) == "len(self._scope_stack)" and isinstance(r, ast.Constant) and isinstance(r.value, int) and not isinstance(r.value, bool):
            k = r.value
            f = {ast.LtE: L <= k, ast.Lt: L < k, ast.Eq: L == k, ast.GtE: L >= k, ast.Gt: L > k, ast.NotEq: L != k}.get(op)
            return f
    return None


def scope_stack_never_empty(ctx, rid):
    """Mechanical backing of 'the scope stack is never empty': it shrinks only in _pop_scope, after a guard that raises while its length is <= 1."""
    px = S.module("c_parser")
    shrinkers = []
    for mname, fn in px.methods("CParser").items():
        for n in ast.walk(fn):
            if isinstance(n, ast.Call) and isinstance(n.func, ast.Attribute) and n.func.attr in ("pop", "clear", "remove") and S.unparse(n.func.value) == "self._scope_stack":
                shrinkers.append((mname, n))
            if isinstance(n, ast.Delete) and any("self._scope_stack" in S.unparse(t) for t in n.targets):
                shrinkers.append((mname, n))
            if isinstance(n, (ast.Assign, ast.AugAssign)) and mname not in ("parse", "__init__"):
                for t in (n.targets if isinstance(n, ast.Assign) else [n.target]):
                    if S.unparse(t) == "self._scope_stack":
                        shrinkers.append((mname, n))
    ok_all = bool(shrinkers)
    for mname, n in shrinkers:
        st = n
        while not isinstance(st, ast.stmt):
            st = st._parent
        blk = None
        par = getattr(st, "_parent", None)
        for field in ("body", "orelse"):
            b = getattr(par, field, None)
            if isinstance(b, list) and any(x is st for x in b):
                blk = b
        # path condition of the statement: tests of the enclosing ifs (negated in an else branch) and the negated tests of earlier sibling ifs whose
        # body cannot fall through (it ends in _parse_error / raise / return).  The stack holds >= 1 scope by induction, so the path condition has
        # to exclude length 1 (the file scope is never popped) and to admit length 2 (a nested scope is).
        guarded = False
        if mname == "_pop_scope":
            conds = []
            cur = st
            this_fn = px.method("CParser", mname)
            while cur is not this_fn:
                par = cur._parent
                if isinstance(par, ast.If):
                    if any(x is cur for x in par.body):
                        conds.append((par.test, True))
                    elif any(x is cur for x in par.orelse):
                        conds.append((par.test, False))
                for field in ("body", "orelse"):
                    b2 = getattr(par, field, None)
                    if isinstance(b2, list) and any(x is cur for x in b2):
                        for sib in b2[:[i for i, x in enumerate(b2) if x is cur][0]]:
                            if isinstance(sib, ast.If) and not sib.orelse and _no_fallthrough(sib.body):
                                conds.append((sib.test, False))
                cur = par
            def admits(L):
                r = True
                for t, want in conds:
                    v = _eval_len(t, L)
                    if v is None:
                        continue          # unrelated test: no constraint
                    r = r and (v == want)
                return r
            guarded = bool(conds) and not admits(1) and admits(2) and admits(3)
        ctx.oblige(rid, f"{mname}: `{S.unparse(n)[:50]}` cannot remove the file scope", guarded, sample={"rule": rid, "method": mname, "construct": S.unparse(n)[:60], "verdict": "guarded: raises ParseError while one scope is left" if guarded else "UNGUARDED"})
        if not guarded:
            ok_all = False
            ctx.violation(rid, f"scope-underflow:{mname}", f"{mname}: `{S.unparse(n)[:60]}` can remove the last (file) scope - it is not preceded by a guard that raises ParseError while len(self._scope_stack) is 1: an unmatched '}}' then leaves an empty "
                          "stack and the next declaration raises IndexError instead of ParseError", file=px.rel, function=f"CParser.{mname}", line=n.lineno)
    if not shrinkers:
        raise AnalysisError("no statement shrinks the scope stack: _pop_scope no longer pops (scope typestate not recognised)")
    return ok_all


def _nearest_if(node):
    cur = getattr(node, "_parent", None)
    prev = node
    while cur is not None and not isinstance(cur, ast.If):
        prev, cur = cur, getattr(cur, "_parent", None)
    return cur


def _is_type_test(test, tok):
    return isinstance(test, ast.Compare) and len(test.ops) == 1 and isinstance(test.ops[0], ast.Eq) and isinstance(test.comparators[0], ast.Constant) and test.comparators[0].value == tok \
        and isinstance(test.left, ast.Attribute) and test.left.attr == "type"


def _check_id_action(ctx, lx):
    mt = lx.method("CLexer", "_match_token")
    cases = [c for n in ast.walk(mt) if isinstance(n, ast.Match) for c in n.cases if "ID" in S.unparse(c.pattern) and "_RegexAction" in S.unparse(c.pattern)]
    if len(cases) != 1:
        raise AnalysisError("the identifier action (case _RegexAction.ID) of CLexer._match_token was not found")
    body = cases[0].body
    # The action is evaluated as the small decision function it is, for the three situations that matter: the spelling is a keyword (the keyword
    # map answers K), it is not and the typedef lookup says yes, it is not and the lookup says no.  Expected: K without consulting the lookup,
    # "TYPEID", "ID".  Whatever shape the statements have (dict.get with or without default, one test or an if / elif / else ladder).
    class _Unknown(Exception):
        pass

    def run_action(kw, lookup_answer):
        env = {}
        calls = {"lookup": 0}

        def ev(e):
            if isinstance(e, ast.Constant):
                return e.value
            if isinstance(e, ast.Name):
                if e.id in env:
                    return env[e.id]
                raise _Unknown(e.id)
            if isinstance(e, ast.NamedExpr):
                env[e.target.id] = ev(e.value)
                return env[e.target.id]
            if isinstance(e, ast.Call) and isinstance(e.func, ast.Attribute) and e.func.attr == "get" and S.unparse(e.func.value) == "_keyword_map":
                dflt = ev(e.args[1]) if len(e.args) > 1 else None
                return kw if kw is not None else dflt
            if isinstance(e, ast.Call) and isinstance(e.func, ast.Attribute) and e.func.attr == "type_lookup_func":
                calls["lookup"] += 1
                return lookup_answer
            if isinstance(e, ast.Compare) and len(e.ops) == 1:
                l, r = ev(e.left), ev(e.comparators[0])
                op = e.ops[0]
                if isinstance(op, ast.Eq):
                    return l == r
                if isinstance(op, ast.NotEq):
                    return l != r
                if isinstance(op, ast.Is):
                    return l is r
                if isinstance(op, ast.IsNot):
                    return l is not r
                if isinstance(op, ast.In) and S.unparse(e.comparators[0]) == "_keyword_map":
                    return kw is not None
                raise _Unknown(S.unparse(e))
            if isinstance(e, ast.Compare) and len(e.ops) == 1 and isinstance(e.ops[0], (ast.In, ast.NotIn)):
                raise _Unknown(S.unparse(e))
            if isinstance(e, ast.BoolOp):
                val = None
                for v in e.values:
                    val = ev(v)
                    if isinstance(e.op, ast.And) and not val:
                        return val
                    if isinstance(e.op, ast.Or) and val:
                        return val
                return val
            if isinstance(e, ast.UnaryOp) and isinstance(e.op, ast.Not):
                return not ev(e.operand)
            if isinstance(e, ast.IfExp):
                return ev(e.body) if ev(e.test) else ev(e.orelse)
            if isinstance(e, ast.Subscript) and S.unparse(e.value) == "_keyword_map":
                if kw is None:
                    raise _Unknown("KeyError")
                return kw
            raise _Unknown(S.unparse(e)[:60])

        def run(stmts):
            for st in stmts:
                if isinstance(st, ast.Assign) and len(st.targets) == 1 and isinstance(st.targets[0], ast.Name):
                    env[st.targets[0].id] = ev(st.value)
                elif isinstance(st, ast.AnnAssign) and isinstance(st.target, ast.Name) and st.value is not None:
                    env[st.target.id] = ev(st.value)
                elif isinstance(st, ast.If):
                    run(st.body if ev(st.test) else st.orelse)
                elif isinstance(st, ast.Pass):
                    pass
                else:
                    raise _Unknown(S.unparse(st)[:60])
        run(body)
        return env, calls["lookup"]
    # the variable that names the token type: the one the identifier action and the other actions leave for _make_token (first argument of that call)
    mk = [c for c in ast.walk(mt) if isinstance(c, ast.Call) and isinstance(c.func, ast.Attribute) and c.func.attr == "_make_token"]
    tvar = None
    if mk:
        a0 = (S.positional_args(mk[0], lx.method("CLexer", "_make_token")) or [None])[0]
        tvar = a0.id if isinstance(a0, ast.Name) else None
    ok, why = False, "the token-type variable handed to _make_token was not found"
    if tvar:
        try:
            res = []
            for kw, ans, want, want_calls in (("IF_KW", True, "IF_KW", 0), ("IF_KW", False, "IF_KW", 0), (None, True, "TYPEID", 1), (None, False, "ID", 1)):
                env, ncalls = run_action(kw, ans)
                res.append((env.get(tvar), ncalls, want, want_calls))
            ok = all(got == want and n_ == wn for got, n_, want, wn in res)
            why = "; ".join(f"keyword={kw!r}, lookup says {ans}: type {got!r} after {n_} lookup(s) (expected {want!r}, {wn})" for (kw, ans, _w, _c), (got, n_, want, wn) in zip((("K", True, 0, 0), ("K", False, 0, 0), (None, True, 0, 0), (None, False, 0, 0)), res))
        except _Unknown as ex_:
            ok, why = False, f"the identifier action contains a construct the decision evaluator does not know: {ex_}"
    typeid_elsewhere = [n for n in ast.walk(lx.tree) if isinstance(n, ast.Constant) and n.value == "TYPEID"]
    ctx.oblige("R-C04.2", "identifier action: keyword map, then typedef lookup", ok and len(typeid_elsewhere) == 1, sample={"rule": "R-C04.2", "verdict": why})
    if not (ok and len(typeid_elsewhere) == 1):
        ctx.violation("R-C04.2", "id-action", f"the lexer must classify an identifier by the keyword map first and ask type_lookup_func only for non-keywords, and nothing else may produce TYPEID ({why}; TYPEID literals: {len(typeid_elsewhere)})", file=lx.rel, function="CLexer._match_token")
