"""C18 - structurally malformed input is always rejected.

Proof by induction over derivations: every production automaton extracted from
CParser consumes only bracket-balanced, correctly paired words (nonterminals
counted as balanced); parse() returns only at end of input; speculation is
consumption-neutral; no live path consumes a '#' token; text that is not a
token reaches the error callback, which never returns.
"""
from __future__ import annotations

import ast

from .. import e1
from .. import lexmodel as LM
from .. import rxmodel as R
from .. import srcmodel as S
from ..core import AnalysisError

LEVEL = "proof"


def check(ctx):
    ctx.rule("R-C18.1", "every production automaton is Dyck-balanced with correct pairing over ( ) [ ] { } (one obligation per production clone)")
    ctx.rule("R-C18.2", "speculation is consumption-neutral: the declarator-name scan runs only between mark and reset; every reset targets a tracked mark")
    ctx.rule("R-C18.3", "parse() returns only after observing end of input")
    ctx.rule("R-C18.4", "wildcard consumption is typed: no live path consumes '#' (PPHASH) or a bracket through an untyped _advance()")
    ctx.rule("R-C18.6", "only `#line` / `# <digits>` and `#pragma` are diverted to the directive scanners: the trigger patterns match nothing but [ \\t]*line / [ \\t]*pragma NOT followed by a word character, or [ \\t]*<digit>")
    ctx.rule("R-C18.7", "malformed input is rejected by ParseError and by nothing else: every raise / assert / partial operation reachable from parse() is routed to the error channel (decided by the C06 machinery)")
    ctx.rule("R-C18.5", "text that is no C token reaches the lexer's error callback, and the parser's callback never returns")
    ex, g = e1.get()
    px = S.module("c_parser")
    ctx.unit("production clones", len(g.pa))
    ctx.unit("automaton nodes", sum(pa.n for pa in g.pa.values()))
    ctx.unit("automaton edges", sum(len(pa.edges) for pa in g.pa.values()))
    ctx.info["extraction_rounds"] = ex.rounds

    # ---- R-C18.1 / R-C18.4 -------------------------------------------------
    for key in sorted(g.pa, key=str):
        pa = g.pa[key]
        probs = g.balance(key)
        bal = [p for p in probs if p[0] != "untyped consumption may take a bracket"]
        unt = [p for p in probs if p[0] == "untyped consumption may take a bracket"]
        live, _ = pa.live_nodes()
        nbr = sum(1 for s, ev, d, _ in pa.edges if ev is not None and ev[0] == "t" and d in live and set(ev[1]) & (set(GR_OPEN) | set(GR_CLOSE)))
        ctx.oblige("R-C18.1", e1.sig_text(key), not bal, nontrivial=nbr > 0,
                   sample={"rule": "R-C18.1", "production": e1.sig_text(key), "bracket edges": nbr, "nodes": pa.n, "verdict": "balanced" if not bal else f"UNBALANCED {bal[0][0]}"} if (bal or (nbr and ctx.obligations % 7 == 0)) else None)
        for kind, node, detail in bal[:1]:
            ctx.violation("R-C18.1", f"balance:{key[0]}:{kind}", f"production {e1.sig_text(key)}: {kind} (near line {pa.line[node] if node < len(pa.line) else '?'}; {detail}): some accepted token sequence is not bracket-balanced",
                          file=px.rel, function=f"CParser.{key[0]}", line=pa.line[node] if node < len(pa.line) else 0)
        ctx.oblige("R-C18.4", "typed brackets in " + e1.sig_text(key), not unt, nontrivial=bool(unt))
        for kind, node, detail in unt[:1]:
            ctx.violation("R-C18.4", f"untyped:{key[0]}", f"production {e1.sig_text(key)} consumes a token of unconstrained type ({detail}...) on a path that can succeed: a bracket may be swallowed",
                          file=px.rel, function=f"CParser.{key[0]}", line=pa.line[node] if node < len(pa.line) else 0)
        # PPHASH never consumed on a live path
        for s, ev, d, _ in pa.edges:
            if ev is not None and ev[0] == "t" and d in live and "PPHASH" in ev[1]:
                ctx.oblige("R-C18.4", "PPHASH in " + e1.sig_text(key), False)
                ctx.violation("R-C18.4", f"pphash:{key[0]}", f"production {e1.sig_text(key)} can consume a '#' directive token and still succeed: directives other than #line/#pragma would be accepted",
                              file=px.rel, function=f"CParser.{key[0]}", line=pa.line[s] if s < len(pa.line) else 0)
    ctx.require_instances("R-C18.1", 80)

    # ---- R-C18.2 ------------------------------------------------------------------
    meths = px.methods("CParser")
    for need in ("_peek_declarator_name_info", "_scan_declarator_name_info"):
        if need not in meths:
            raise AnalysisError(f"anchor CParser.{need} vanished (the summary of the declarator-name scan in sa/rdmodel.py is stale)")
    fn = meths["_peek_declarator_name_info"]
    body = [s for s in fn.body if not (isinstance(s, ast.Expr) and isinstance(s.value, ast.Constant))]
    ok = False
    if len(body) == 4 and isinstance(body[0], ast.Assign) and _is_self_call(body[0].value, "_mark"):
        mvar = body[0].targets[0].id if isinstance(body[0].targets[0], ast.Name) else None
        scan_ok = isinstance(body[1], ast.Assign) and _is_self_call(body[1].value, "_scan_declarator_name_info")
        reset_ok = (isinstance(body[2], ast.Expr) and _is_self_call(body[2].value, "_reset") and len(body[2].value.args) == 1
                    and isinstance(body[2].value.args[0], ast.Name) and body[2].value.args[0].id == mvar)
        ret_ok = isinstance(body[3], ast.Return)
        ok = bool(mvar and scan_ok and reset_ok and ret_ok)
    ctx.oblige("R-C18.2", "_peek_declarator_name_info = mark; scan; reset(mark); return", ok)
    if not ok:
        ctx.violation("R-C18.2", "peek-name-info-shape", "_peek_declarator_name_info must be exactly: mark, scan, reset to that mark, return - otherwise the look-ahead scan consumes tokens (brackets included) without parsing them",
                      file=px.rel, function="CParser._peek_declarator_name_info", line=fn.lineno)
    callers = {m for m, f in meths.items() for n in ast.walk(f) if _is_self_call(n, "_scan_declarator_name_info")}
    ok = callers <= {"_peek_declarator_name_info", "_scan_declarator_name_info"}
    ctx.oblige("R-C18.2", "bracket-skipping scanner is called only under mark/reset", ok)
    if not ok:
        ctx.violation("R-C18.2", "scan-callers", f"_scan_declarator_name_info (which skips to the matching parenthesis) is called from {sorted(callers)}: outside mark/reset it swallows tokens unparsed",
                      file=px.rel, function="CParser._scan_declarator_name_info")
    nspec = 0
    for key, pa in g.pa.items():
        for seg in pa.spec:
            nspec += 1
            ctx.oblige("R-C18.2", f"speculative segment in {key[0]} resets to a tracked mark", True, nontrivial=False)
    ctx.info["speculative_segments"] = nspec
    for key, prod in ex.prods.items():
        for e in prod.edges:
            for ev in e.events:
                if ev[0] == "badreset":
                    ctx.oblige("R-C18.2", f"reset in {key[0]} line {ev[1]}", False)
                    ctx.violation("R-C18.2", f"untracked-reset:{key[0]}", f"{key[0]} moves the token stream to a position that is not a mark taken on the same path (reset/jump at line {ev[1]}): tokens - brackets included - can be skipped without being parsed",
                                  file=px.rel, function=f"CParser.{key[0]}", line=ev[1])
    # every mark()/reset() call in the class is inside the inlined helper set (the extractor raises AnalysisError for an untracked reset)

    # ---- R-C18.3 ---------------------------------------------------------------------
    pk = ("parse", tuple((p, "?") for p in ("text", "filename", "debug")))
    cand = [k for k in g.pa if k[0] == "parse"]
    if not cand:
        raise AnalysisError("CParser.parse was not extracted")
    for k in cand:
        pa = g.pa[k]
        live, _ = pa.live_nodes()
        for f in pa.finals:
            la = pa.la[f]
            ok = la is not None and la[0] <= {RD_EOF}
            ctx.oblige("R-C18.3", "parse() return point", ok, sample={"rule": "R-C18.3", "return la1": sorted(la[0])[:5] if la else None})
            if not ok:
                ctx.violation("R-C18.3", "parse-returns-before-eof", "CParser.parse can return while tokens remain: trailing garbage (e.g. an extra closing bracket) would be accepted",
                              file=px.rel, function="CParser.parse")
        # the translation unit production must be what parse() calls
        called = {ev[1][0] for s, ev, d, _ in pa.edges if ev is not None and ev[0] == "c" and d in live}
        ok = any(c.startswith("_parse_translation_unit") for c in called)
        ctx.oblige("R-C18.3", "parse() parses a translation unit", ok)
        if not ok:
            ctx.violation("R-C18.3", "parse-no-tu", f"CParser.parse does not call the translation-unit production (calls {sorted(called)})", file=px.rel, function="CParser.parse")

    # ---- R-C18.5 ------------------------------------------------------------------------
    k = ("_lex_error_func", tuple((p, "?") for p in ("msg", "line", "column")))
    cand = [kk for kk in g.pa if kk[0] == "_lex_error_func"]
    if not cand:
        raise AnalysisError("CParser._lex_error_func was not extracted")
    for kk in cand:
        ok = not g.pa[kk].finals and bool(g.pa[kk].errors)
        ctx.oblige("R-C18.5", "_lex_error_func never returns (reaches _parse_error on every path)", ok)
        if not ok:
            ctx.violation("R-C18.5", "lex-error-returns", "CParser._lex_error_func can return normally: the lexer would skip the offending text silently", file=px.rel, function="CParser._lex_error_func")
    # the callback is what the lexer is built with
    init = meths.get("__init__")
    wired = any(isinstance(n, ast.keyword) and n.arg == "error_func" and isinstance(n.value, ast.Attribute) and n.value.attr == "_lex_error_func" for n in ast.walk(init)) if init else False
    ctx.oblige("R-C18.5", "error_func=self._lex_error_func", wired)
    if not wired:
        ctx.violation("R-C18.5", "error-func-wiring", "CParser.__init__ does not pass self._lex_error_func as the lexer's error_func", file=px.rel, function="CParser.__init__")
    # lexer: stray characters and comment openers are errors in the tokeniser model; _match_token calls _error when nothing matches
    m = LM.LexModel()
    T = LM.TokAutomaton(m)
    a = m.alpha
    for ch in "@`\\":
        res = m.run([a.of_char(ch)])
        ok = res[0] == "nomatch"
        ctx.oblige("R-C18.5", f"stray {ch!r} starts no token", ok)
        if not ok:
            ctx.violation("R-C18.5", f"stray:{ch}", f"character {ch!r} is tokenised as {res}: it is not a C token", file="pycparser/c_lexer.py", function="_regex_rules/_fixed_tokens")
    for what in ("C comment opener", "C++ comment opener"):
        err = T.dfa(lambda o: (o["kind"] == "regex" and o["action"] == "ERROR") or o["kind"] == "nomatch")
        w = R.find_in_a_not_b(R.language_dfa(a, LM.MALFORMED[what]), err)
        ctx.oblige("R-C18.5", what + " is an error", w is None)
        if w is not None:
            ctx.violation("R-C18.5", f"comment:{what}", f"{a.word(w)!r} is not reported as an error", file="pycparser/c_lexer.py", function="_regex_rules")
    # the parser never catches its own error: ParseError ends the parse
    from .. import e1 as _e1s
    _exs, _gs = _e1s.get()
    ctx.oblige("R-C18.5", "no handler inside the parser catches ParseError", not _exs.swallows, sample={"rule": "R-C18.5", "handlers catching ParseError / Exception inside productions": [f"{m_}:{ln_}" for m_, ln_, _ in _exs.swallows]})
    for m_, ln_, names_ in _exs.swallows:
        ctx.violation("R-C18.5", f"swallowed-error:{m_}", f"{m_} (line {ln_}) catches {names_}: malformed input met inside the guarded region is forgotten and the parse goes on", file="pycparser/c_parser.py", function=f"CParser.{m_}", line=ln_)
    # ---- R-C18.6 ------------------------------------------------------------------------
    tt = S.tables()
    word, digit = R.category("WORD"), R.category("DIGIT")
    anyc = R.setof(R.cs_neg(()))
    nonword = R.setof(R.cs_neg(word))
    blank = R.setof(R.cs_chars(" \t"))

    def named(nm):
        return R.seq(R.star(blank), R.lit(nm), R.opt(R.seq(nonword, R.star(anyc))))
    refs = {"_pragma_pattern": named("pragma"), "_line_pattern": R.alt(named("line"), R.seq(R.star(blank), R.setof(digit), R.star(anyc)))}
    for nm, pat in (("_pragma_pattern", tt.pragma_pattern), ("_line_pattern", tt.line_pattern)):
        node = R.seq(R.from_pattern(pat), R.star(anyc))          # "the pattern matches some prefix of the text"
        alpha = R.Alphabet(list(R.charsets(node)) + list(R.charsets(refs[nm])))
        wit = R.find_in_a_not_b(R.language_dfa(alpha, node), R.language_dfa(alpha, refs[nm]))
        ok = wit is None
        ctx.oblige("R-C18.6", f"{nm} diverts only its own directive", ok, sample={"rule": "R-C18.6", "pattern": pat, "verdict": "matches only its directive name not followed by a word character" if ok else f"ALSO MATCHES #{alpha.word(wit)!r}"})
        if not ok:
            ctx.violation("R-C18.6", f"directive-trigger:{nm}", f"{nm} = {pat!r} also matches `#{alpha.word(wit)}`: a directive whose name merely begins like the intended one (or other text) is handed to the #line / #pragma scanner "
                          "and swallowed instead of being rejected", file=S.module("c_lexer").rel, function=nm)
    from . import c04
    c04.scope_stack_never_empty(ctx, "R-C18.5")      # an unmatched '}' is reported as ParseError, it never empties the scope stack
    lx = S.module("c_lexer")
    mt = lx.method("CLexer", "_match_token")
    found = False
    # the candidate variable: initialised to None and assigned the (length, type, ...) tuples of the two matchers
    cands = {t.id for a_ in ast.walk(mt) if isinstance(a_, (ast.Assign, ast.AnnAssign)) and isinstance(a_.value, ast.Constant) and a_.value.value is None for t in (a_.targets if isinstance(a_, ast.Assign) else [a_.target]) if isinstance(t, ast.Name)} \
        & {t.id for a_ in ast.walk(mt) if isinstance(a_, ast.Assign) and isinstance(a_.value, ast.Tuple) for t in a_.targets if isinstance(t, ast.Name)}
    if not cands:
        raise AnalysisError("_match_token: the best-candidate variable (None, then a tuple per matcher) was not found")
    for n in ast.walk(mt):
        if isinstance(n, ast.If) and isinstance(n.test, ast.Compare) and isinstance(n.test.left, ast.Name) and n.test.left.id in cands and isinstance(n.test.ops[0], ast.Is):
            calls = [c for st in n.body for c in ast.walk(st) if isinstance(c, ast.Call) and isinstance(c.func, ast.Attribute) and c.func.attr == "_error"]
            found = bool(calls)
    ctx.oblige("R-C18.5", "_match_token reports text that matches nothing", found)
    if not found:
        ctx.violation("R-C18.5", "nomatch-silent", "CLexer._match_token no longer calls _error when neither the master regex nor a fixed token matches: illegal characters would be skipped silently",
                      file=lx.rel, function="CLexer._match_token")
    from . import c09
    c09.scanner_sibling_rules(ctx, "R-C18.5", "R-C18.5")   # text glued to a #line directive is not skipped unchecked
    er = lx.method("CLexer", "_error")
    ok = any(isinstance(n, ast.Call) and isinstance(n.func, ast.Attribute) and n.func.attr == "error_func" for n in ast.walk(er))
    ctx.oblige("R-C18.5", "CLexer._error calls the error callback", ok)
    if not ok:
        ctx.violation("R-C18.5", "error-not-forwarded", "CLexer._error does not call self.error_func", file=lx.rel, function="CLexer._error")
    # characters that are not white space in C must not be skipped between tokens (they are "a character sequence that is not a C token"): the
    # white-space rule of C01 decides which characters the scanning loop skips
    from . import c01 as _c01
    _c01.white_space(ctx, "R-C18.5", only_nonspace=True)
    # "rejected with ParseError": the rejection of malformed input must not surface as another exception type (an AttributeError at the
    # end of a truncated input is not a rejection the caller can handle) - the escape analysis of C06 decides that for every path
    from . import share
    share.borrow(ctx, "C06", ("R-C06.1", "R-C06.2", "R-C06.3"), "R-C18.7", count=30)
    ctx.info["explanation"] = ("induction over derivations on automata extracted from the parser source by abstract interpretation: each of the production clones is checked for Dyck balance "
                               "with a bounded bracket stack; parse() must return only with look-ahead = end of input; the speculative scan is structurally consumption-neutral; PPHASH is never "
                               "consumed on a path that can succeed; non-token text reaches the error channel (tokeniser automaton + callback never returns)")
    ctx.info["exhaustive"] = True
    ctx.trusted += ["CPython ast parser", "E1 abstract interpreter (sa/rdmodel.py): helper inlining and look-ahead facts", "summary of _peek_declarator_name_info (checked structurally by R-C18.2)"]
    ctx.assumptions += ["semantic predicates (declarator-name scan result, symbol-table lookups) are free choices: the model over-approximates the parser's paths, which is the sound direction for 'every accepted sequence is balanced'"]


def _is_self_call(n, name):
    return isinstance(n, ast.Call) and isinstance(n.func, ast.Attribute) and n.func.attr == name and isinstance(n.func.value, ast.Name) and n.func.value.id == "self"


from .. import grammar as _GR  # noqa: E402
from .. import rdmodel as _RD  # noqa: E402
GR_OPEN, GR_CLOSE, RD_EOF = _GR.OPEN, _GR.CLOSE, _RD.EOF
