"""C14 - node classes and tree traversal conform to the declarative AST specification.

Exhaustive obligation table: every class named in _c_ast.cfg x six shape
obligations, plus the template structure of _ast_gen.py and the dispatch /
traversal shape of NodeVisitor and Node.show.
"""
from __future__ import annotations

import ast

from .. import astspec as A
from .. import srcmodel as S
from ..core import AnalysisError, norm

LEVEL = "other"
BOOKKEEPING = ("coord", "__weakref__")
TRAVERSAL_OVERRIDES = {"children", "__iter__", "__init__"}
FORBIDDEN_EXTRA = {"__getattr__", "__getattribute__", "__setattr__", "__len__", "__bool__", "__getitem__", "show", "__repr__"}


def check(ctx):
    ctx.rule("R-C14.7", "attribute fields of the specification receive plain values from the parser, never nodes (a node there is outside the child relation the traversal walks)")
    ctx.rule("R-C14.1", "class shapes: __init__ params/assignments, __slots__, attr_names, children(), __iter__ follow the cfg entry order (singles before sequences)")
    ctx.rule("R-C14.2", "_ast_gen.py: classification of entries and template loops emit singles before sequences with the specified guards; prologue agrees with c_ast.py")
    ctx.rule("R-C14.3", "NodeVisitor.visit dispatches on 'visit_'+class name via the instance with generic_visit as only fallback; generic_visit / show recurse once per children() element; show writes one line")
    spec = A.parse_cfg()
    mod, models = A.class_models()
    ctx.unit("cfg entries", len(spec))
    ctx.unit("classes in c_ast.py", len(models))

    def viol(rule, cls, what, msg, node=None):
        ctx.violation(rule, f"{cls}:{what}", msg, file=mod.rel, function=cls, line=getattr(node, "lineno", 0),
                      construct=S.unparse(node)[:200] if node is not None else "")

    def ob(rule, cls, what, ok, detail=None):
        ctx.oblige(rule, f"{cls}:{what}", ok, sample={"rule": rule, "class": cls, "obligation": what, "verdict": "conforms" if ok else "DEVIATES", **({"detail": detail} if detail else {})} if (not ok or ctx.obligations % 31 == 0) else None)

    spec_names = [n for n, _, _ in spec]
    dup = {n for n in spec_names if spec_names.count(n) > 1}
    for n in sorted(dup):
        viol("R-C14.1", n, "duplicate", "class listed twice in the specification")
    node_classes = [n for n, m in models.items() if "Node" in m.bases]
    for n in node_classes:
        okc = n in spec_names
        ob("R-C14.1", n, "listed in cfg", okc)
        if not okc:
            viol("R-C14.1", n, "not-in-cfg", f"class {n}(Node) exists in c_ast.py but not in _c_ast.cfg", models[n].node)

    for name, entries, lineno in spec:
        m = models.get(name)
        ob("R-C14.1", name, "class exists", m is not None)
        if m is None:
            viol("R-C14.1", name, "missing-class", f"_c_ast.cfg:{lineno} specifies {name} but c_ast.py has no such class (cfg edited without regenerating?)")
            continue
        all_names = [e for e, _ in entries]
        attrs = [e for e, k in entries if k == "attr"]
        singles = [e for e, k in entries if k == "child"]
        seqs = [e for e, k in entries if k == "seq"]
        if m.bases != ["Node"]:
            viol("R-C14.1", name, "bases", f"bases are {m.bases}, expected [Node]", m.node)
        # 1. __init__
        im = m.init_model()
        ok = im is not None
        if ok:
            params, defaults, assigns, extras, variadic = im
            exp_params = all_names + ["coord"]
            ok = (params == exp_params and not variadic and not extras
                  and sorted(assigns) == sorted((p, p) for p in exp_params) and len(assigns) == len(exp_params)
                  and set(defaults) == {"coord"} and isinstance(defaults.get("coord"), ast.Constant) and defaults["coord"].value is None)
        ob("R-C14.1", name, "__init__", ok)
        if not ok:
            viol("R-C14.1", name, "__init__", f"__init__ must take ({', '.join(all_names + ['coord=None'])}) in this order and store each in the same-named slot; found params={im[0] if im else None} assigns={im[2] if im else None} extras={im[3] if im else None}", m.methods.get("__init__"))
        # 2. __slots__
        ok = m.slots == tuple(all_names) + BOOKKEEPING
        ob("R-C14.1", name, "__slots__", ok)
        if not ok:
            viol("R-C14.1", name, "__slots__", f"__slots__ is {m.slots}, specification gives {tuple(all_names) + BOOKKEEPING}", m.node)
        # 3. attr_names
        ok = m.attr_names == tuple(attrs)
        ob("R-C14.1", name, "attr_names", ok)
        if not ok:
            viol("R-C14.1", name, "attr_names", f"attr_names is {m.attr_names}, specification gives {tuple(attrs)}", m.node)
        # 4./5. children() and __iter__
        expected = [("child", s) for s in singles] + [("seq", s) for s in seqs]
        for which in ("children", "__iter__"):
            em = m.emission_model(which)
            ok = em is not None
            detail = None
            if ok:
                got = [(e[0], e[1]) for e in em]
                ok = got == expected
                detail = f"emits {got}, specification order is {expected}"
                if ok and which == "children":
                    for e in em:
                        if e[0] == "child":
                            ok = ok and e[2] == ("const", e[1])
                        else:
                            lab = e[2]
                            ok = ok and lab[0] == "fmt" and lab[1] == e[1] + "[{}]" and e[3]
                    if not ok:
                        detail = f"labels / None-tolerance deviate: {em}"
                if ok and which == "__iter__":
                    ok = all(e[0] == "child" or e[3] for e in em)
                    if not ok:
                        detail = "sequence iteration not tolerant of None"
                if ok and which == "__iter__":
                    # iteration protocol: __iter__ must hand back an ITERATOR - a generator function (it contains a yield, so calling it makes a generator:
                    # the `return; yield` idiom is the empty one) or `return iter(...)`.  Returning a tuple / list makes iter(node) raise TypeError.
                    fn_ = m.methods.get(which)
                    own = [x for x in ast.walk(fn_) if S.enclosing_function(x) is fn_]
                    is_gen = any(isinstance(x, (ast.Yield, ast.YieldFrom)) for x in own)
                    rets = [x for x in own if isinstance(x, ast.Return) and x.value is not None]
                    ok = (is_gen and not rets) or (not is_gen and rets and all(isinstance(r.value, ast.Call) and isinstance(r.value.func, ast.Name) and r.value.func.id == "iter" for r in rets))
                    if not ok:
                        detail = "does not return an iterator: it is neither a generator function (no yield) nor `return iter(...)`, so `for child in node` / list(node) raises TypeError"
            ob("R-C14.1", name, which, ok, detail)
            if not ok:
                viol("R-C14.1", name, which, f"{which}() {detail or 'is missing'}", m.methods.get(which))
        # 6. no extra traversal-affecting members
        extra = (set(m.methods) - TRAVERSAL_OVERRIDES) | set(m.other)
        ok = not (extra & FORBIDDEN_EXTRA) and not m.other
        ob("R-C14.1", name, "no extra members", ok)
        if not ok:
            viol("R-C14.1", name, "extra-members", f"class defines members outside the specification templates: {sorted(extra)}", m.node)
    ctx.require_instances("R-C14.1", 49 * 6)

    # ---- R-C14.2 generator script -----------------------------------------
    gmod = S.module("_ast_gen")
    ncfg = gmod.classes.get("NodeCfg")
    if ncfg is None:
        raise AnalysisError("anchor class NodeCfg vanished from _ast_gen.py")
    meths = {n.name: n for n in ncfg.body if isinstance(n, ast.FunctionDef)}

    def gviol(what, msg, node=None):
        ctx.violation("R-C14.2", f"_ast_gen:{what}", msg, file=gmod.rel, function="NodeCfg." + what, line=getattr(node, "lineno", 0),
                      construct=S.unparse(node)[:200] if node is not None else "")

    # classification chain in __init__
    init = meths.get("__init__")
    if init is None:
        raise AnalysisError("NodeCfg.__init__ vanished")
    chain = []
    for n in ast.walk(init):
        if isinstance(n, ast.If) and isinstance(n.test, ast.Call) and isinstance(n.test.func, ast.Attribute) and n.test.func.attr == "endswith":
            par = getattr(n, "_parent", None)
            if isinstance(par, ast.If) and n in par.orelse:
                continue
            cur = n
            while True:
                suffix = cur.test.args[0].value if cur.test.args and isinstance(cur.test.args[0], ast.Constant) else None
                chain.append((suffix, _append_target(cur.body)))
                if len(cur.orelse) == 1 and isinstance(cur.orelse[0], ast.If) and isinstance(cur.orelse[0].test, ast.Call) and getattr(cur.orelse[0].test.func, "attr", "") == "endswith":
                    cur = cur.orelse[0]
                else:
                    chain.append((None, _append_target(cur.orelse)))
                    break
    ok = chain == [("**", "seq_child"), ("*", "child"), (None, "attr")]
    ctx.oblige("R-C14.2", "NodeCfg.__init__ classification", ok, sample={"rule": "R-C14.2", "classification chain": chain})
    if not ok:
        gviol("__init__", f"entry classification chain is {chain}; the specification says '**' -> sequence, '*' -> child, bare -> attribute (and '**' must be tested first)", init)
    for which, guards in (("_gen_children", ("is not None", "or []")), ("_gen_iter", ("is not None", "or []"))):
        fn = meths.get(which)
        if fn is None:
            raise AnalysisError(f"NodeCfg.{which} vanished")
        loops = []
        for n in ast.walk(fn):
            if isinstance(n, ast.For) and isinstance(n.iter, ast.Attribute) and isinstance(n.iter.value, ast.Name) and n.iter.value.id == "self":
                strs = "".join(_strings(n))
                loops.append((n.lineno, n.iter.attr, strs))
        loops.sort()
        order = [l[1] for l in loops]
        ok = order == ["child", "seq_child"]
        ctx.oblige("R-C14.2", f"NodeCfg.{which} loop order", ok, sample={"rule": "R-C14.2", "method": which, "loops": order})
        if not ok:
            gviol(which, f"template loops run over {order}; the specification requires all single children first, then the sequences", fn)
        else:
            for (ln, attr, strs), g in zip(loops, guards):
                okg = g in strs
                ctx.oblige("R-C14.2", f"NodeCfg.{which} {attr} guard", okg)
                if not okg:
                    gviol(which + ":" + attr, f"template for {attr} lacks the `{g}` guard, so absent children would not be skipped", fn)
    gi = meths.get("_gen_init")
    if gi is None:
        raise AnalysisError("NodeCfg._gen_init vanished")
    strs = "".join(_strings(gi))
    ok = "'coord', '__weakref__'" in strs and "coord=None" in strs
    ctx.oblige("R-C14.2", "NodeCfg._gen_init bookkeeping slots", ok)
    if not ok:
        gviol("_gen_init", "generated __slots__/__init__ no longer end with coord, __weakref__ / coord=None", gi)
    uses_all = [n for n in ast.walk(gi) if isinstance(n, ast.Attribute) and n.attr in ("attr", "child", "seq_child") and isinstance(n.value, ast.Name) and n.value.id == "self"]
    ok = not uses_all and any(isinstance(n, ast.Attribute) and n.attr == "all_entries" for n in ast.walk(gi))
    ctx.oblige("R-C14.2", "NodeCfg._gen_init uses all entries in cfg order", ok)
    if not ok:
        gviol("_gen_init:order", "__init__/__slots__ templates must be driven by all_entries (cfg order), not by the per-kind lists", gi)
    ga = meths.get("_gen_attr_names")
    if ga is None:
        raise AnalysisError("NodeCfg._gen_attr_names vanished")
    used = {n.attr for n in ast.walk(ga) if isinstance(n, ast.Attribute) and isinstance(n.value, ast.Name) and n.value.id == "self"}
    ok = used == {"attr"}
    ctx.oblige("R-C14.2", "NodeCfg._gen_attr_names source", ok)
    if not ok:
        gviol("_gen_attr_names", f"attr_names template reads {sorted(used)}, expected only self.attr", ga)
    # prologue (Node / NodeVisitor / _repr) agrees with c_ast.py
    try:
        prologue_src = S.folded("_ast_gen").get("_PROLOGUE_CODE")
        ptree = ast.parse(prologue_src)
    except Exception as e:
        raise AnalysisError(f"_PROLOGUE_CODE of _ast_gen.py is not a foldable / parsable string: {e}")
    pdefs = {n.name: n for n in ptree.body if isinstance(n, (ast.ClassDef, ast.FunctionDef))}
    for nm in ("Node", "NodeVisitor", "_repr"):
        real = mod.classes.get(nm) or mod.functions.get(nm)
        if real is None or nm not in pdefs:
            raise AnalysisError(f"anchor {nm} missing in c_ast.py or in the generator prologue")
        same = A.strip_docstrings(real) == A.strip_docstrings(pdefs[nm])
        ctx.oblige("R-C14.2", f"prologue {nm} agrees with c_ast.py", same)
        if not same:
            gviol("prologue:" + nm, f"{nm} in c_ast.py differs from the generator's prologue: regenerating would change behaviour", real)

    # ---- R-C14.3 traversal ------------------------------------------------
    nv = models.get("NodeVisitor")
    if nv is None:
        raise AnalysisError("NodeVisitor vanished")
    _check_visit(ctx, mod, nv, viol)
    _check_generic_visit(ctx, mod, nv, viol)
    _check_show(ctx, mod, models.get("Node"), viol)
    # ---- R-C14.7: attribute (non-child) fields hold plain values: a node stored there is invisible to children() / NodeVisitor / show() ----
    from .. import wirecheck as WC14
    cur14 = WC14.current()
    spec14 = {n_: dict(ents) for n_, ents, _ in A.parse_cfg()}
    ncls = {}

    def node_classes(meth, seen=()):
        if meth in ncls:
            return ncls[meth]
        if meth in seen or meth not in cur14:
            return set()
        out = set()
        for r in cur14[meth]["returns"]:
            if r.startswith("new:"):
                out.add(r[4:].split("#")[0])
            elif r.startswith("_parse_"):
                out |= node_classes(r.split("#")[0], seen + (meth,))
        ncls[meth] = out
        return out
    # what each kind of the specifier record collects (spec["alignment"] etc. is filled by _add_declaration_specifier(spec, VALUE, KIND))
    spec_kinds = {}
    for meth, info in cur14.items():
        for lab, fa in info.get("calls", info["records"]):
            if lab == "call:_add_declaration_specifier":
                for kq in fa.get("p2", []):
                    spec_kinds.setdefault(kq.strip("'\""), set()).update(fa.get("p1", []))
    n147 = 0
    seen147 = set()
    import re as _re14
    for meth, info in sorted(cur14.items()):
        for lab, fa in info["records"]:
            cls = lab.split(">")[-1]
            for f_, kind in spec14.get(cls, {}).items():
                if kind != "attr":
                    continue
                for v in fa.get(f_, []):
                    base = v.split("#")[0]
                    holds = {v[4:].split("#")[0]} if v.startswith("new:") else (node_classes(base) if base.startswith("_parse_") and "." not in v and "[" not in v else set())
                    # (a kind of the specifier record, however the record is named: a parameter, or - once the callers' arguments have been followed
                    # into the builder - the result of the specifier production)
                    mk = _re14.fullmatch(r"(?:param:#\d+!?|[\w:#+@]+(?:\[\d\])?)\[['\"]?(\w+)['\"]?\](\[:\])?", v)
                    if mk and mk.group(1) in spec_kinds:
                        # the whole list collected under that kind of the specifier record
                        for src in spec_kinds[mk.group(1)]:
                            b2 = src.split("#")[0]
                            if src.startswith("new:"):
                                holds.add(src[4:].split("#")[0])
                            elif b2.startswith("_parse_") and "." not in src and "[" not in src:
                                holds |= node_classes(b2)
                                if node_classes(b2):
                                    base = b2
                    n147 += 1
                    ctx.oblige("R-C14.7", f"{meth}: {cls}.{f_} <- {v}", not holds, nontrivial=True, sample={"rule": "R-C14.7", "method": meth, "attribute": f"{cls}.{f_}", "receives": v, "node classes": sorted(holds)} if holds or n147 % 29 == 0 else None)
                    if holds and f"{cls}.{f_}:{base}" not in seen147:
                        seen147.add(f"{cls}.{f_}:{base}")
                        ctx.violation("R-C14.7", f"node-in-attribute:{cls}.{f_}:{base}", f"{meth} stores a {sorted(holds)} node in {cls}.{f_}, which _c_ast.cfg declares as a plain attribute: children(), iteration, NodeVisitor.generic_visit and show() "
                                      "do not reach that node (show() prints its multi-line repr as the attribute value)", file="pycparser/c_parser.py", function=f"CParser.{meth}")
    ctx.require_instances("R-C14.7", 40)

    ctx.info["explanation"] = ("exhaustive obligation table: 49 specified classes x 6 shape obligations (plus existence / listing), "
                               "template-structure obligations on _ast_gen.py, and dispatch / recursion-shape obligations on NodeVisitor and Node.show")
    ctx.info["exhaustive"] = True
    ctx.trusted += ["CPython ast parser", "independent reader of _c_ast.cfg in sa/astspec.py"]
    ctx.assumptions += ["visit counts on concrete trees follow from the per-class children() shape by induction on the tree (not executed)"]


def _append_target(body):
    for st in body:
        for n in ast.walk(st):
            if isinstance(n, ast.Call) and isinstance(n.func, ast.Attribute) and n.func.attr == "append" and isinstance(n.func.value, ast.Attribute):
                return n.func.value.attr
    return None


def _strings(node):
    for n in ast.walk(node):
        if isinstance(n, ast.Constant) and isinstance(n.value, str):
            yield n.value


def _classname_expr(e, nodevar, local_defs=None):
    """True if e denotes the class name of `nodevar`: nodevar.__class__.__name__ or type(nodevar).__name__ (possibly through a local bound once to it)."""
    if isinstance(e, ast.Name) and local_defs and len(local_defs.get(e.id, [])) == 1:
        return _classname_expr(local_defs[e.id][0], nodevar)
    if isinstance(e, ast.Attribute) and e.attr == "__name__":
        v = e.value
        if isinstance(v, ast.Attribute) and v.attr == "__class__" and isinstance(v.value, ast.Name) and v.value.id == nodevar:
            return True
        if isinstance(v, ast.Call) and isinstance(v.func, ast.Name) and v.func.id == "type" and len(v.args) == 1 and isinstance(v.args[0], ast.Name) and v.args[0].id == nodevar:
            return True
    return False


def _check_visit(ctx, mod, nv, viol):
    fn = nv.methods.get("visit")
    if fn is None:
        raise AnalysisError("NodeVisitor.visit vanished")
    selfname, nodevar = fn.args.args[0].arg, fn.args.args[1].arg
    local_defs = {}
    for n in ast.walk(fn):
        if isinstance(n, ast.Assign) and len(n.targets) == 1 and isinstance(n.targets[0], ast.Name):
            local_defs.setdefault(n.targets[0].id, []).append(n.value)
    getattrs = [n for n in ast.walk(fn) if isinstance(n, ast.Call) and isinstance(n.func, ast.Name) and n.func.id == "getattr"]
    ok = len(getattrs) == 1 and len(getattrs[0].args) == 3
    why = "exactly one three-argument getattr expected"
    if ok:
        recv, meth, dflt = getattrs[0].args
        ok = isinstance(recv, ast.Name) and recv.id == selfname
        why = "visit_X must be looked up on the visitor instance (self), so that each instance's own class decides"
        if ok:
            ok = isinstance(dflt, ast.Attribute) and dflt.attr == "generic_visit" and isinstance(dflt.value, ast.Name) and dflt.value.id == selfname
            why = "the only fallback must be self.generic_visit"
        if ok:
            cands = [meth] if not isinstance(meth, ast.Name) else local_defs.get(meth.id, [])
            ok = bool(cands) and all(isinstance(c, ast.BinOp) and isinstance(c.op, ast.Add) and isinstance(c.left, ast.Constant) and c.left.value == "visit_" and _classname_expr(c.right, nodevar, local_defs) for c in cands)
            why = "method name must be 'visit_' + the node's class name"
    ctx.oblige("R-C14.3", "NodeVisitor.visit dispatch", ok, sample={"rule": "R-C14.3", "construct": S.unparse(getattrs[0]) if getattrs else None})
    if not ok:
        viol("R-C14.3", "NodeVisitor", "visit-dispatch", why, fn)
    # cache: any subscript store / .get must be on an attribute of self keyed by the class name
    def on_instance(e):
        """e is an attribute of the visitor instance, or a local that only ever names one (bound to `self.X`, or together with it: `c = self.X = {}`)"""
        if isinstance(e, ast.Attribute) and isinstance(e.value, ast.Name) and e.value.id == selfname:
            return True
        if isinstance(e, ast.Name):
            binds = [a for a in ast.walk(fn) if isinstance(a, ast.Assign) and any(isinstance(t, ast.Name) and t.id == e.id for t in a.targets)]
            stores = sum(1 for x in ast.walk(fn) if isinstance(x, ast.Name) and x.id == e.id and isinstance(x.ctx, ast.Store))
            return bool(binds) and stores == len(binds) and all(on_instance(a.value) or any(on_instance(t) for t in a.targets if not isinstance(t, ast.Name)) for a in binds)
        return False
    for n in ast.walk(fn):
        if isinstance(n, ast.Subscript) and isinstance(n.ctx, ast.Store):
            okc = on_instance(n.value) and _classname_expr(n.slice, nodevar, local_defs)
            ctx.oblige("R-C14.3", "NodeVisitor.visit cache store", okc)
            if not okc:
                viol("R-C14.3", "NodeVisitor", "visit-cache", "dispatch cache must live on the instance and be keyed by the node's class name", n)
        if isinstance(n, ast.Call) and isinstance(n.func, ast.Attribute) and n.func.attr == "get" and n.args:
            okc = on_instance(n.func.value) and _classname_expr(n.args[0], nodevar, local_defs)
            ctx.oblige("R-C14.3", "NodeVisitor.visit cache lookup", okc)
            if not okc:
                viol("R-C14.3", "NodeVisitor", "visit-cache-get", "dispatch cache must be read from the instance, keyed by the node's class name", n)
    rets = [n for n in ast.walk(fn) if isinstance(n, ast.Return)]
    okr = bool(rets) and all(isinstance(r.value, ast.Call) and len(r.value.args) == 1 and isinstance(r.value.args[0], ast.Name) and r.value.args[0].id == nodevar and not r.value.keywords for r in rets)
    ctx.oblige("R-C14.3", "NodeVisitor.visit applies the visitor to the node", okr)
    if not okr:
        viol("R-C14.3", "NodeVisitor", "visit-apply", "visit must return visitor(node) - the bound method applied to exactly the node", fn)


def _check_generic_visit(ctx, mod, nv, viol):
    fn = nv.methods.get("generic_visit")
    if fn is None:
        raise AnalysisError("NodeVisitor.generic_visit vanished")
    selfname, nodevar = fn.args.args[0].arg, fn.args.args[1].arg
    body = [s for s in fn.body if not (isinstance(s, ast.Expr) and isinstance(s.value, ast.Constant))]
    ok = len(body) == 1 and isinstance(body[0], ast.For)
    if ok:
        lp = body[0]
        it = lp.iter
        ok = (isinstance(it, ast.Call) and isinstance(it.func, ast.Attribute) and it.func.attr == "children" and isinstance(it.func.value, ast.Name) and it.func.value.id == nodevar
              and isinstance(lp.target, ast.Tuple) and len(lp.target.elts) == 2 and isinstance(lp.target.elts[1], ast.Name))
        if ok:
            cv = lp.target.elts[1].id
            calls = [s for s in lp.body]
            ok = (len(calls) == 1 and isinstance(calls[0], ast.Expr) and isinstance(calls[0].value, ast.Call)
                  and isinstance(calls[0].value.func, ast.Attribute) and calls[0].value.func.attr == "visit"
                  and isinstance(calls[0].value.func.value, ast.Name) and calls[0].value.func.value.id == selfname
                  and len(calls[0].value.args) == 1 and isinstance(calls[0].value.args[0], ast.Name) and calls[0].value.args[0].id == cv)
    ctx.oblige("R-C14.3", "NodeVisitor.generic_visit visits each child once", ok)
    if not ok:
        viol("R-C14.3", "NodeVisitor", "generic_visit", "generic_visit must call self.visit(child) exactly once for each (name, child) of node.children()", fn)


def _check_show(ctx, mod, node_model, viol):
    if node_model is None or "show" not in node_model.methods:
        raise AnalysisError("Node.show vanished")
    fn = node_model.methods["show"]
    selfname = fn.args.args[0].arg
    top = [s for s in fn.body if not (isinstance(s, ast.Expr) and isinstance(s.value, ast.Constant))]
    # newline writes
    nl_writes = []
    for n in ast.walk(fn):
        if isinstance(n, ast.Call) and isinstance(n.func, ast.Attribute) and n.func.attr == "write" and n.args:
            consts = [c.value for c in ast.walk(n.args[0]) if isinstance(c, ast.Constant) and isinstance(c.value, str)]
            if any("\n" in c for c in consts):
                nl_writes.append(n)
    ok = len(nl_writes) == 1 and getattr(getattr(nl_writes[0], "_parent", None), "_parent", None) is fn
    ctx.oblige("R-C14.3", "Node.show writes one newline per node", ok)
    if not ok:
        viol("R-C14.3", "Node", "show-newline", "show must write exactly one newline, unconditionally, per node (one line per reachable node)", fn)
    # no way out of show() before its line is written and its children are shown
    exits = [n for n in ast.walk(fn) if isinstance(n, (ast.Return, ast.Raise)) and S.enclosing_function(n) is fn]
    ok = not exits
    ctx.oblige("R-C14.3", "Node.show has no early exit", ok)
    if not ok:
        viol("R-C14.3", "Node", "show-early-exit", f"show leaves early (`{S.unparse(exits[0])}` under `{S.unparse(getattr(exits[0], '_parent', exits[0]))[:60]}`): a node for which that happens - and everything below it - "
             "prints no line, so the listing no longer has one line per reachable node", exits[0])
    loops = [s for s in top if isinstance(s, ast.For)]
    ok = len(loops) == 1
    if ok:
        lp = loops[0]
        it = lp.iter
        ok = (isinstance(it, ast.Call) and isinstance(it.func, ast.Attribute) and it.func.attr == "children" and isinstance(it.func.value, ast.Name) and it.func.value.id == selfname
              and isinstance(lp.target, ast.Tuple) and len(lp.target.elts) == 2 and isinstance(lp.target.elts[1], ast.Name))
        if ok:
            cv = lp.target.elts[1].id
            ok = (len(lp.body) == 1 and isinstance(lp.body[0], ast.Expr) and isinstance(lp.body[0].value, ast.Call)
                  and isinstance(lp.body[0].value.func, ast.Attribute) and lp.body[0].value.func.attr == "show"
                  and isinstance(lp.body[0].value.func.value, ast.Name) and lp.body[0].value.func.value.id == cv)
            if ok and nl_writes:
                ok = nl_writes[0].lineno < lp.lineno
    ctx.oblige("R-C14.3", "Node.show recurses once per child, after its own line", ok)
    if not ok:
        viol("R-C14.3", "Node", "show-recursion", "show must recurse with child.show(...) exactly once per (name, child) of self.children(), after writing its own line", fn)
