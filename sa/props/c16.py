"""C16 - parsing work grows linearly: no backtracking blow-up (structural causes).

Decided exactly: (1) no regular expression of the lexer has exponential degree
of ambiguity; (2) each token is lexed once (the token stream only moves an
index, the lexer is never rewound); (3) no speculative (mark ... reset) region
of the parser can re-enter itself, which would multiply work per nesting level.
Measured work is a run-time quantity and is not claimed.
"""
from __future__ import annotations

import ast

from .. import callgraph as CG
from .. import lexmodel as LM
from .. import rxmodel as R
from .. import srcmodel as S
from ..core import AnalysisError, norm

LEVEL = "other"


def spec_regions(cg: CG.ClassCalls):
    """Speculative regions: per method that calls self._mark(), the self-calls between the mark and a reachable self._reset()."""
    out = {}
    for name, fn in cg.methods.items():
        marks = [n for n in ast.walk(fn) if isinstance(n, ast.Call) and isinstance(n.func, ast.Attribute) and n.func.attr == "_mark"
                 and isinstance(n.func.value, ast.Name) and n.func.value.id == "self"]
        if not marks or name in ("_mark",):
            continue
        first = min(m.lineno for m in marks)
        inside = [(c, n) for c, n in cg.calls[name] if n.lineno > first and c not in ("_mark", "_reset", "_accept", "_expect", "_peek", "_peek_type", "_advance", "_tok_coord", "_parse_error")]
        out[name] = inside
    return out


def check(ctx):
    ctx.rule("R-C16.1", "no lexer regular expression (master alternation, #line / #pragma triggers, directive sub-patterns) has exponential or polynomial (infinite) degree of ambiguity")
    ctx.rule("R-C16.2", "each token is lexed once: _TokenStream.reset only moves the index, _fill only appends, the lexer is re-initialised only by parse()")
    ctx.rule("R-C16.4", "per-token work is bounded by the token: the lexer never copies the rest (or the consumed part) of the whole input - no open-ended slice of the input text")
    ctx.rule("R-C16.5", "no loop re-processes what earlier iterations built: a loop-carried value is not re-copied (string / list concatenation, deepcopy) nor handed to a helper that walks its whole chain")
    ctx.rule("R-C16.3", "no speculative mark/reset region can re-enter itself through the productions it calls")
    lx = S.module("c_lexer")
    px = S.module("c_parser")

    # ---- R-C16.1 -------------------------------------------------------------
    m = LM.LexModel()
    nfa, root = m.nfa()
    w = R.eda_witness(nfa, root)
    ok = w is None
    ctx.oblige("R-C16.1", "master regex", ok, sample={"rule": "R-C16.1", "regex": "_regex_master (24 rules)", "nfa_states": len(nfa.eps), "verdict": "finite ambiguity degree (no EDA)" if ok else f"EXPONENTIAL AMBIGUITY {w}"})
    if not ok:
        owner = getattr(nfa, "owner", {}).get(w["state"], "?")
        ctx.violation("R-C16.1", f"eda:{owner}", f"rule {owner} of the master regex is exponentially ambiguous ({w['kind']} at NFA state {w['state']} on symbol {w['symbol']!r}"
                      f"{', diverging on ' + repr(w.get('diverge_symbol')) if w.get('diverge_symbol') else ''}): a failing match attempt backtracks through 2^k splits of k repetitions",
                      file=lx.rel, function=f"_regex_rules[{owner}]")
    wi = R.ida_witness(nfa, root)
    ok = wi is None
    ctx.oblige("R-C16.1", "master regex: polynomial ambiguity", ok, sample={"rule": "R-C16.1", "regex": "_regex_master", "verdict": "finite ambiguity (no two loops share a word)" if ok else f"POLYNOMIAL AMBIGUITY {wi}"})
    if not ok:
        owner = getattr(nfa, "owner", {}).get(wi["loop_state"], "?")
        ctx.violation("R-C16.1", f"ida:{owner}", f"rule {owner} of the master regex has infinite (polynomial) ambiguity: {wi['kind']} - the word {wi['word']!r} can be repeated in a first loop (NFA state {wi['loop_state']}), "
                      f"leads from it into a second loop (state {wi['second_loop_state']}) and can be repeated there: a match attempt that fails after k repetitions tries all k ways of splitting them, so a long token costs quadratic time",
                      file=lx.rel, function=f"_regex_rules[{owner}]")
    # each rule separately (a rule's own loop structure), plus the auxiliary patterns used by the directive scanners
    t = m.t
    extra = {"_line_pattern": t.line_pattern, "_pragma_pattern": t.pragma_pattern}
    for nm in ("_decimal_constant", "_string_literal"):
        if nm in t.lexer_strings:
            extra[nm] = t.lexer_strings[nm]
    # ... every other compiled pattern of the package and every pattern handed to re.match / search / fullmatch / compile / sub / split
    import re as _re
    for modname in S.MODULES:
        try:
            fenv = S.folded(modname).env
        except Exception:
            continue
        mod_ = S.module(modname)
        for k_, v_ in fenv.items():
            if isinstance(v_, _re.Pattern) and k_ != "_regex_master":
                extra.setdefault(k_, v_.pattern)
        for n_ in ast.walk(mod_.tree):
            if isinstance(n_, ast.Call) and isinstance(n_.func, ast.Attribute) and isinstance(n_.func.value, ast.Name) and n_.func.value.id == "re" \
                    and n_.func.attr in ("match", "search", "fullmatch", "compile", "sub", "split", "findall", "finditer") and n_.args:
                a0 = n_.args[0]
                pat = a0.value if isinstance(a0, ast.Constant) and isinstance(a0.value, str) else (fenv.get(a0.id) if isinstance(a0, ast.Name) else None)
                if isinstance(pat, str):
                    extra.setdefault(a0.id if isinstance(a0, ast.Name) else f"{modname}:{pat[:40]}", pat)
    for nm, pat in extra.items():
        node = R.from_pattern(pat)
        alpha = R.Alphabet(list(R.charsets(node)))
        n2 = R.NFA(alpha)
        r2 = n2.new()
        n2.add_rule(r2, node, nm)
        w = R.eda_witness(n2, r2)
        ok = w is None
        ctx.oblige("R-C16.1", nm, ok, sample={"rule": "R-C16.1", "regex": nm, "verdict": "no EDA" if ok else f"EDA {w}"})
        if not ok:
            ctx.violation("R-C16.1", f"eda:{nm}", f"pattern {nm} is exponentially ambiguous: {w}", file=lx.rel, function=nm)
        wi = R.ida_witness(n2, r2)
        ok = wi is None
        ctx.oblige("R-C16.1", nm + ": polynomial ambiguity", ok, sample={"rule": "R-C16.1", "regex": nm, "verdict": "no IDA" if ok else f"IDA {wi}"})
        if not ok:
            ctx.violation("R-C16.1", f"ida:{nm}", f"pattern {nm} has infinite (polynomial) ambiguity: the word {wi['word']!r} can be repeated in two successive loops, a failing match tries every split (quadratic time): {wi}", file=lx.rel, function=nm)
    ctx.require_instances("R-C16.1", 3)

    # the parser never catches its own error: ParseError ends the parse
    from .. import e1 as _e1s
    _exs, _gs = _e1s.get()
    ctx.oblige("R-C16.3", "no handler inside the parser catches ParseError", not _exs.swallows, sample={"rule": "R-C16.3", "handlers catching ParseError / Exception inside productions": [f"{m_}:{ln_}" for m_, ln_, _ in _exs.swallows]})
    for m_, ln_, names_ in _exs.swallows:
        ctx.violation("R-C16.3", f"swallowed-error:{m_}", f"{m_} (line {ln_}) catches {names_}: a swallowed error restarts the speculative parse one level further out: every nesting level doubles the work on rejected input", file="pycparser/c_parser.py", function=f"CParser.{m_}", line=ln_)
    # ---- R-C16.4 ---------------------------------------------------------------
    from .c09 import _single_def
    n4 = 0
    for mname, mfn in lx.methods("CLexer").items():
        if mname in ("input", "__init__", "_init_state"):
            continue

        def whole_text(e):
            if isinstance(e, ast.Attribute) and e.attr == "_lexdata":
                return True
            if isinstance(e, ast.Name):
                d = _single_def(mfn, e.id)
                return isinstance(d, ast.Attribute) and d.attr == "_lexdata"
            return False
        for n in ast.walk(mfn):
            if isinstance(n, ast.Subscript) and whole_text(n.value):
                n4 += 1
                open_ended = isinstance(n.slice, ast.Slice) and (n.slice.lower is None or n.slice.upper is None)
                ctx.oblige("R-C16.4", f"{mname}: {S.unparse(n)[:50]}", not open_ended, nontrivial=isinstance(n.slice, ast.Slice))
                if open_ended:
                    ctx.violation("R-C16.4", f"suffix-copy:{mname}:{S.unparse(n)[:40]}", f"CLexer.{mname} evaluates `{S.unparse(n)[:60]}`: an open-ended slice copies the rest (or everything before the cursor) of the whole input each time it runs - "
                                  "per token that is quadratic work in the length of the input", file=lx.rel, function=f"CLexer.{mname}", line=n.lineno, construct=S.unparse(n)[:100])
    if n4 < 6:
        raise AnalysisError(f"only {n4} subscripts of the input text found in the lexer (confirmed by reading: >= 8)")
    # ---- R-C16.5 ---------------------------------------------------------------
    tx = S.module("ast_transforms")
    funcs = {}
    for m_ in (px, lx, tx):
        for n_, f_ in m_.functions.items():
            funcs[n_] = (m_, f_)
        for cn in m_.classes:
            for n_, f_ in m_.methods(cn).items():
                funcs[n_] = (m_, f_)

    def chain_walk_param(f_):
        """indices of parameters of helper f_ from which a `while`/`for` loop walks an attribute chain (x = x.attr) or iterates"""
        params = [a.arg for a in f_.args.args]
        origin = {p_: p_ for p_ in params}
        for a_ in ast.walk(f_):
            if isinstance(a_, ast.Assign) and len(a_.targets) == 1 and isinstance(a_.targets[0], ast.Name):
                src = a_.value
                while isinstance(src, ast.Call) and S.unparse(src.func) == "cast" and len(src.args) == 2:
                    src = src.args[1]
                if isinstance(src, ast.Name) and src.id in origin and a_.targets[0].id not in origin:
                    origin[a_.targets[0].id] = origin[src.id]
        out = set()
        for lp in ast.walk(f_):
            if isinstance(lp, ast.While):
                for a_ in ast.walk(lp):
                    if isinstance(a_, ast.Assign) and len(a_.targets) == 1 and isinstance(a_.targets[0], ast.Name) and isinstance(a_.value, ast.Attribute) \
                            and isinstance(a_.value.value, ast.Name) and a_.value.value.id == a_.targets[0].id and a_.targets[0].id in origin:
                        out.add(params.index(origin[a_.targets[0].id]))
        return out
    n5 = 0
    seen5 = set()
    for m_ in (px, lx, tx):
        for fn in [x for x in ast.walk(m_.tree) if isinstance(x, ast.FunctionDef)]:
            params = {a.arg for a in fn.args.args}
            for L in [x for x in ast.walk(fn) if isinstance(x, (ast.While, ast.For))]:
                for a_ in ast.walk(L):
                    if not (isinstance(a_, ast.Assign) and len(a_.targets) == 1):
                        continue
                    T = S.unparse(a_.targets[0])
                    root = a_.targets[0]
                    while isinstance(root, (ast.Attribute, ast.Subscript)):
                        root = root.value
                    if not isinstance(root, ast.Name) or not any(S.unparse(x) == T for x in ast.walk(a_.value)):
                        continue
                    # loop carried: the root exists before the loop (parameter or assigned above it)
                    carried = root.id in params or any(isinstance(b, (ast.Assign, ast.AnnAssign)) and b.lineno < L.lineno and any(isinstance(t, ast.Name) and t.id == root.id for t in (b.targets if isinstance(b, ast.Assign) else [b.target])) for b in ast.walk(fn))
                    if not carried:
                        continue
                    rhs = a_.value
                    kind = None
                    if isinstance(rhs, ast.BinOp) and isinstance(rhs.op, ast.Add) and not any(isinstance(x, ast.Constant) and isinstance(x.value, (int, float)) for x in (rhs.left, rhs.right)):
                        kind = "is rebuilt by concatenation with itself (the accumulated text is copied in every iteration)"
                    elif isinstance(rhs, ast.Call):
                        name = rhs.func.attr if isinstance(rhs.func, ast.Attribute) else getattr(rhs.func, "id", None)
                        if name in ("deepcopy", "list", "tuple", "sorted") or (name == "copy" and isinstance(a_.targets[0], ast.Name)):
                            # (a shallow copy of ONE node reached through a field - x.type = copy.copy(x.type) - is constant work: a node has a fixed set of slots)
                            kind = f"is copied by {name}() in every iteration"
                        elif name in funcs and not name.startswith("_parse_"):
                            idxs = chain_walk_param(funcs[name][1])
                            off = 1 if funcs[name][1].args.args and funcs[name][1].args.args[0].arg == "self" else 0
                            for i_, arg in enumerate(rhs.args):
                                if S.unparse(arg) == T and (i_ + off) in idxs:
                                    kind = f"is handed to {name}(), which walks its whole chain, in every iteration"
                    n5 += 1
                    ok = kind is None
                    from .c06 import canon_of
                    Tk = T if root.id in params else canon_of(fn).text(a_.targets[0]).replace("_", "$", 1) if isinstance(a_.targets[0], ast.Name) else (T.replace(root.id, "$", 1))
                    key = f"{fn.name}:{Tk}:{(kind or '').split('(')[0].strip()[:30]}"
                    ctx.oblige("R-C16.5", f"{fn.name}: loop-carried {T} at line {a_.lineno}", ok, sample={"rule": "R-C16.5", "function": fn.name, "statement": S.unparse(a_)[:80], "verdict": kind or "constant work per iteration"})
                    if not ok and key not in seen5:
                        seen5.add(key)
                        ctx.violation("R-C16.5", f"requadratic:{fn.name}:{Tk}", f"in {fn.name} the loop-carried `{T}` {kind} (`{S.unparse(a_)[:80]}`): the k-th iteration does work proportional to k, so k repetitions cost ~k^2/2",
                                      file=m_.rel, function=fn.name, line=a_.lineno, construct=S.unparse(a_)[:160])
                # a chain that persists across the rounds of this loop must not be WALKED from its head in every round (`tail = head; while tail.next: tail = tail.next`
                # inside the loop that extends the chain): the k-th round walks k links
                for W in [x for x in ast.walk(L) if isinstance(x, ast.While) and x is not L]:
                    steps = [a_ for a_ in ast.walk(W) if isinstance(a_, ast.Assign) and len(a_.targets) == 1 and isinstance(a_.targets[0], ast.Name) and isinstance(a_.value, ast.Attribute)
                             and isinstance(a_.value.value, ast.Name) and a_.value.value.id == a_.targets[0].id]
                    for stp in steps:
                        v_ = stp.targets[0].id
                        inits = [a_ for a_ in ast.walk(L) if isinstance(a_, ast.Assign) and len(a_.targets) == 1 and isinstance(a_.targets[0], ast.Name) and a_.targets[0].id == v_ and isinstance(a_.value, ast.Name)
                                 and a_.lineno < W.lineno and a_ not in steps]
                        for ini in inits:
                            head = ini.value.id
                            carried = head in params or any(isinstance(b, (ast.Assign, ast.AnnAssign)) and b.lineno < L.lineno and any(isinstance(t, ast.Name) and t.id == head for t in (b.targets if isinstance(b, ast.Assign) else [b.target])) for b in ast.walk(fn))
                            is_loopvar = isinstance(L, ast.For) and any(isinstance(t, ast.Name) and t.id == head for t in ast.walk(L.target))
                            if not carried or is_loopvar:
                                continue
                            n5 += 1
                            key = ("chainwalk", fn.name, head)
                            ctx.oblige("R-C16.5", f"{fn.name}: chain rooted at loop-carried `{head}` walked inside the loop at line {L.lineno}", False)
                            if key not in seen5:
                                seen5.add(key)
                                from .c06 import canon_of
                                Hk = head if head in params else canon_of(fn).text(ini.value).replace("_", "$", 1)
                                ctx.violation("R-C16.5", f"requadratic:{fn.name}:{Hk}:chain-walk", f"in {fn.name} every round of the loop at line {L.lineno} walks the chain that hangs off `{head}` from its head "
                                              f"(`{S.unparse(ini)}`; `{S.unparse(W.test)[:40]}`: `{S.unparse(stp)}`) although the chain persists - and grows - across the rounds: the k-th round walks k links, so k elements cost ~k^2/2",
                                              file=m_.rel, function=fn.name, line=W.lineno, construct=S.unparse(W)[:160])
                # a container that GROWS in this loop (append / extend / += / rebuilt from itself) must not be traversed in the same loop: the k-th
                # round then walks k elements.  Traversals: iteration (for / comprehension), membership test, whole-container builtins, copying slices.
                grown = {}
                for g_ in ast.walk(L):
                    if isinstance(g_, ast.Call) and isinstance(g_.func, ast.Attribute) and g_.func.attr in ("append", "extend", "insert", "add", "update") and isinstance(g_.func.value, (ast.Name, ast.Attribute)):
                        grown.setdefault(S.unparse(g_.func.value), g_)
                    elif isinstance(g_, ast.AugAssign) and isinstance(g_.op, ast.Add) and isinstance(g_.target, (ast.Name, ast.Attribute)) and not (isinstance(g_.value, ast.Constant) and isinstance(g_.value.value, (int, float))):
                        grown.setdefault(S.unparse(g_.target), g_)
                for T, g_ in sorted(grown.items()):
                    root = g_.func.value if isinstance(g_, ast.Call) else g_.target
                    while isinstance(root, ast.Attribute):
                        root = root.value
                    if not isinstance(root, ast.Name):
                        continue
                    # a counter (`n += 1`-like numeric accumulation) is not a container: require a container operation or a list / str initial value
                    if isinstance(g_, ast.AugAssign) and not any(isinstance(b, ast.Assign) and any(S.unparse(t) == T for t in b.targets) and isinstance(b.value, (ast.List, ast.JoinedStr, ast.Dict, ast.Set))
                                                                    or (isinstance(b, ast.Assign) and any(S.unparse(t) == T for t in b.targets) and isinstance(b.value, ast.Constant) and isinstance(b.value.value, str)) for b in ast.walk(fn)):
                        continue

                    def exits_loop(node):
                        """the statement containing `node` lies in a block that leaves the loop right after it (return / break / raise at the end of the block)"""
                        cur = node
                        while cur is not L and cur is not None:
                            par = getattr(cur, "_parent", None)
                            for fld in ("body", "orelse"):
                                blk = getattr(par, fld, None)
                                if isinstance(blk, list) and any(x is cur for x in blk):
                                    if blk and isinstance(blk[-1], (ast.Return, ast.Break, ast.Raise)) and par is not L:
                                        return True
                            cur = par
                        return False
                    for x in ast.walk(L):
                        trav = None
                        if isinstance(x, ast.comprehension) and S.unparse(x.iter) == T:
                            trav = "a comprehension iterates over it"
                        elif isinstance(x, ast.For) and x is not L and S.unparse(x.iter) == T:
                            trav = "an inner loop iterates over it"
                        elif isinstance(x, ast.Compare) and any(isinstance(o, (ast.In, ast.NotIn)) for o in x.ops) and any(S.unparse(c) == T for c in x.comparators) and isinstance(g_, ast.Call) and g_.func.attr in ("append", "extend", "insert"):
                            trav = "a membership test scans it"
                        elif isinstance(x, ast.Call) and isinstance(x.func, ast.Name) and x.func.id in ("sum", "any", "all", "max", "min", "sorted", "list", "tuple", "set", "frozenset", "reversed", "filter", "map", "enumerate", "zip") \
                                and any(S.unparse(a) == T for a in x.args) and x.func.id not in ("reversed", "enumerate", "zip", "filter", "map"):
                            trav = f"{x.func.id}() walks it"
                        elif isinstance(x, ast.Call) and isinstance(x.func, ast.Attribute) and x.func.attr in ("join", "index", "count", "copy") and (any(S.unparse(a) == T for a in x.args) or (x.func.attr != "join" and S.unparse(x.func.value) == T)):
                            trav = f".{x.func.attr}() walks it"
                        elif isinstance(x, ast.Subscript) and isinstance(x.slice, ast.Slice) and S.unparse(x.value) == T and isinstance(x.ctx, ast.Load) and (x.slice.upper is None or x.slice.lower is None):
                            trav = "an open-ended slice copies it"
                        elif isinstance(x, ast.Starred) and S.unparse(x.value) == T and isinstance(getattr(x, "_parent", None), (ast.List, ast.Tuple, ast.Set)):
                            trav = "it is unpacked into a new display"
                        if trav is None or exits_loop(x):
                            continue
                        n5 += 1
                        from .c06 import canon_of
                        Tk = T if root.id in params else (canon_of(fn).text(root).replace("_", "$", 1) + T[len(root.id):])
                        key = ("grown", fn.name, Tk)
                        ctx.oblige("R-C16.5", f"{fn.name}: container {T} grown in a loop is traversed in it (line {getattr(x, 'lineno', L.lineno)})", False)
                        if key not in seen5:
                            seen5.add(key)
                            st_ = x
                            while not isinstance(st_, ast.stmt) and getattr(st_, "_parent", None) is not None:
                                st_ = st_._parent
                            ctx.violation("R-C16.5", f"requadratic:{fn.name}:{Tk}:traversed", f"in {fn.name} the container `{T}` grows in the loop at line {L.lineno} (`{S.unparse(g_)[:50]}`) and {trav} inside the same loop "
                                          f"(`{S.unparse(st_)[:80]}`): the k-th round walks k elements, so a construct with k items costs ~k^2/2", file=m_.rel, function=fn.name, line=getattr(x, "lineno", L.lineno), construct=S.unparse(st_)[:160])
                # deep copies of anything inside a loop
                for c_ in ast.walk(L):
                    if isinstance(c_, ast.Call) and S.unparse(c_.func) in ("copy.deepcopy", "deepcopy") and ("deepcopy", fn.name) not in seen5:
                        seen5.add(("deepcopy", fn.name))
                        n5 += 1
                        ctx.oblige("R-C16.5", f"{fn.name}: deepcopy inside a loop", False)
                        ctx.violation("R-C16.5", f"deepcopy-in-loop:{fn.name}:{S.unparse(c_)[:40]}", f"{fn.name} deep-copies `{S.unparse(c_.args[0])[:50] if c_.args else ''}` inside a loop: nested or repeated constructs are copied again at every level / iteration (work grows quadratically or exponentially with nesting)",
                                      file=m_.rel, function=fn.name, line=c_.lineno, construct=S.unparse(c_)[:120])
    # a deep copy costs the size of the copied subtree; made while a declaration is built it is repeated for every declarator and at every
    # nesting level (D34: `_Atomic(struct { ... }) a, b;` doubled the tree per level): nothing reachable from parse() deep-copies AST nodes
    for m_ in (px, tx):
        fns5 = list(m_.functions.values()) + [f_ for c_ in m_.classes.values() for f_ in c_.body if isinstance(f_, ast.FunctionDef)]
        for fn in fns5:
            for c_ in ast.walk(fn):
                if isinstance(c_, ast.Call) and S.unparse(c_.func) in ("copy.deepcopy", "deepcopy") and ("deepcopy", fn.name) not in seen5:
                    seen5.add(("deepcopy", fn.name))
                    ctx.oblige("R-C16.5", f"{fn.name}: deep copy of a subtree", False)
                    ctx.violation("R-C16.5", f"deepcopy:{fn.name}:{S.unparse(c_)[:40]}", f"{fn.name} deep-copies `{S.unparse(c_.args[0])[:50] if c_.args else ''}` while the tree is built: the copy costs the size of the subtree and is repeated for every "
                                  "declarator and nesting level that contains it (a specifier with a struct body inside another one doubles the work per level)", file=m_.rel, function=fn.name, line=c_.lineno, construct=S.unparse(c_)[:120])
    ctx.oblige("R-C16.5", "no deep copy of AST subtrees while parsing", True, nontrivial=False)
    if n5 < 10:
        raise AnalysisError(f"only {n5} loop-carried updates found in the parser, lexer and transforms (confirmed by reading: > 20)")
    # ---- R-C16.2 ---------------------------------------------------------------
    ts = px.methods("_TokenStream")
    for need in ("reset", "mark", "_fill", "next", "peek"):
        if need not in ts:
            raise AnalysisError(f"anchor _TokenStream.{need} vanished")
    # reset: only assigns self._index from its parameter
    fn = ts["reset"]
    body = [s for s in fn.body if not (isinstance(s, ast.Expr) and isinstance(s.value, ast.Constant))]
    ok = (len(body) == 1 and isinstance(body[0], ast.Assign) and isinstance(body[0].targets[0], ast.Attribute) and body[0].targets[0].attr == "_index"
          and isinstance(body[0].value, ast.Name) and body[0].value.id == fn.args.args[1].arg)
    ctx.oblige("R-C16.2", "_TokenStream.reset only moves the index", ok)
    if not ok:
        ctx.violation("R-C16.2", "reset-shape", "_TokenStream.reset does more than restoring the saved index (tokens may be dropped and lexed again)", file=px.rel, function="_TokenStream.reset", line=fn.lineno)
    # the buffer is only appended to; lexer.token() is called only from _fill
    buffer_writes, token_calls = [], []
    for mname, mfn in ts.items():
        for n in ast.walk(mfn):
            if isinstance(n, ast.Attribute) and n.attr == "_buffer":
                par = getattr(n, "_parent", None)
                if isinstance(n.ctx, (ast.Store, ast.Del)) and mname != "__init__":
                    buffer_writes.append((mname, "rebinding", n))
                if isinstance(par, ast.Attribute) and par.attr in ("pop", "clear", "remove", "insert", "extend", "reverse", "sort", "__setitem__", "__delitem__"):
                    buffer_writes.append((mname, par.attr, n))
                if isinstance(par, ast.Subscript) and isinstance(par.ctx, (ast.Store, ast.Del)):
                    buffer_writes.append((mname, "item store", n))
            if isinstance(n, ast.Call) and isinstance(n.func, ast.Attribute) and n.func.attr == "token":
                token_calls.append(mname)
    ok = not buffer_writes
    ctx.oblige("R-C16.2", "_TokenStream._buffer is append-only", ok)
    if not ok:
        mname, what, n = buffer_writes[0]
        ctx.violation("R-C16.2", f"buffer:{mname}:{what}", f"_TokenStream.{mname} modifies the token buffer by {what}: buffered tokens can be lost and lexed again", file=px.rel, function=f"_TokenStream.{mname}", line=n.lineno)
    ok = set(token_calls) == {"_fill"}
    ctx.oblige("R-C16.2", "lexer.token() is called only from _fill", ok)
    if not ok:
        ctx.violation("R-C16.2", "token-call-sites", f"lexer.token() is called from {sorted(set(token_calls))}; only _fill may pull tokens", file=px.rel, function="_TokenStream")
    # the lexer is (re)initialised only from CParser.parse
    cp = px.methods("CParser")
    inputs = []
    for mname, mfn in cp.items():
        for n in ast.walk(mfn):
            if isinstance(n, ast.Call) and isinstance(n.func, ast.Attribute) and n.func.attr == "input" and isinstance(n.func.value, ast.Attribute) and n.func.value.attr == "clex":
                inputs.append(mname)
    ok = inputs == ["parse"]
    ctx.oblige("R-C16.2", "clex.input() is called once, from parse()", ok)
    if not ok:
        ctx.violation("R-C16.2", "rewind", f"the lexer is re-initialised from {inputs}: input would be lexed more than once", file=px.rel, function="CParser")
    # token() itself: _pos never decreases (every assignment to _pos is an increment or a forward position computed from a scan)
    lm = lx.methods("CLexer")
    for mname, mfn in lm.items():
        for n in ast.walk(mfn):
            if isinstance(n, ast.AugAssign) and isinstance(n.target, ast.Attribute) and n.target.attr == "_pos":
                ok = isinstance(n.op, ast.Add)
                ctx.oblige("R-C16.2", f"CLexer.{mname}: {S.unparse(n)}", ok, nontrivial=False)
                if not ok:
                    ctx.violation("R-C16.2", f"pos-back:{mname}:{norm(S.unparse(n))}", "the scan position is moved backwards", file=lx.rel, function=f"CLexer.{mname}", line=n.lineno)

    # ---- R-C16.3 ------------------------------------------------------------------
    from .. import e1
    ex, g = e1.get()
    cg = CG.ClassCalls("c_parser", "CParser")
    # (a) the declarator-name scan: its summary in the grammar model is a predicate, so it is judged on the call graph
    regions = spec_regions(cg)
    if "_peek_declarator_name_info" not in regions:
        raise AnalysisError("speculative region _peek_declarator_name_info not found: anchors moved")
    for name in ("_peek_declarator_name_info",):
        callees = {c for c, _ in regions[name]}
        reach = cg.reachable(callees)
        bad = sorted(reach & ({name, "_mark", "_try_parse_paren_type_name"} | set(ex.productions)))
        ctx.oblige("R-C16.3", f"region {name}", not bad, sample={"rule": "R-C16.3", "region": name, "calls inside": sorted(callees), "verdict": "pure token scan" if not bad else f"RE-ENTERS {bad}"})
        if bad:
            chain = _chain(cg, callees, bad[0])
            ctx.violation("R-C16.3", f"self-nesting:{name}", f"the look-ahead scan of {name} (mark ... reset) reaches {bad[0]} via {' -> '.join(chain)}: nested speculation, the same tokens are scanned again at every nesting level",
                          file=px.rel, function=f"CParser.{name}", line=cg.methods[name].lineno)
    # (a') a PURE token scan inside mark ... reset is still repeated work when it has no bound: a loop that skips to the matching bracket walks over
    #      everything nested in the brackets, and if the production that runs the scan can occur again INSIDE those brackets (it lies on a cycle of the
    #      call graph), every nesting level scans the levels below it once more: k levels cost ~k^2/2 token visits
    for name in sorted(regions):
        fn_ = cg.methods[name]
        # helpers the region runs itself (closure through non-production helpers only: a production called inside the region is judged by (b))
        todo_, helpers_ = [c for c, _ in regions[name]], set()
        while todo_:
            c = todo_.pop()
            if c in helpers_ or c not in cg.methods or c in ex.productions or c.startswith(("_parse_", "_try_parse_")):
                continue
            helpers_.add(c)
            todo_ += list(cg.callees(c))
        scan_fns = [fn_] + [cg.methods[c] for c in sorted(helpers_)]
        unbounded = []
        for f_ in scan_fns:
            for lp in ast.walk(f_):
                if not isinstance(lp, ast.While):
                    continue
                advances = any(isinstance(c_, ast.Call) and isinstance(c_.func, ast.Attribute) and c_.func.attr in ("_advance",) for c_ in ast.walk(lp))
                counts_brackets = any(isinstance(a_, ast.AugAssign) and isinstance(a_.op, (ast.Add, ast.Sub)) for a_ in ast.walk(lp)) and any(isinstance(c_, ast.Constant) and c_.value in ("LPAREN", "LBRACKET", "LBRACE") for c_ in ast.walk(lp))
                if advances and counts_brackets:
                    unbounded.append((f_.name, lp.lineno))
        if not unbounded:
            continue
        users = sorted(m for m in cg.methods if name in cg.callees(m) and m != name)
        cyc = sorted(u for u in users if u in cg.reachable(cg.callees(u)))
        ok = not cyc
        ctx.oblige("R-C16.3", f"bracket-skipping scan of {name} is not repeated per nesting level", ok, sample={"rule": "R-C16.3", "scan": name, "bracket-skipping loops": unbounded, "used by": users, "users on a call-graph cycle": cyc})
        if not ok:
            ctx.violation("R-C16.3", f"rescan:{name}", f"the look-ahead scan {name} skips to the matching bracket ({unbounded[0][0]}, line {unbounded[0][1]}) - over everything nested inside - and is run by {cyc[0]}, which can occur again inside "
                          f"those brackets ({' -> '.join(_chain(cg, cg.callees(cyc[0]), cyc[0]))}): every nesting level re-scans the levels below it, so k nested declarators cost ~k^2 token visits",
                          file=px.rel, function=f"CParser.{name}", line=unbounded[0][1])
    # (b) all other speculations, on the extracted automata: a discarded speculation that parsed a production and whose continuation
    #     re-parses the same tokens on a path that can still succeed doubles the work; if the region can re-enter itself the doubling nests
    nheavy = 0
    for key in sorted(g.pa, key=str):
        pa = g.pa[key]
        for seg in pa.spec:
            if not _heavy(pa, seg):
                continue
            nheavy += 1
            helper = _helper_of(seg, key)
            harmful, via = _harmful(g, key, seg, helper)
            reenter = helper in cg.reachable(_calls_in_segment(pa, seg))
            ok = not (harmful and reenter)
            exit_id = seg["reset_stack"][-1] if seg["reset_stack"] else ("?", 0)
            ctx.oblige("R-C16.3", f"{key[0]}: speculation {helper} discarded at line {exit_id[1]}", ok,
                       sample={"rule": "R-C16.3", "production": key[0], "speculation": helper, "discarded at line": exit_id[1],
                               "continuation can succeed": harmful, "region re-entrant": reenter, "verdict": "no multiplicative re-parse" if ok else "EXPONENTIAL RE-PARSE"})
            if not ok:
                ctx.violation("R-C16.3", f"reparse:{key[0]}:{helper}", f"{key[0]} discards a speculation of {helper} that has parsed {sorted(_calls_in_segment(pa, seg))} (reset at line {exit_id[1]}) and then parses the same tokens again on a path that can succeed ({via}); "
                              f"the speculated production can contain {helper} again, so the work doubles at every nesting level", file=px.rel, function=f"CParser.{key[0]}", line=exit_id[1])
    ctx.info["heavy_speculative_segments"] = nheavy
    ctx.require_instances("R-C16.3", 3)
    ctx.info["explanation"] = ("ambiguity analysis (exponential degree) on the look-ahead-exact NFA of the master regex and of the directive patterns via strongly connected components of the squared "
                               "configuration graph; structural check of the token buffer discipline; call-graph analysis of every mark/reset region for self re-entry")
    ctx.assumptions += ["measured step counts and constants are not decided (run-time quantity)", "polynomial (quadratic) look-ahead scans are not claimed absent; see DESIGN.md findings D22"]
    ctx.trusted += ["re._parser", "Weideman et al. criterion for exponential ambiguity (EDA)"]


def _calls_in_segment(pa, seg):
    out = {ev[1] for ev in seg["erased"] if ev[0] == "call"}
    if seg["src"] != seg["origin"]:
        # the segment spans several edges: calls on any path origin -> src
        fw = _reach(pa, seg["origin"], forward=True)
        bw = _reach(pa, seg["src"], forward=False)
        for s_, ev, d, _ in pa.edges:
            if ev is not None and ev[0] == "c" and s_ in fw and d in bw:
                out.add(ev[1][0])
    return out


def _reach(pa, node, forward):
    seen = {node}
    stack = [node]
    idx = pa.out if forward else pa.inn
    while stack:
        x = stack.pop()
        for i in idx.get(x, []):
            y = pa.edges[i][2] if forward else pa.edges[i][0]
            if y not in seen:
                seen.add(y)
                stack.append(y)
    return seen


def _heavy(pa, seg):
    return bool(_calls_in_segment(pa, seg))


def _helper_of(seg, key):
    ms = seg.get("mark_stack")
    if ms:
        return ms[0][0] if ms[0][0] not in ("_mark",) else key[0]
    rs = seg.get("reset_stack") or ()
    return rs[0][0] if rs and rs[0][0] not in ("_reset",) else key[0]


def _exit_id(seg):
    rs = seg.get("reset_stack") or ()
    if len(rs) >= 2:
        return (rs[0][0], rs[-1][1])      # reset inside the helper: (helper, line of the reset inside it)
    return ("<caller>", rs[-1][1] if rs else 0)


def _harmful(g, key, seg, helper):
    """Can the parse still succeed after this discarded speculation, other than by running the same speculation again
    (which, on the same tokens, ends in the same way)?  Search from the jump target while no token is consumed."""
    from collections import deque
    la0 = g.pa[key].la[seg["dst"]] or (g.U.all, g.U.all)
    start = (key, seg["dst"], (), la0[0], la0[1])
    seen = {start}
    dq = deque([start])
    want = _exit_id(seg)
    steps = 0
    while dq:
        k, x, stack, f1, f2 = dq.popleft()
        steps += 1
        if steps > 200000:
            return True, "search limit"
        pa = g.pa[k]
        la = pa.la[x]
        if la is not None:
            f1, f2 = f1 & la[0], f2 & la[1]
            if not f1 or not f2:
                continue
        # a re-run of the same speculation at the same position: continue only from its exits of the same kind
        segs_here = [s2 for s2 in pa.spec if s2["origin"] == x and _helper_of(s2, k) == helper and _heavy(pa, s2)]
        if segs_here:
            if want[0] == "<caller>":
                # the first run succeeded and was discarded by its caller: a second run succeeds too -> genuine re-parse
                return True, f"the speculation succeeds again in {k[0]}"
            for s2 in segs_here:
                if _exit_id(s2) == want:
                    nx = (k, s2["dst"], stack, f1, f2)
                    if nx not in seen:
                        seen.add(nx)
                        dq.append(nx)
            continue
        if x in pa.finals:
            if stack:
                (rk, rn), rest = stack[-1], stack[:-1]
                nx = (rk, rn, rest, f1, f2)
                if nx not in seen:
                    seen.add(nx)
                    dq.append(nx)
            else:
                return True, f"{k[0]} returns without consuming"
            continue
        ok = g.feasible(k)
        for i in pa.out.get(x, []):
            if i not in ok:
                continue
            s_, ev, d, _ = pa.edges[i]
            if ev is None:
                nx = (k, d, stack, f1, f2)
            elif ev[0] == "t":
                if (set(ev[1]) & f1) and g.can_return_from(k, d):
                    return True, f"{k[0]} consumes {sorted(set(ev[1]) & f1)[:3]} and can return"
                continue
            else:
                ck = ev[1]
                if ck not in g.pa or len(stack) > 8:
                    continue
                if not (set(ev[2]) & f1) or not (set(ev[3]) & f2):
                    continue
                # two-token feasibility of the callee under the inherited facts
                if not any(len(q) == 0 or (q[0] in f1 and (len(q) == 1 or q[1] in f2)) for q in g.first2()[ck]):
                    continue
                nx = (ck, g.pa[ck].start, stack + ((k, d),), f1 & frozenset(ev[2]), f2 & frozenset(ev[3]))
            if nx not in seen:
                seen.add(nx)
                dq.append(nx)
    return False, ""


def _chain(cg, starts, target):
    from collections import deque
    seen = {s: None for s in starts}
    dq = deque(starts)
    while dq:
        m = dq.popleft()
        if m == target:
            out = []
            while m is not None:
                out.append(m)
                m = seen[m]
            return list(reversed(out))
        for c in sorted(cg.callees(m)):
            if c not in seen:
                seen[c] = m
                dq.append(c)
    return [target]
