"""C16 - parsing work grows linearly: no backtracking blow-up (structural causes).

Decided exactly: (1) no regular expression of the lexer has exponential degree
of ambiguity; (2) each token is lexed once (the token stream only moves an
index, the lexer is never rewound); (3) no speculative (mark ... reset) region
of the parser can re-enter itself, which would multiply work per nesting level.
Measured work is a run-time quantity and is not claimed.
"""
from __future__ import annotations

import ast

from .. import callgraph as CG
from .. import lexmodel as LM
from .. import rxmodel as R
from .. import srcmodel as S
from ..core import AnalysisError, norm

LEVEL = "other"


def spec_regions(cg: CG.ClassCalls):
    """Speculative regions: per method that calls self._mark(), the self-calls between the mark and a reachable self._reset()."""
    out = {}
    for name, fn in cg.methods.items():
        marks = [n for n in ast.walk(fn) if isinstance(n, ast.Call) and isinstance(n.func, ast.Attribute) and n.func.attr == "_mark"
                 and isinstance(n.func.value, ast.Name) and n.func.value.id == "self"]
        if not marks or name in ("_mark",):
            continue
        first = min(m.lineno for m in marks)
        inside = [(c, n) for c, n in cg.calls[name] if n.lineno > first and c not in ("_mark", "_reset", "_accept", "_expect", "_peek", "_peek_type", "_advance", "_tok_coord", "_parse_error")]
        out[name] = inside
    return out


def check(ctx):
    ctx.rule("R-C16.1", "no lexer regular expression (master alternation, #line / #pragma triggers, directive sub-patterns) has exponential degree of ambiguity")
    ctx.rule("R-C16.2", "each token is lexed once: _TokenStream.reset only moves the index, _fill only appends, the lexer is re-initialised only by parse()")
    ctx.rule("R-C16.3", "no speculative mark/reset region can re-enter itself through the productions it calls")
    lx = S.module("c_lexer")
    px = S.module("c_parser")

    # ---- R-C16.1 -------------------------------------------------------------
    m = LM.LexModel()
    nfa, root = m.nfa()
    w = R.eda_witness(nfa, root)
    ok = w is None
    ctx.oblige("R-C16.1", "master regex", ok, sample={"rule": "R-C16.1", "regex": "_regex_master (24 rules)", "nfa_states": len(nfa.eps), "verdict": "finite ambiguity degree (no EDA)" if ok else f"EXPONENTIAL AMBIGUITY {w}"})
    if not ok:
        owner = getattr(nfa, "owner", {}).get(w["state"], "?")
        ctx.violation("R-C16.1", f"eda:{owner}", f"rule {owner} of the master regex is exponentially ambiguous ({w['kind']} at NFA state {w['state']} on symbol {w['symbol']!r}"
                      f"{', diverging on ' + repr(w.get('diverge_symbol')) if w.get('diverge_symbol') else ''}): a failing match attempt backtracks through 2^k splits of k repetitions",
                      file=lx.rel, function=f"_regex_rules[{owner}]")
    # each rule separately (a rule's own loop structure), plus the auxiliary patterns used by the directive scanners
    t = m.t
    extra = {"_line_pattern": t.line_pattern, "_pragma_pattern": t.pragma_pattern}
    for nm in ("_decimal_constant", "_string_literal"):
        if nm in t.lexer_strings:
            extra[nm] = t.lexer_strings[nm]
    for nm, pat in extra.items():
        node = R.from_pattern(pat)
        alpha = R.Alphabet(list(R.charsets(node)))
        n2 = R.NFA(alpha)
        r2 = n2.new()
        n2.add_rule(r2, node, nm)
        w = R.eda_witness(n2, r2)
        ok = w is None
        ctx.oblige("R-C16.1", nm, ok, sample={"rule": "R-C16.1", "regex": nm, "verdict": "no EDA" if ok else f"EDA {w}"})
        if not ok:
            ctx.violation("R-C16.1", f"eda:{nm}", f"pattern {nm} is exponentially ambiguous: {w}", file=lx.rel, function=nm)
    ctx.require_instances("R-C16.1", 3)

    # ---- R-C16.2 ---------------------------------------------------------------
    ts = px.methods("_TokenStream")
    for need in ("reset", "mark", "_fill", "next", "peek"):
        if need not in ts:
            raise AnalysisError(f"anchor _TokenStream.{need} vanished")
    # reset: only assigns self._index from its parameter
    fn = ts["reset"]
    body = [s for s in fn.body if not (isinstance(s, ast.Expr) and isinstance(s.value, ast.Constant))]
    ok = (len(body) == 1 and isinstance(body[0], ast.Assign) and isinstance(body[0].targets[0], ast.Attribute) and body[0].targets[0].attr == "_index"
          and isinstance(body[0].value, ast.Name) and body[0].value.id == fn.args.args[1].arg)
    ctx.oblige("R-C16.2", "_TokenStream.reset only moves the index", ok)
    if not ok:
        ctx.violation("R-C16.2", "reset-shape", "_TokenStream.reset does more than restoring the saved index (tokens may be dropped and lexed again)", file=px.rel, function="_TokenStream.reset", line=fn.lineno)
    # the buffer is only appended to; lexer.token() is called only from _fill
    buffer_writes, token_calls = [], []
    for mname, mfn in ts.items():
        for n in ast.walk(mfn):
            if isinstance(n, ast.Attribute) and n.attr == "_buffer":
                par = getattr(n, "_parent", None)
                if isinstance(n.ctx, (ast.Store, ast.Del)) and mname != "__init__":
                    buffer_writes.append((mname, "rebinding", n))
                if isinstance(par, ast.Attribute) and par.attr in ("pop", "clear", "remove", "insert", "extend", "reverse", "sort", "__setitem__", "__delitem__"):
                    buffer_writes.append((mname, par.attr, n))
                if isinstance(par, ast.Subscript) and isinstance(par.ctx, (ast.Store, ast.Del)):
                    buffer_writes.append((mname, "item store", n))
            if isinstance(n, ast.Call) and isinstance(n.func, ast.Attribute) and n.func.attr == "token":
                token_calls.append(mname)
    ok = not buffer_writes
    ctx.oblige("R-C16.2", "_TokenStream._buffer is append-only", ok)
    if not ok:
        mname, what, n = buffer_writes[0]
        ctx.violation("R-C16.2", f"buffer:{mname}:{what}", f"_TokenStream.{mname} modifies the token buffer by {what}: buffered tokens can be lost and lexed again", file=px.rel, function=f"_TokenStream.{mname}", line=n.lineno)
    ok = set(token_calls) == {"_fill"}
    ctx.oblige("R-C16.2", "lexer.token() is called only from _fill", ok)
    if not ok:
        ctx.violation("R-C16.2", "token-call-sites", f"lexer.token() is called from {sorted(set(token_calls))}; only _fill may pull tokens", file=px.rel, function="_TokenStream")
    # the lexer is (re)initialised only from CParser.parse
    cp = px.methods("CParser")
    inputs = []
    for mname, mfn in cp.items():
        for n in ast.walk(mfn):
            if isinstance(n, ast.Call) and isinstance(n.func, ast.Attribute) and n.func.attr == "input" and isinstance(n.func.value, ast.Attribute) and n.func.value.attr == "clex":
                inputs.append(mname)
    ok = inputs == ["parse"]
    ctx.oblige("R-C16.2", "clex.input() is called once, from parse()", ok)
    if not ok:
        ctx.violation("R-C16.2", "rewind", f"the lexer is re-initialised from {inputs}: input would be lexed more than once", file=px.rel, function="CParser")
    # token() itself: _pos never decreases (every assignment to _pos is an increment or a forward position computed from a scan)
    lm = lx.methods("CLexer")
    for mname, mfn in lm.items():
        for n in ast.walk(mfn):
            if isinstance(n, ast.AugAssign) and isinstance(n.target, ast.Attribute) and n.target.attr == "_pos":
                ok = isinstance(n.op, ast.Add)
                ctx.oblige("R-C16.2", f"CLexer.{mname}: {S.unparse(n)}", ok, nontrivial=False)
                if not ok:
                    ctx.violation("R-C16.2", f"pos-back:{mname}:{norm(S.unparse(n))}", "the scan position is moved backwards", file=lx.rel, function=f"CLexer.{mname}", line=n.lineno)

    # ---- R-C16.3 ------------------------------------------------------------------
    cg = CG.ClassCalls("c_parser", "CParser")
    regions = spec_regions(cg)
    if not regions:
        raise AnalysisError("no speculative (mark/reset) region found in CParser: anchors moved")
    ctx.info["speculative_regions"] = {k: sorted({c for c, _ in v}) for k, v in regions.items()}
    for name, inside in sorted(regions.items()):
        callees = {c for c, _ in inside}
        reach = cg.reachable(callees)
        # the region re-enters itself if its own method (or another method holding the same mark) is reachable from inside
        reenter = name in reach
        ctx.oblige("R-C16.3", f"region {name}", not reenter,
                   sample={"rule": "R-C16.3", "region": name, "calls inside": sorted(callees), "reachable productions": len(reach), "verdict": "cannot re-enter itself" if not reenter else "RE-ENTERS ITSELF"})
        if reenter:
            # shortest call chain for the report
            chain = _chain(cg, callees, name)
            ctx.violation("R-C16.3", f"self-nesting:{name}", f"speculative region of {name} (mark ... reset) can re-enter itself via {' -> '.join(chain)}: when the speculation is discarded, the same tokens are parsed again at every nesting level (work multiplies per level)",
                          file=px.rel, function=f"CParser.{name}", line=cg.methods[name].lineno)
    ctx.require_instances("R-C16.3", 2)
    ctx.info["explanation"] = ("ambiguity analysis (exponential degree) on the look-ahead-exact NFA of the master regex and of the directive patterns via strongly connected components of the squared "
                               "configuration graph; structural check of the token buffer discipline; call-graph analysis of every mark/reset region for self re-entry")
    ctx.assumptions += ["measured step counts and constants are not decided (run-time quantity)", "polynomial (quadratic) look-ahead scans are not claimed absent; see DESIGN.md findings D22"]
    ctx.trusted += ["re._parser", "Weideman et al. criterion for exponential ambiguity (EDA)"]


def _chain(cg, starts, target):
    from collections import deque
    seen = {s: None for s in starts}
    dq = deque(starts)
    while dq:
        m = dq.popleft()
        if m == target:
            out = []
            while m is not None:
                out.append(m)
                m = seen[m]
            return list(reversed(out))
        for c in sorted(cg.callees(m)):
            if c not in seen:
                seen[c] = m
                dq.append(c)
    return [target]
