"""C07 - generated C re-parses to the same AST (structural clauses).

 R-C07.1 the generator's precedence map and the parser's table induce the same weak order over the same operators;
 R-C07.2 parenthesisation adequacy: for every operand slot and every expression class whose grammar level is looser than the
         level at which the parser parses that slot, the generator's emission idiom parenthesises the child (both configurations);
 R-C07.3 statement terminators: every class that can be an expression statement and whose visitor does not end in ';' gets one;
 R-C07.4 visitor coverage and field use: every node class has a visitor that reads every field the parser can fill;
 R-C07.5 declarator inversion shape of _generate_type;
 R-C07.6 token fusion: a prefix operator is never glued to an operand text starting with the same character.
The round trip itself (equality of two run-time ASTs, text idempotence) is not executed.
"""
from __future__ import annotations

import ast

from .. import astspec as A
from .. import genmodel as G
from .. import srcmodel as S
from ..core import AnalysisError
from . import c02

LEVEL = "other"
L = G.LEVEL

# operand slots and the grammar level at which the parser parses them (DESIGN.md Appendix B; derived from sa/wiring_ref.json)
def slot_level(cls, field, pop):
    if cls == "BinaryOp":
        return L["binary"] + G.BIN_LEVEL[pop] + (1 if field == "right" else 0)
    if cls == "UnaryOp":
        if pop in ("&", "*", "+", "-", "~", "!"):
            return L["cast"]
        if pop in ("++", "--", "sizeof"):
            return L["unary"]
        if pop in ("p++", "p--"):
            return L["postfix"]
        return None
    return {
        ("TernaryOp", "cond"): L["binary"], ("TernaryOp", "iftrue"): L["expression"], ("TernaryOp", "iffalse"): L["conditional"],
        ("Assignment", "lvalue"): L["conditional"], ("Assignment", "rvalue"): L["assignment"],
        ("Cast", "expr"): L["cast"],
        ("ArrayRef", "name"): L["postfix"], ("FuncCall", "name"): L["postfix"], ("StructRef", "name"): L["postfix"],
        ("ArrayRef", "subscript"): L["expression"],
        ("ExprList", "exprs"): L["assignment"], ("InitList", "exprs"): L["assignment"],
        ("Decl", "init"): L["assignment"], ("Decl", "bitsize"): L["conditional"],
        ("Enumerator", "value"): L["conditional"], ("Case", "expr"): L["conditional"],
        ("StaticAssert", "cond"): L["conditional"], ("Alignas", "alignment"): L["conditional"],
        ("NamedInitializer", "expr"): L["assignment"], ("NamedInitializer", "name"): L["conditional"],
        ("ArrayDecl", "dim"): L["assignment"],
    }.get((cls, field))


SLOTS = [("BinaryOp", "left"), ("BinaryOp", "right"), ("UnaryOp", "expr"), ("TernaryOp", "cond"), ("TernaryOp", "iftrue"), ("TernaryOp", "iffalse"),
         ("Assignment", "lvalue"), ("Assignment", "rvalue"), ("Cast", "expr"), ("ArrayRef", "name"), ("ArrayRef", "subscript"), ("FuncCall", "name"),
         ("StructRef", "name"), ("ExprList", "exprs"), ("InitList", "exprs"), ("Decl", "init"), ("Decl", "bitsize"), ("Enumerator", "value"), ("Case", "expr"),
         ("StaticAssert", "cond"), ("Alignas", "alignment"), ("NamedInitializer", "expr"), ("NamedInitializer", "name"), ("ArrayDecl", "dim")]

# fields that are deliberately not printed by the visitor of their own class (reason each)
FIELD_EXEMPT = {
    ("Decl", "name"): "printed through the innermost TypeDecl.declname by _generate_type",
    ("Decl", "quals"): "mirrors TypeDecl.quals, which _generate_type prints",
    ("Typedef", "name"): "printed through TypeDecl.declname", ("Typedef", "quals"): "mirrors TypeDecl.quals",
    ("Typename", "name"): "always '' for type names", ("Typename", "quals"): "mirrors TypeDecl.quals", ("Typename", "align"): "always None: the parser never fills it",
    ("TypeDecl", "align"): "alignment is printed from Decl.align",
    ("Constant", "type"): "the type of a constant is implied by its spelling, which is printed unchanged",
}
CLASS_EXEMPT = {"EnumeratorList": "printed by its parent: _generate_struct_union_enum walks n.values.enumerators"}
STATEMENT_EXPR_CLASSES = ["ID", "Constant", "ArrayRef", "FuncCall", "StructRef", "CompoundLiteral", "UnaryOp", "Cast", "BinaryOp", "TernaryOp", "Assignment", "ExprList"]


def check(ctx):
    for rid, text in (("R-C07.1", "generator and parser precedence tables agree"), ("R-C07.2", "parenthesisation adequacy of every operand slot"),
                      ("R-C07.3", "statement terminators"), ("R-C07.4", "visitor coverage and field use"), ("R-C07.5", "declarator inversion in _generate_type"),
                      ("R-C07.6", "no token fusion between a prefix operator and its operand"),
                      ("R-C07.7", "optional fields are emitted independently: printing one field is not conditional on another field of the same node, and text accumulated before a loop is not overwritten inside it")):
        ctx.rule(rid, text)
    g = G.Gen()
    gm = g.mod
    t = S.tables()

    def viol(rule, key, msg, fn="", node=None):
        ctx.violation(rule, key, msg, file=gm.rel, function=fn, line=getattr(node, "lineno", 0), construct=S.unparse(node)[:160] if node is not None else "")

    # ---- R-C07.1 ----------------------------------------------------------------
    c02.check_table(ctx, t.gen_precedence, lambda k: k if k in G.BIN_LEVEL else None, "R-C07.1", (gm.rel, "CGenerator.precedence_map"), "generator precedence map")
    sp_of = {tt: lit for tt, lit in t.fixed_tokens}
    pp = {sp_of.get(k): v for k, v in t.binary_precedence.items()}
    for a_ in sorted(set(pp) & set(t.gen_precedence)):
        for b_ in sorted(set(pp) & set(t.gen_precedence)):
            if a_ < b_:
                s1 = (pp[a_] > pp[b_]) - (pp[a_] < pp[b_])
                s2 = (t.gen_precedence[a_] > t.gen_precedence[b_]) - (t.gen_precedence[a_] < t.gen_precedence[b_])
                ok = s1 == s2
                ctx.oblige("R-C07.1", f"parser vs generator: {a_} {b_}", ok, nontrivial=False)
                if not ok:
                    viol("R-C07.1", f"prec-disagree:{a_}:{b_}", f"parser and generator order `{a_}` and `{b_}` differently: with reduce_parentheses the generator drops parentheses the parser needs", "CGenerator.precedence_map")
    ok = set(pp) == set(t.gen_precedence)
    ctx.oblige("R-C07.1", "same operator set", ok)
    if not ok:
        viol("R-C07.1", "prec-opset", f"operator sets differ: parser-only {sorted(set(pp) - set(t.gen_precedence), key=str)}, generator-only {sorted(set(t.gen_precedence) - set(pp), key=str)}", "CGenerator.precedence_map")

    # ---- R-C07.2 / R-C07.6 -------------------------------------------------------------
    children = G.children_abstract()
    for cls, field in SLOTS:
        if cls == "ArrayDecl":
            ems = _arraydecl_dim_emissions(g)
        else:
            fe = g.field_emissions(cls)
            if fe is None:
                raise AnalysisError(f"CGenerator.visit_{cls} vanished")
            ems = fe.get(field)
        if not ems:
            viol("R-C07.4", f"field-unprinted:{cls}.{field}", f"visit_{cls} never emits field `{field}`", f"CGenerator.visit_{cls}")
            ctx.oblige("R-C07.4", f"{cls}.{field} emitted", False)
            continue
        pops = G.BINOPS if cls == "BinaryOp" else (G.PREFIX_OPS[:-1] + G.POSTFIX_OPS if cls == "UnaryOp" else [None])
        unsafe = {}
        nchecked = 0
        for pop in pops:
            need = slot_level(cls, field, pop)
            if need is None:
                continue
            applicable = [e for e in ems if _applies(e[3], pop)]
            if not applicable:
                raise AnalysisError(f"visit_{cls}: no emission of `{field}` applies to operator {pop!r}")
            for child in children:
                have = G.produced_level(*child)
                if have >= need:
                    continue
                for reduce in (False, True):
                    for idiom, node, extra, ops in applicable:
                        if idiom not in ("visit", "visit_expr", "unless_simple", "paren_if", "paren_always"):
                            raise AnalysisError(f"visit_{cls}: field `{field}` is emitted through `{idiom}`, which the parenthesisation model does not know")
                        nchecked += 1
                        if not g.parenthesised(idiom, extra, child, pop, reduce):
                            unsafe.setdefault(child[0], set()).add((pop, child[1], reduce))
        ok = not unsafe
        ctx.oblige("R-C07.2", f"{cls}.{field}", ok, sample={"rule": "R-C07.2", "slot": f"{cls}.{field}", "combinations evaluated": nchecked, "emission": sorted({e[0] for e in ems}), "verdict": "every looser child is parenthesised" if ok else f"BARE: {sorted(unsafe)}"})
        if not ok:
            ex = _example(cls, field, unsafe)
            viol("R-C07.2", f"bare:{cls}.{field}:{','.join(sorted(unsafe))}", f"visit_{cls} emits `{field}` without parentheses although it can hold a {sorted(unsafe)} node, which binds looser than the level at which the parser parses that operand: the text re-parses to a different tree ({ex})",
                 f"CGenerator.visit_{cls}", ems[0][1])
    # fusion
    fe = g.field_emissions("UnaryOp") or {}
    for pop in ("&", "*", "+", "-", "~", "!", "++", "--"):
        for cop in ("&", "*", "+", "-", "~", "!", "++", "--"):
            fuses = pop[-1] == cop[0] and pop[-1] in "+-&"
            if not fuses:
                continue
            for idiom, node, extra, ops in [e for e in fe.get("expr", []) if _applies(e[3], pop)]:
                # is the operator glued to the operand without a separator?
                glued = _glued(node)
                for reduce in (False, True):
                    par = g.parenthesised(idiom, extra, ("UnaryOp", cop), pop, reduce)
                    ok = par or not glued
                    ctx.oblige("R-C07.6", f"`{pop}` before `{cop}x`", ok, sample={"rule": "R-C07.6", "parent op": pop, "child op": cop, "parenthesised": par} if (not ok or (pop == "-" and cop == "--")) else None)
                    if not ok:
                        viol("R-C07.6", f"fusion:{pop}:{cop}", f"visit_UnaryOp prints `{pop}` directly followed by the unparenthesised operand `{cop}x`: the text `{pop}{cop}x` is re-lexed as different tokens (`{(pop + cop)[:2]}` ...)", "CGenerator.visit_UnaryOp", node)
    # ... and a constant is never glued to the `.` of a member access: `1.x` is the floating constant `1.` followed by x
    fe = g.field_emissions("StructRef") or {}
    nsr = 0
    for idiom, node, extra, ops in fe.get("name", []):
        for reduce in (False, True):
            par = g.parenthesised(idiom, extra, ("Constant", None), None, reduce)
            nsr += 1
            ctx.oblige("R-C07.6", "a constant before `.member` is parenthesised", bool(par), sample={"rule": "R-C07.6", "slot": "StructRef.name", "child": "Constant", "parenthesised": bool(par)})
            if not par:
                viol("R-C07.6", "fusion:Constant:.", "visit_StructRef prints a Constant base directly followed by `.`: the text `1.x` is re-lexed as the floating constant `1.` followed by `x` and no longer parses "
                     "(`(1).x` is a syntactically valid postfix expression)", "CGenerator.visit_StructRef", node)
    if not nsr:
        raise AnalysisError("visit_StructRef: emission of the base expression not found")
    ctx.require_instances("R-C07.2", 20)

    # ---- R-C07.3 ------------------------------------------------------------------------
    gs = g.methods.get("_generate_stmt")
    if gs is None:
        raise AnalysisError("CGenerator._generate_stmt vanished")
    semi_classes = set()
    for mc in ast.walk(gs):
        if isinstance(mc, ast.match_case):
            strs = [c.value for st in mc.body for c in ast.walk(st) if isinstance(c, ast.Constant) and isinstance(c.value, str)]
            if any(s.startswith(";") for s in strs):
                semi_classes |= {c.cls.attr for c in ast.walk(mc.pattern) if isinstance(c, ast.MatchClass) and isinstance(c.cls, ast.Attribute)}
    if not semi_classes:
        raise AnalysisError("_generate_stmt: the case that appends ';' was not found")
    for cls in STATEMENT_EXPR_CLASSES + ["Decl", "Typedef"]:
        ok = cls in semi_classes
        ctx.oblige("R-C07.3", f"{cls} statement gets ';'", ok, sample={"rule": "R-C07.3", "class": cls, "verdict": "terminated" if ok else "NO TERMINATOR"} if not ok else None)
        if not ok:
            viol("R-C07.3", f"no-semicolon:{cls}", f"a {cls} node used as a statement is printed without ';' (it is not in _generate_stmt's list): the following statement is glued to it", "CGenerator._generate_stmt", gs)

    # ... and only the visitors of constructs that C itself ends with ';' (the jump statements and the null statement) return text that ends in ';':
    # every other construct gets its terminator from the place that uses it as a statement, so a visitor that adds one of its own prints two - the
    # second is an empty statement (or a syntax error inside an expression) when the text is parsed again
    # (C99 6.8.3 null statement, 6.8.6 jump statements, 6.8.5 `do statement while ( expression ) ;` - the only compound form whose syntax ends in ';')
    OWN_TERMINATOR = {"EmptyStatement", "Return", "Break", "Continue", "Goto", "DoWhile"}
    for vname, vfn in sorted(g.methods.items()):
        if not vname.startswith("visit_"):
            continue
        parent_list = {}
        for blk in ast.walk(vfn):
            for fld in ("body", "orelse", "finalbody"):
                sts = getattr(blk, fld, None)
                if isinstance(sts, list):
                    for i_, st in enumerate(sts):
                        parent_list[id(st)] = (sts, i_)
        for r_ in ast.walk(vfn):
            if not (isinstance(r_, ast.Return) and r_.value is not None):
                continue
            e_ = r_.value
            if isinstance(e_, ast.Name) and id(r_) in parent_list:
                # `s += ");"` followed by `return s`: the tail is the tail of the last piece added
                sts, i_ = parent_list[id(r_)]
                prev = sts[i_ - 1] if i_ > 0 else None
                if isinstance(prev, ast.AugAssign) and isinstance(prev.op, ast.Add) and isinstance(prev.target, ast.Name) and prev.target.id == e_.id:
                    e_ = prev.value
                elif isinstance(prev, ast.Assign) and len(prev.targets) == 1 and isinstance(prev.targets[0], ast.Name) and prev.targets[0].id == e_.id:
                    e_ = prev.value
            while isinstance(e_, ast.BinOp):
                e_ = e_.right
            tail = e_.value if isinstance(e_, ast.Constant) and isinstance(e_.value, str) else (str(e_.values[-1].value) if isinstance(e_, ast.JoinedStr) and e_.values and isinstance(e_.values[-1], ast.Constant) else "")
            ends = tail.rstrip().endswith(";")
            ok = (not ends) or vname[6:] in OWN_TERMINATOR
            ctx.oblige("R-C07.3", f"{vname}: return at line {r_.lineno} ends with ';' only for a self-terminated statement", ok, nontrivial=ends)
            if not ok:
                viol("R-C07.3", f"own-semicolon:{vname[6:]}", f"{vname} returns text that ends in ';' (`{S.unparse(r_)[:70]}`), but a {vname[6:]} is not a construct C terminates itself: where it is used as a statement the generator adds the terminator, "
                     "so the text has two - a second, empty statement appears when it is parsed again", f"CGenerator.{vname}", r_)

    # ---- R-C07.4 ---------------------------------------------------------------------------
    spec = A.parse_cfg()
    for cname, entries, _ in spec:
        if cname in CLASS_EXEMPT:
            continue
        fn = g.methods.get("visit_" + cname)
        ok = fn is not None
        ctx.oblige("R-C07.4", f"visit_{cname} exists", ok, nontrivial=False)
        if not ok:
            viol("R-C07.4", f"no-visitor:{cname}", f"CGenerator has no visit_{cname}: the node is printed by generic_visit (children concatenated without syntax)", "CGenerator")
            continue
        reads = _transitive_reads(g, fn)
        for fname, kind in entries:
            if (cname, fname) in FIELD_EXEMPT:
                continue
            ok = fname in reads
            ctx.oblige("R-C07.4", f"{cname}.{fname} printed", ok)
            if not ok:
                viol("R-C07.4", f"field-unprinted:{cname}.{fname}", f"visit_{cname} (and the helpers it hands the node to) never reads `{fname}`: whatever the parser stored there is lost in the generated text", f"CGenerator.visit_{cname}", fn)
    # a list-valued field printed only at one index
    for mname, fn in g.methods.items():
        for n in ast.walk(fn):
            if isinstance(n, ast.Subscript) and isinstance(n.slice, ast.Constant) and isinstance(n.slice.value, int) and isinstance(n.value, ast.Attribute) and isinstance(n.value.value, ast.Name) \
                    and n.value.attr in ("align", "storage", "funcspec", "quals", "dim_quals", "names", "decls", "exprs", "params", "stmts", "block_items"):
                whole = any(isinstance(m2, ast.Attribute) and m2.attr == n.value.attr and m2 is not n.value and not isinstance(getattr(m2, "_parent", None), ast.Subscript) and _usage_prints(m2)
                            for m2 in ast.walk(fn))
                rest = any(isinstance(m2, ast.Subscript) and isinstance(m2.value, ast.Attribute) and m2.value.attr == n.value.attr and isinstance(m2.slice, ast.Slice) for m2 in ast.walk(fn))
                ok = whole or rest
                ctx.oblige("R-C07.4", f"{mname}: {S.unparse(n)} is not the only element printed", ok)
                if not ok:
                    viol("R-C07.4", f"only-one-element:{mname}:{S.unparse(n)}", f"{mname} prints only `{S.unparse(n)}`; further elements of the list `{n.value.attr}` are dropped from the generated text", f"CGenerator.{mname}", n)
    # DeclList: later declarators printed by name only
    dl = g.methods.get("visit_DeclList")
    if dl is not None:
        no_type = [c for c in ast.walk(dl) if isinstance(c, ast.keyword) and c.arg == "no_type"]
        ok = not no_type
        ctx.oblige("R-C07.4", "DeclList prints the full declarator of every declaration", ok)
        if not ok:
            viol("R-C07.4", "decllist-no-type", "visit_DeclList prints the declarations after the first with no_type=True, i.e. by bare name: pointer / array / function declarators of later names are lost (`for (int i = 0, *p = 0;;)` becomes `int i = 0, p = 0`)",
                 "CGenerator.visit_DeclList", dl)
    # Pragma.string may be a node (the _Pragma operator): concatenated with a str
    pr = g.methods.get("visit_Pragma")
    if pr is not None:
        import json
        from .. import wirecheck as WC
        recs = [f for lab, f in WC.current().get("_parse_pppragma_directive", {}).get("records", []) if lab == "Pragma"]
        node_valued = [f["string"] for f in recs if any(("#" in v and not v.endswith(".value")) and "tok{" not in v for v in f.get("string", []))]
        concat = any(isinstance(n, ast.BinOp) and isinstance(n.op, ast.Add) and any(isinstance(x, ast.Attribute) and x.attr == "string" for x in (n.left, n.right)) for n in ast.walk(pr))
        guarded = any(isinstance(c, ast.Call) and isinstance(c.func, ast.Name) and c.func.id == "isinstance" and S.unparse(c.args[0]).endswith(".string") for c in ast.walk(pr))
        ok = not (node_valued and concat) or guarded
        ctx.oblige("R-C07.4", "Pragma.string is a str wherever the generator concatenates it", ok, sample={"rule": "R-C07.4", "parser stores": node_valued, "generator concatenates": concat})
        if not ok:
            viol("R-C07.4", "pragma-string-node", f"the parser stores a node in Pragma.string for the _Pragma operator ({node_valued[0]}), but visit_Pragma concatenates it with a str: generating code for `_Pragma(\"x\")` raises TypeError", "CGenerator.visit_Pragma", pr)

    # the exemption ("Typename", "quals") rests on a fact of the PARSER: every type assembled by _fix_decl_name_type is normalised by
    # fix_atomic_specifiers, so no Typename carrying _Atomic stays nested inside a TypeDecl where the generator would not print its qualifier
    from .. import wirecheck as WC2
    curw = WC2.current()
    nfix = 0
    for m_, info in sorted(curw.items()):
        made = set()
        for lab, fa in info.get("calls", info["records"]):
            if lab == "call:_fix_decl_name_type":
                made.add(m_)
        if not made:
            continue
        normalised = set()
        for lab, fa in info.get("calls", info["records"]):
            if lab == "call:fix_atomic_specifiers":
                normalised |= {v for v in fa.get("p0", []) if v.startswith("_fix_decl_name_type#")}
        ncalls = sum(1 for lab, _ in info.get("calls", info["records"]) if lab == "call:_fix_decl_name_type")
        ok = len(normalised) >= ncalls
        nfix += 1
        ctx.oblige("R-C07.4", f"{m_}: types assembled by _fix_decl_name_type are normalised by fix_atomic_specifiers", ok, sample={"rule": "R-C07.4", "method": m_, "_fix_decl_name_type calls": ncalls, "normalised": sorted(normalised)})
        if not ok:
            viol("R-C07.4", f"atomic-not-normalised:{m_}", f"{m_} returns a type assembled by _fix_decl_name_type without passing it through fix_atomic_specifiers: for `_Atomic(int)` as the whole type (sizeof, cast, unnamed parameter) a Typename with the "
                 "_Atomic qualifier stays nested inside a TypeDecl, and the generator - which prints qualifiers from TypeDecl.quals only - drops it (`sizeof(_Atomic(int))` is generated as `sizeof(int)`)", m_)
    if nfix < 3:
        raise AnalysisError(f"only {nfix} methods calling _fix_decl_name_type found (confirmed by reading: 3)")
    # the exemptions (Decl / Typedef / Typename, "quals") rest on another fact of the parser: _fix_decl_name_type copies the declaration's qualifiers into
    # the innermost TypeDecl, the only place the generator prints them from.  A declaration node that receives qualifiers from a specifier record and is
    # NOT handed to _fix_decl_name_type keeps them in a field nobody prints.
    nq = 0
    # classes whose own `quals` field the generator prints somewhere, under a class test on the node's type (tag-only declarations)
    printed_quals = set()
    for gname, gfn in g.methods.items():
        if not gfn.args.args or len(gfn.args.args) < 2:
            continue
        ann = gfn.args.args[1].annotation
        gcls = ann.attr if isinstance(ann, ast.Attribute) else None
        for a_ in ast.walk(gfn):
            if isinstance(a_, ast.Attribute) and a_.attr == "quals" and isinstance(a_.value, ast.Name) and a_.value.id == gfn.args.args[1].arg and isinstance(a_.ctx, ast.Load):
                holder = a_
                while holder is not None and not isinstance(holder, ast.If):
                    holder = getattr(holder, "_parent", None)
                if holder is not None and any(isinstance(c_, ast.Call) and isinstance(c_.func, ast.Name) and c_.func.id == "isinstance" for c_ in ast.walk(holder.test)) \
                        and any(isinstance(x_, (ast.AugAssign, ast.Return)) for st_ in holder.body for x_ in ast.walk(st_)):
                    if gcls:
                        printed_quals.add(gcls)
    for m_, info in sorted(curw.items()):
        fixed_nodes = {v for lab, fa in info.get("calls", info["records"]) if lab == "call:_fix_decl_name_type" for v in fa.get("p0", [])}
        counters = {}
        for lab, fa in info["records"]:
            cls = lab.split(">")[-1]
            if cls not in ("Decl", "Typedef", "Typename"):
                continue
            k = counters.get(cls, 0)
            counters[cls] = k + 1
            qv = [v for v in fa.get("quals", []) if v.endswith("[qual]") or "[qual]" in v]
            if not qv:
                continue
            nq += 1
            ok = f"new:{cls}#{k}" in fixed_nodes or any(v.startswith(f"new:{cls}#") for v in fixed_nodes)
            if not ok and cls in printed_quals:
                ok = True       # the generator prints the node's own quals where there is no TypeDecl (guarded by a class test on its type)
            ctx.oblige("R-C07.4", f"{m_}: {cls}.quals from {qv[0]} is mirrored into the TypeDecl by _fix_decl_name_type", ok, sample={"rule": "R-C07.4", "method": m_, "node": cls, "quals from": qv, "handed to _fix_decl_name_type": sorted(fixed_nodes)})
            if not ok:
                viol("R-C07.4", f"quals-not-mirrored:{m_}:{cls}", f"{m_} builds a {cls} whose quals come from the specifier record ({qv[0]}) but never hands it to _fix_decl_name_type: the qualifiers stay in {cls}.quals only, "
                     "which no visitor prints (the generator prints qualifiers from TypeDecl.quals) - `const struct s { int x; };` is generated without `const` and re-parses to a different tree", m_)
    if nq < 3:
        raise AnalysisError(f"only {nq} declaration nodes with qualifiers from a specifier record found (confirmed by reading: 4)")

    # absent vs empty: the parser builds Struct/Union with decls=None (no body) and decls=[] (empty body); the generator must tell them apart
    se = g.methods.get("_generate_struct_union_enum")
    if se is None:
        raise AnalysisError("CGenerator._generate_struct_union_enum vanished")
    from .. import wirecheck as WC
    prov = {tuple(f.get("decls", [])) for lab, f in WC.current().get("_parse_struct_or_union_specifier", {}).get("records", []) if lab == "Struct|Union"}
    both = any("None" in p for p in prov) and any("[]" in p for p in prov)
    mvars = {t.id for a_ in ast.walk(se) if isinstance(a_, ast.Assign) and isinstance(a_.value, ast.Attribute) and a_.value.attr == "decls" for t in a_.targets if isinstance(t, ast.Name)}
    tests = [n for n in ast.walk(se) if isinstance(n, ast.If) and any(isinstance(x, ast.Name) and x.id in mvars for x in ast.walk(n.test))]
    if not tests:
        raise AnalysisError("_generate_struct_union_enum: the test that decides whether a body is printed was not found")
    for tnode in tests:
        ok = (not both) or (isinstance(tnode.test, ast.Compare) and isinstance(tnode.test.ops[0], (ast.IsNot, ast.Is)) and isinstance(tnode.test.comparators[0], ast.Constant) and tnode.test.comparators[0].value is None)
        ctx.oblige("R-C07.4", "struct/union/enum body printed iff members is not None", ok, sample={"rule": "R-C07.4", "test": S.unparse(tnode.test), "parser builds decls from": sorted(prov)})
        if not ok:
            viol("R-C07.4", f"absent-vs-empty:{S.unparse(tnode.test)}", f"_generate_struct_union_enum decides with `{S.unparse(tnode.test)}` whether to print a body: the parser distinguishes an absent body (decls=None) from an empty one (decls=[]), so `struct S {{}} x;` would be printed as `struct S x;`",
                 "CGenerator._generate_struct_union_enum", tnode)

    # ---- R-C07.5 --------------------------------------------------------------------------
    gt = g.methods.get("_generate_type")
    if gt is None:
        raise AnalysisError("CGenerator._generate_type vanished")
    def _wraps_self(st, left, right):
        """`x = <left> + x [+ <right>]` on a local x"""
        if not (isinstance(st, ast.Assign) and len(st.targets) == 1 and isinstance(st.targets[0], ast.Name)):
            return False
        x = st.targets[0].id
        return S.unparse(st.value) == (f"{left!r} + {x} + {right!r}" if right is not None else f"{left!r} + {x}")

    # a local that carries the previous element of the walk over the modifiers: None before the loop, `prev = <loop variable>` as the last statement of each round
    pm_ = gt.args.args[2].arg
    mod_loops = [n for n in ast.walk(gt) if isinstance(n, ast.For) and S.unparse(n.iter) in (f"enumerate({pm_})", pm_)]
    prev_vars = set()
    for lp_ in mod_loops:
        lv_ = lp_.target.elts[-1].id if isinstance(lp_.target, ast.Tuple) and isinstance(lp_.target.elts[-1], ast.Name) else (lp_.target.id if isinstance(lp_.target, ast.Name) else None)
        last_ = lp_.body[-1] if lp_.body else None
        if lv_ and isinstance(last_, ast.Assign) and len(last_.targets) == 1 and isinstance(last_.targets[0], ast.Name) and isinstance(last_.value, ast.Name) and last_.value.id == lv_:
            pv_ = last_.targets[0].id
            inits = [a for a in ast.walk(gt) if isinstance(a, (ast.Assign, ast.AnnAssign)) and a.lineno < lp_.lineno and any(isinstance(t, ast.Name) and t.id == pv_ for t in (a.targets if isinstance(a, ast.Assign) else [a.target]))
                     and isinstance(a.value, ast.Constant) and a.value.value is None]
            others = [a for a in ast.walk(gt) if isinstance(a, ast.Name) and a.id == pv_ and isinstance(a.ctx, ast.Store)]
            if inits and len(others) == 2:
                prev_vars.add(pv_)

    def _prev_is_ptr(test):
        """`<i> != 0 and isinstance(modifiers[<i> - 1], c_ast.PtrDecl)` for the loop index <i> over enumerate(modifiers), or `isinstance(<prev>, c_ast.PtrDecl)`
        for a local that carries the previous modifier"""
        txt = S.unparse(test)
        import re as _re
        if _re.fullmatch(r"(\w+) != 0 and isinstance\((\w+)\[\1 - 1\], c_ast\.PtrDecl\)", txt):
            return True
        m_ = _re.fullmatch(r"isinstance\((\w+), c_ast\.PtrDecl\)", txt)
        return bool(m_ and m_.group(1) in prev_vars)
    wraps = [n for n in ast.walk(gt) if isinstance(n, ast.If) and _prev_is_ptr(n.test) and any(_wraps_self(s, "(", ")") for s in n.body)]
    # the same test-and-wrap extracted into a helper: `x = self.H(x, modifiers, i)` with H = `if <prev is pointer>: return "(" + x + ")"; return x`
    for hname, h in g.methods.items():
        hb = [st for st in h.body if not (isinstance(st, ast.Expr) and isinstance(st.value, ast.Constant))]
        if len(hb) == 2 and isinstance(hb[0], ast.If) and _prev_is_ptr(hb[0].test) and not hb[0].orelse and len(hb[0].body) == 1 and isinstance(hb[0].body[0], ast.Return) and isinstance(hb[1], ast.Return) \
                and isinstance(hb[1].value, ast.Name) and S.unparse(hb[0].body[0].value) == f"'(' + {hb[1].value.id} + ')'":
            pos = [a.arg for a in h.args.args].index(hb[1].value.id) - 1
            for n in ast.walk(gt):
                if isinstance(n, ast.Assign) and len(n.targets) == 1 and isinstance(n.targets[0], ast.Name) and isinstance(n.value, ast.Call) and isinstance(n.value.func, ast.Attribute) and n.value.func.attr == hname \
                        and 0 <= pos < len(n.value.args) and S.unparse(n.value.args[pos]) == n.targets[0].id:
                    wraps.append(n)
    cases = {c.cls.attr: mc for mc in ast.walk(gt) if isinstance(mc, ast.match_case) for c in ast.walk(mc.pattern) if isinstance(c, ast.MatchClass) and isinstance(c.cls, ast.Attribute)}
    in_array = any(w in list(ast.walk(cases.get("ArrayDecl", ast.Pass()))) for w in wraps)
    in_func = any(w in list(ast.walk(cases.get("FuncDecl", ast.Pass()))) for w in wraps)
    ok = len(wraps) == 2 and in_array and in_func
    ctx.oblige("R-C07.5", "array / function suffix after a pointer parenthesises the declarator", ok)
    if not ok:
        viol("R-C07.5", "ptr-suffix-parens", "_generate_type must wrap the declarator in parentheses exactly when an array or function modifier follows a pointer modifier (pointer-to-array / pointer-to-function)", "CGenerator._generate_type", gt)
    rec = [S.positional_args(c, gt) for c in ast.walk(gt) if isinstance(c, ast.Call) and getattr(c.func, "attr", "") == "_generate_type"]
    pn, pm = gt.args.args[1].arg, gt.args.args[2].arg
    ok = any(a is not None and len(a) >= 2 and a[0] is not None and a[1] is not None and S.unparse(a[1]) == f"{pm} + [{pn}]" and S.unparse(a[0]) == f"{pn}.type" for a in rec)
    ctx.oblige("R-C07.5", "modifiers are collected outermost first on the way down to the TypeDecl", ok)
    if not ok:
        viol("R-C07.5", "modifier-order", "_generate_type must recurse with (n.type, modifiers + [n]): modifiers are applied innermost first when the TypeDecl is reached", "CGenerator._generate_type", gt)
    loops = mod_loops
    ok = len(loops) == 1
    ctx.oblige("R-C07.5", "modifiers are walked in order", ok)
    if not ok:
        viol("R-C07.5", "modifier-walk", "_generate_type must walk the modifiers in order, in one loop", "CGenerator._generate_type", gt)
    ptr = cases.get("PtrDecl")
    ok = ptr is not None and any(_wraps_self(s, "*", None) for s in ast.walk(ptr))
    ctx.oblige("R-C07.5", "a pointer modifier prefixes '*'", ok)
    if not ok:
        viol("R-C07.5", "ptr-prefix", "the PtrDecl case must prefix the declarator with '*'", "CGenerator._generate_type", gt)
    seen78 = set()
    from . import wiring_common as WCm8
    # ---- R-C07.8: GNU statement expressions keep their parentheses ---------------------------------------------------------
    # The parser accepts `({ ... })` where an assignment-expression starts and stores the bare Compound as the expression node.  The parentheses
    # are part of the construct: a field that can receive such a Compound must be printed through _visit_expr (which restores them), not through a
    # plain self.visit - the parentheses of `if (...)`, `while (...)` or `[...]` around the field do not help, `if ({ 1; })` is not an expression.
    ctx.rule("R-C07.8", "a field that can hold a GNU statement expression (a Compound stored by an expression production) is printed through _visit_expr / a _parenthesize helper, which restores its parentheses")
    from .. import wirecheck as WC8
    cur8 = WC8.current()
    # expression productions that can return a bare Compound: those with a Compound constructor record or a return that forwards such a production
    compound_prods = set()
    changed8 = True
    while changed8:
        changed8 = False
        for m_, info in cur8.items():
            if m_ in compound_prods or not (m_ in WCm8.EXPR or m_ in ("_parse_initializer", "_parse_expression_opt")) or m_ == "_parse_primary_expression":
                continue      # (through a parenthesised primary every operand slot could hold one - `-(({ 1; }))`; the rule is about the slots that take it directly)
            direct = any(r.startswith("_parse_compound_statement#") for r in info["returns"])
            fwd = any(r.split("#")[0] in compound_prods for r in info["returns"])
            if direct or fwd:
                compound_prods.add(m_)
                changed8 = True
    n78 = 0
    for m_, info in sorted(cur8.items()):
        for lab, fa in info["records"]:
            cls = lab.split(">")[-1]
            if lab.startswith(("call:", "fn:")) or ("visit_" + cls) not in g.methods:
                continue
            em = g.field_emissions(cls) or {}
            for f_, vals in fa.items():
                srcs = sorted({v.split("#")[0] for v in vals if v.split("#")[0] in compound_prods and "." not in v and "[" not in v})
                if not srcs or f_ not in em:
                    continue
                plain = [x for x in em[f_] if isinstance(x[1].func, ast.Attribute) and x[1].func.attr == "visit"]
                n78 += 1
                ok = not plain
                ctx.oblige("R-C07.8", f"{cls}.{f_} (from {srcs[0]}) is printed through _visit_expr", ok, sample={"rule": "R-C07.8", "field": f"{cls}.{f_}", "parser sources that can yield a Compound": srcs, "emission": [x[0] for x in em[f_]]})
                if not ok and f"{cls}.{f_}" not in seen78:
                    seen78.add(f"{cls}.{f_}")
                    viol("R-C07.8", f"stmt-expr-bare:{cls}.{f_}", f"visit_{cls} prints {cls}.{f_} with a plain self.visit, but the parser can store a GNU statement expression there ({m_} fills it from {srcs[0]}, which returns the bare Compound of `({{ ... }})`): "
                         f"the parentheses are lost and the generated text does not parse again", f"CGenerator.visit_{cls}", plain[0][1])
    if n78 < 8:
        raise AnalysisError(f"only {n78} fields fed by a statement-expression capable production found (confirmed by reading: > 20)")
    # ---- R-C07.7 ------------------------------------------------------------------------
    n77 = 0
    for fname, fn in sorted(gm.methods("CGenerator").items()):
        # (a) a field read that is reached only when ANOTHER field of the same node passes a test, and not on the other outcome
        for n in ast.walk(fn):
            if not (isinstance(n, ast.Attribute) and isinstance(n.value, ast.Name) and isinstance(n.ctx, ast.Load) and n.value.id not in ("self", "c_ast")):
                continue
            X, F = n.value.id, n.attr
            cur = n
            while cur is not fn and cur is not None:
                par = getattr(cur, "_parent", None)
                if isinstance(par, (ast.If, ast.IfExp)) and cur is not par.test:
                    others = sorted({a.attr for a in ast.walk(par.test) if isinstance(a, ast.Attribute) and isinstance(a.value, ast.Name) and a.value.id == X and a.attr != F})
                    tests_self = any(isinstance(a, ast.Attribute) and isinstance(a.value, ast.Name) and a.value.id == X and a.attr == F for a in ast.walk(par.test))
                    if others and not tests_self:
                        if isinstance(par, ast.If):
                            here = par.body if any(cur is s_ for s_ in par.body) else par.orelse
                            there = par.orelse if here is par.body else par.body
                        else:
                            here, there = ([par.body], [par.orelse]) if cur is par.body else ([par.orelse], [par.body])
                        also = any(isinstance(a, ast.Attribute) and isinstance(a.value, ast.Name) and a.value.id == X and a.attr == F for s_ in there for a in ast.walk(s_))
                        n77 += 1
                        ctx.oblige("R-C07.7", f"{fname}: {X}.{F} under a test of {X}.{others}", also, sample={"rule": "R-C07.7", "visitor": fname, "field": F, "tested field": others, "emitted on the other outcome too": also})
                        if not also:
                            viol("R-C07.7", f"conditional-field:{fname}:{F}:{','.join(others)}", f"{fname} prints `{X}.{F}` only when a test on `{X}.{others[0]}` passes: a node where {F} is set and the test fails is generated without it", f"CGenerator.{fname}", par)
                    elif tests_self and not others and isinstance(par, (ast.If, ast.IfExp)) and not _presence_test(par.test, X, F) and _is_emission(n):
                        # the field is printed only for some VALUES of the field (a class test, a comparison): what is there is not printed
                        if isinstance(par, ast.If):
                            here = par.body if any(cur is s_ for s_ in par.body) else par.orelse
                            there = par.orelse if here is par.body else par.body
                            if here is par.body and par.body and isinstance(par.body[-1], (ast.Return, ast.Raise)):
                                # the arm does not fall through: what follows the `if` is the other outcome
                                gp = getattr(par, "_parent", None)
                                for field in ("body", "orelse"):
                                    blk = getattr(gp, field, None)
                                    if isinstance(blk, list) and any(x is par for x in blk):
                                        there = list(there) + blk[[i for i, x in enumerate(blk) if x is par][0] + 1:]
                        else:
                            there = [par.orelse] if cur is par.body else [par.body]
                        also = any(isinstance(a, ast.Attribute) and isinstance(a.value, ast.Name) and a.value.id == X and a.attr == F and isinstance(a.ctx, ast.Load) for s_ in there for a in ast.walk(s_))
                        n77 += 1
                        ctx.oblige("R-C07.7", f"{fname}: {X}.{F} under a test of its own value", also, sample={"rule": "R-C07.7", "visitor": fname, "field": F, "test": S.unparse(par.test)[:60], "emitted on the other outcome too": also})
                        if not also:
                            viol("R-C07.7", f"value-conditional-field:{fname}:{F}", f"{fname} prints `{X}.{F}` only when `{S.unparse(par.test)[:70]}` holds and nothing in its place otherwise: a child that is present but fails the test "
                                 "(e.g. a null statement after a label) disappears from the generated text", f"CGenerator.{fname}", par)
                cur = par
        # (b) text accumulated before a loop and used after it is not overwritten inside the loop
        for lp in [x for x in ast.walk(fn) if isinstance(x, (ast.For, ast.While))]:
            for st in ast.walk(lp):
                if isinstance(st, ast.Assign) and len(st.targets) == 1 and isinstance(st.targets[0], ast.Name) and st is not lp:
                    v = st.targets[0].id
                    carried = {v}         # names whose value is derived from v inside the loop
                    changed = True
                    while changed:
                        changed = False
                        for a2 in ast.walk(lp):
                            if isinstance(a2, ast.Assign) and len(a2.targets) == 1 and isinstance(a2.targets[0], ast.Name) and a2.targets[0].id not in carried \
                                    and any(isinstance(x, ast.Name) and x.id in carried for x in ast.walk(a2.value)):
                                carried.add(a2.targets[0].id)
                                changed = True
                    if any(isinstance(a, ast.Name) and a.id in carried for a in ast.walk(st.value)):
                        continue
                    before = any(isinstance(a, (ast.Assign, ast.AugAssign)) and a.lineno < lp.lineno and any(isinstance(t_, ast.Name) and t_.id == v for t_ in (a.targets if isinstance(a, ast.Assign) else [a.target])) for a in ast.walk(fn))
                    end = getattr(lp, "end_lineno", lp.lineno)
                    after = any(isinstance(a, ast.Name) and a.id == v and isinstance(a.ctx, ast.Load) and a.lineno > end for a in ast.walk(fn))
                    grows = any(isinstance(a, ast.AugAssign) and isinstance(a.target, ast.Name) and a.target.id == v for a in ast.walk(lp))
                    if before and after and grows:
                        n77 += 1
                        ctx.oblige("R-C07.7", f"{fname}: accumulator {v} overwritten in a loop", False)
                        viol("R-C07.7", f"accumulator-clobbered:{fname}:{v}", f"{fname}: `{S.unparse(st)[:60]}` overwrites `{v}` inside a loop although the text is accumulated before the loop and used after it: everything generated so far is dropped", f"CGenerator.{fname}", st)
    ctx.oblige("R-C07.7", "accumulators are not overwritten inside loops", True, nontrivial=False)
    # (c) no text that was produced is overwritten before it is used (forward may-analysis of pending stores, sa/lostwrites.py)
    from ..lostwrites import LostWrites
    for fname, fn in sorted(gm.methods("CGenerator").items()):
        lost = [(by, pend, var) for by, pend, var in LostWrites(fn).run() if by is not None]
        ctx.oblige("R-C07.7", f"{fname}: no produced text is overwritten unread", not lost, nontrivial=False)
        for by, pend, var in lost:
            viol("R-C07.7", f"lost-text:{fname}:{var}", f"{fname}: `{S.unparse(by)[:70]}` overwrites `{var}` while the text stored by `{S.unparse(pend)[:70]}` (line {pend.lineno}) has not been used on some path: "
                 "whatever was generated for the node so far (specifiers, qualifiers, a prefix) is dropped from the output", f"CGenerator.{fname}", by)
    ctx.info["explanation"] = ("emission model of the generator: for every operand slot (24 slots x parent operators) and every abstract child (expression class x operator) looser than the slot's parse level, the emission idiom's "
                               "parenthesisation predicate is evaluated on the finite abstraction it can observe, in both generator configurations; precedence maps compared on all pairs; terminator list, visitor coverage, "
                               "field reads, token fusion and the declarator-inversion shape checked structurally")
    ctx.assumptions += ["NOT decided: equality of the two run-time ASTs and character-for-character idempotence of the generated text", "operand levels are those of DESIGN.md Appendix B (derived from the parser's reviewed wiring)"]
    ctx.trusted += ["E3 emission model", "Appendix B level table in sa/props/c07.py and sa/genmodel.py"]


def _presence_test(test, X, F):
    """the test only asks whether X.F is there (truthiness, None, emptiness) - possibly combined with other conjuncts"""
    def atom(t):
        if isinstance(t, ast.UnaryOp) and isinstance(t.op, ast.Not):
            return atom(t.operand)
        if isinstance(t, ast.Attribute):
            return True
        if isinstance(t, ast.Compare) and len(t.ops) == 1 and isinstance(t.ops[0], (ast.Is, ast.IsNot, ast.Eq, ast.NotEq)) and isinstance(t.comparators[0], ast.Constant) and t.comparators[0].value in (None, 0, ""):
            return True
        if isinstance(t, ast.Compare) and isinstance(t.left, ast.Call) and isinstance(t.left.func, ast.Name) and t.left.func.id == "len":
            return True
        if isinstance(t, ast.Call) and isinstance(t.func, ast.Name) and t.func.id in ("len", "bool"):
            return True
        return False
    parts = test.values if isinstance(test, ast.BoolOp) else [test]
    for p_ in parts:
        mentions = any(isinstance(a, ast.Attribute) and isinstance(a.value, ast.Name) and a.value.id == X and a.attr == F for a in ast.walk(p_))
        if mentions and not atom(p_):
            return False
    return True


def _is_emission(attr):
    """X.F is handed to a visiting / generating method (not merely inspected)"""
    par = getattr(attr, "_parent", None)
    return isinstance(par, ast.Call) and isinstance(par.func, ast.Attribute) and (par.func.attr.startswith(("visit", "_visit", "_generate", "_parenthesize")))


def _applies(ops, pop):
    if ops is None or pop is None:
        return True
    kind, lst = ops
    return (pop in lst) if kind == "in" else (pop not in lst)


def _glued(call):
    """The visited operand is emitted right after {n.op} with no separator."""
    par = getattr(call, "_parent", None)
    # operand = self._paren...(n.expr) ; return f"{n.op}{operand}"
    if isinstance(par, ast.Assign) and isinstance(par.targets[0], ast.Name):
        var = par.targets[0].id
        fn = S.enclosing_function(call)
        for js in ast.walk(fn):
            if isinstance(js, ast.JoinedStr):
                vals = js.values
                for i, v in enumerate(vals[:-1]):
                    if isinstance(v, ast.FormattedValue) and S.unparse(v.value).endswith(".op") and isinstance(vals[i + 1], ast.FormattedValue) and S.unparse(vals[i + 1].value) == var:
                        return True
        return False
    return True


def _arraydecl_dim_emissions(g):
    gt = g.methods.get("_generate_type")
    out = []
    for n in ast.walk(gt):
        if isinstance(n, ast.Call) and isinstance(n.func, ast.Attribute) and n.func.attr in ("visit", "_visit_expr") and n.args and S.unparse(n.args[0]).endswith(".dim"):
            out.append(("visit" if n.func.attr == "visit" else "visit_expr", n, None, None))
    return out


def _transitive_reads(g, fn, depth=0, seen=None):
    """Fields of the node read by fn and by the helpers it passes the whole node (or self.visit_X(n)) to."""
    seen = seen or set()
    nvar = fn.args.args[1].arg if len(fn.args.args) > 1 else None
    out = set(g.reads(fn, nvar)) if nvar else set()
    if depth > 3 or nvar is None:
        return out
    for c in ast.walk(fn):
        if isinstance(c, ast.Call) and isinstance(c.func, ast.Attribute) and isinstance(c.func.value, ast.Name) and c.func.value.id == "self" and c.func.attr in g.methods and c.func.attr not in seen:
            if any(isinstance(a, ast.Name) and a.id == nvar for a in c.args):
                helper = g.methods[c.func.attr]
                # a helper that receives the node walks it (and the modifier chain hanging off it): every attribute it loads counts
                out |= {a.attr for a in ast.walk(helper) if isinstance(a, ast.Attribute) and isinstance(a.ctx, ast.Load) and isinstance(a.value, ast.Name) and a.value.id != "self"}
                out |= _transitive_reads(g, helper, depth + 1, seen | {fn.name})
    if any(isinstance(c, ast.Call) and getattr(c.func, "attr", "") == "children" for c in ast.walk(fn)):
        out |= {"*"}
    return out


def _usage_prints(attr_node):
    par = getattr(attr_node, "_parent", None)
    return not isinstance(par, (ast.If, ast.BoolOp)) or True


def _example(cls, field, unsafe):
    ex = {("Assignment", "lvalue"): "`(a, b) = 1` is printed as `a, b = 1`", ("Decl", "bitsize"): "`int x : (a, b);` is printed as `int x : a, b;`",
          ("Enumerator", "value"): "`enum {A = (1, 2)}` is printed as `A = 1, 2`", ("Case", "expr"): "`case (1, 2):` is printed as `case 1, 2:`",
          ("ArrayDecl", "dim"): "`int a[(1, 2)];` is printed as `int a[1, 2];`", ("StaticAssert", "cond"): "`_Static_assert((1, 2), \"m\")` loses its parentheses",
          ("Alignas", "alignment"): "`_Alignas((1, 2))` loses its parentheses", ("NamedInitializer", "name"): "`[(1, 2)] = 3` is printed as `[1, 2] = 3`"}
    return ex.get((cls, field), f"child classes {sorted(unsafe)}")
