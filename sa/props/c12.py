"""C12 - a parser's result depends only on (text, filename), never on its history.

Reset-dominance + write-effect analysis.  Decides the clause "no state
survives a call": every instance attribute that is written or mutated outside
__init__ (per-parse state) is re-initialised on every path of the entry point
before the first production runs; generator indentation is balanced on every
normal path; nothing non-deterministic is consulted.
"""
from __future__ import annotations

import ast

from .. import srcmodel as S
from .. import stateflow as F
from ..core import AnalysisError, norm

LEVEL = "other"

NONDET_CALLS = {"id", "hash", "input", "open"}
NONDET_ATTRS = {("time", None), ("random", None), ("uuid", None), ("os", "urandom"), ("os", "getpid"), ("secrets", None)}


# ---------------------------------------------------------------------------
def state_inventory(cls: F.ClassInfo):
    """attr -> list of (method, kind, node) for writes/mutations outside __init__; and the set of all attrs."""
    state = {}
    allattrs = set()
    for mname, m in cls.methods.items():
        if not m.args.args:
            continue
        selfname = m.args.args[0].arg
        fns = [m] + [n for n in ast.walk(m) if isinstance(n, (ast.FunctionDef, ast.Lambda)) and n is not m]
        for n in ast.walk(m):
            attr = None
            kind = None
            if isinstance(n, ast.Attribute) and isinstance(n.value, ast.Name) and n.value.id == selfname:
                allattrs.add(n.attr)
                par = getattr(n, "_parent", None)
                if isinstance(par, ast.AugAssign) and par.target is n:
                    attr, kind = n.attr, "aug"
                elif isinstance(n.ctx, (ast.Store, ast.Del)):
                    attr, kind = n.attr, "assign"
                else:
                    # mutation *through* self.attr: self.attr[...] = v / self.attr.append(...) / del self.attr[k]
                    cur, p = n, par
                    while isinstance(p, (ast.Subscript, ast.Attribute)) and p.value is cur and not (isinstance(p, ast.Attribute) and isinstance(getattr(p, "_parent", None), ast.Call) and getattr(p, "_parent").func is p):
                        if isinstance(p.ctx, (ast.Store, ast.Del)):
                            attr, kind = n.attr, "mutate"
                            break
                        cur, p = p, getattr(p, "_parent", None)
                    if attr is None and isinstance(p, ast.Attribute) and p.value is cur and p.attr in F.MUTATORS and isinstance(getattr(p, "_parent", None), ast.Call):
                        attr, kind = n.attr, "mutate:" + p.attr
                    if attr is None and isinstance(p, ast.AugAssign) and p.target is cur:
                        attr, kind = n.attr, "mutate"
            if attr is not None and mname != "__init__":
                state.setdefault(attr, []).append((mname, kind, n))
    return state, allattrs


def _is_fresh_value(e, fn) -> tuple[bool, str]:
    """Value that cannot carry history: constant, display, constructor call, or a parameter of the entry point."""
    if isinstance(e, ast.Constant):
        return True, "constant"
    if isinstance(e, (ast.List, ast.Dict, ast.Set, ast.Tuple)):
        return True, "fresh display"
    if isinstance(e, ast.Call):
        f = e.func
        if isinstance(f, ast.Name):
            return True, f"fresh {f.id}(...)"
        if isinstance(f, ast.Attribute) and isinstance(f.value, ast.Name) and f.value.id != fn.args.args[0].arg:
            return True, f"fresh {S.unparse(f)}(...)"
        return False, "result of a method call on self"
    if isinstance(e, ast.Name) and e.id in F.params(fn):
        return True, "argument of this call"
    return False, f"`{S.unparse(e)[:50]}` is not a fresh value (may alias or derive from the previous state)"


class ResetScan:
    """Must-assign analysis over a straight-line / if-structured prefix of an entry point."""

    def __init__(self, cls: F.ClassInfo, all_classes, attr_types):
        self.cls, self.all_classes, self.attr_types = cls, all_classes, attr_types
        self.bad_values = []
        self.delegated = []   # (attr, class) resets delegated to another object's entry point

    def scan(self, fn, depth=0):
        """Return (assigned_attrs, stopped): walk statements until the first non-reset effect."""
        selfname = fn.args.args[0].arg
        assigned = set()
        for st in fn.body:
            r = self._stmt(st, fn, selfname, depth)
            if r is None:
                return assigned, True
            assigned |= r
        return assigned, False

    def _stmt(self, st, fn, selfname, depth):
        if isinstance(st, ast.Expr) and isinstance(st.value, ast.Constant):
            return set()
        if isinstance(st, (ast.Assign, ast.AnnAssign)):
            tg = st.targets if isinstance(st, ast.Assign) else [st.target]
            val = st.value
            if val is None:
                return set()
            if self._has_foreign_call(val, selfname):
                return None
            out = set()
            for t in tg:
                if isinstance(t, ast.Attribute) and isinstance(t.value, ast.Name) and t.value.id == selfname:
                    ok, why = _is_fresh_value(val, fn)
                    if ok:
                        out.add(t.attr)
                    else:
                        self.bad_values.append((t.attr, st, why))
                elif isinstance(t, ast.Name):
                    pass
                else:
                    return None
            return out
        if isinstance(st, ast.Expr) and isinstance(st.value, ast.Call):
            c = st.value
            f = c.func
            if isinstance(f, ast.Attribute):
                recv = f.value
                # self.m()  -> inline a reset helper of the same class
                if isinstance(recv, ast.Name) and recv.id == selfname and f.attr in self.cls.methods and depth < 4:
                    sub, stopped = self.scan(self.cls.methods[f.attr], depth + 1)
                    if stopped:
                        return None
                    return sub
                # self.attr.clear()
                if f.attr == "clear" and isinstance(recv, ast.Attribute) and isinstance(recv.value, ast.Name) and recv.value.id == selfname:
                    return {recv.attr}
                # self.attr.entry(...) -> delegated reset of another stateful object
                if isinstance(recv, ast.Attribute) and isinstance(recv.value, ast.Name) and recv.value.id == selfname:
                    tcls = self.attr_types.get((self.cls.name, recv.attr))
                    if tcls is not None:
                        self.delegated.append((recv.attr, tcls, f.attr, st))
                        return {recv.attr}
            return None
        if isinstance(st, ast.If):
            if self._has_foreign_call(st.test, selfname):
                return None
            a = self._block(st.body, fn, selfname, depth)
            b = self._block(st.orelse, fn, selfname, depth)
            if a is None or b is None:
                return None
            return a & b
        if isinstance(st, ast.Pass):
            return set()
        return None

    def _block(self, body, fn, selfname, depth):
        out = set()
        for st in body:
            r = self._stmt(st, fn, selfname, depth)
            if r is None:
                return None
            out |= r
        return out

    def _has_foreign_call(self, e, selfname):
        for n in ast.walk(e):
            if isinstance(n, ast.Call):
                f = n.func
                if isinstance(f, ast.Attribute) and isinstance(f.value, ast.Name) and f.value.id == selfname:
                    return True
                if isinstance(f, ast.Attribute) and isinstance(f.value, ast.Attribute):
                    return True
        return False


def attr_types(mods, all_classes):
    """(class, attr) -> class name of the object stored there, from annotations / constructor calls / defaults."""
    out = {}
    for m in mods:
        for cname, c in F.classes(m).items():
            init = c.methods.get("__init__")
            defaults = {}
            if init is not None:
                a = init.args
                pos = a.posonlyargs + a.args
                for p, d in zip(pos[len(pos) - len(a.defaults):], a.defaults):
                    if isinstance(d, ast.Name) and d.id in all_classes:
                        defaults[p.arg] = d.id
                for p in pos:
                    if p.annotation is not None:
                        for n in ast.walk(p.annotation):
                            if isinstance(n, ast.Name) and n.id in all_classes:
                                defaults.setdefault(p.arg, n.id)
            for mname, attr, st in c.inst_stores:
                v = getattr(st, "value", None)
                ann = getattr(st, "annotation", None)
                t = None
                if ann is not None:
                    for n in ast.walk(ann):
                        if isinstance(n, ast.Name) and n.id in all_classes:
                            t = n.id
                if t is None and isinstance(v, ast.Call):
                    f = v.func
                    if isinstance(f, ast.Name) and f.id in all_classes:
                        t = f.id
                    elif isinstance(f, ast.Name) and f.id in defaults:
                        t = defaults[f.id]
                if t is None and isinstance(v, ast.Name) and v.id in defaults:
                    t = defaults[v.id]
                if t is not None:
                    out.setdefault((cname, attr), t)
    return out


# ---------------------------------------------------------------------------
# R-C12.4 indentation balance
# ---------------------------------------------------------------------------
TOP = "T"


def _int_consts(mod):
    """module-level names bound once to an integer, as folded by E0"""
    try:
        env = S.folded(mod.name).env
    except Exception:
        return {}
    out = {}
    for k, v in env.items():
        if isinstance(v, int) and not isinstance(v, bool) and len(mod.assigns.get(k, [])) == 1:
            out[k] = v
    return out


class Balance:
    def __init__(self, attr, selfname, consts=None):
        self.attr, self.selfname = attr, selfname
        self.consts = consts or {}         # module-level integer constants (folded): `self.indent_level += _INDENT_STEP`
        self.problems = []
        self.absolute = []

    def delta_of(self, st):
        """(delta|None) if st is  self.attr += k / -= k ; ('abs', value) for plain assignment."""
        if isinstance(st, ast.AugAssign) and self._is_attr(st.target):
            k = st.value.value if isinstance(st.value, ast.Constant) else (self.consts.get(st.value.id) if isinstance(st.value, ast.Name) else None)
            if isinstance(k, int) and not isinstance(k, bool):
                if isinstance(st.op, ast.Add):
                    return k
                if isinstance(st.op, ast.Sub):
                    return -k
            return TOP
        if isinstance(st, (ast.Assign, ast.AnnAssign)):
            tg = st.targets if isinstance(st, ast.Assign) else [st.target]
            if any(self._is_attr(t) for t in tg):
                return ("abs", st)
        return None

    def _is_attr(self, t):
        return isinstance(t, ast.Attribute) and t.attr == self.attr and isinstance(t.value, ast.Name) and t.value.id == self.selfname

    # a path state is (delta, facts) where facts records the outcome of `if` tests already taken on
    # this path (correlated conditions such as `if add_indent: +2 ... if add_indent: -2`)
    def block(self, body, cur):
        curs = {cur if isinstance(cur, tuple) else (cur, frozenset())}
        for st in body:
            nxt = set()
            for c in curs:
                nxt |= self.stmt(st, c)
            curs = nxt
            if not curs:
                break
        return curs

    @staticmethod
    def _kill(facts, st):
        stored = {n.id for n in ast.walk(st) if isinstance(n, ast.Name) and isinstance(n.ctx, (ast.Store, ast.Del))}
        stored |= {n.attr for n in ast.walk(st) if isinstance(n, ast.Attribute) and isinstance(n.ctx, (ast.Store, ast.Del))}
        if not stored:
            return facts
        return frozenset((t, v, names) for (t, v, names) in facts if not (set(names) & stored))

    def stmt(self, st, state):
        cur, facts = state
        d = self.delta_of(st)
        if d is TOP:
            self.problems.append((st, "indent changed by a non-constant amount"))
            return {state}
        if isinstance(d, tuple):
            self.absolute.append(d[1])
            return {state}   # absolute writes are judged separately
        if d is not None:
            return {(cur + d, facts)}
        if isinstance(st, ast.Return):
            if cur != 0:
                self.problems.append((st, f"returns with {self.attr} changed by {cur:+d} on this path"))
            return set()
        if isinstance(st, ast.Raise):
            return set()
        if isinstance(st, ast.If):
            text = S.unparse(st.test)
            names = tuple(sorted({n.id for n in ast.walk(st.test) if isinstance(n, ast.Name)} | {n.attr for n in ast.walk(st.test) if isinstance(n, ast.Attribute)}))
            pure = not any(isinstance(n, ast.Call) for n in ast.walk(st.test))
            known = [v for (t, v, _) in facts if t == text]
            out = set()
            for val, body in ((True, st.body), (False, st.orelse)):
                if known and known[0] != val:
                    continue
                f2 = facts | {(text, val, names)} if pure else facts
                out |= self.block(body, (cur, f2))
            return out
        if isinstance(st, (ast.For, ast.While, ast.AsyncFor)):
            facts = self._kill(facts, st)
            out = self.block(st.body, (cur, facts))
            for o, _ in out:
                if o != cur:
                    self.problems.append((st, f"loop body changes {self.attr} by {o - cur:+d} per iteration"))
            return {(cur, facts)} | self.block(st.orelse, (cur, facts))
        if isinstance(st, ast.Match):
            out = set()
            exhaustive = False
            for case in st.cases:
                out |= self.block(case.body, (cur, facts))
                if isinstance(case.pattern, ast.MatchAs) and case.pattern.pattern is None and case.guard is None:
                    exhaustive = True
            if not exhaustive:
                out.add((cur, facts))
            return out
        if isinstance(st, (ast.With, ast.AsyncWith)):
            return self.block(st.body, (cur, facts))
        if isinstance(st, ast.Try):
            out = self.block(st.body, (cur, facts))
            for h in st.handlers:
                out |= self.block(h.body, (cur, facts))
            o2 = set()
            for o in out:
                o2 |= self.block(st.orelse, o) if st.orelse else {o}
            if st.finalbody:
                o3 = set()
                for o in o2:
                    o3 |= self.block(st.finalbody, o)
                return o3
            return o2
        return {(cur, self._kill(facts, st))}


def check(ctx):
    ctx.rule("R-C12.1", "inventory of per-parse state: instance attributes written or mutated outside __init__")
    ctx.rule("R-C12.2", "every per-parse attribute is re-initialised with a fresh value before the first production / token is produced")
    ctx.rule("R-C12.3", "AST nodes are only created inside functions (no node lives in module, class or default-argument state)")
    ctx.rule("R-C12.4", "generator state: indent_level changes are balanced on every normal path; no other generator state")
    ctx.rule("R-C12.5", "no non-deterministic input (id/hash/time/random, iteration over sets) reaches the result")
    mods = S.all_modules()
    all_classes = {}
    for m in mods:
        all_classes.update(F.classes(m))
    atypes = attr_types(mods, all_classes)

    def viol(rule, mod, qual, node, msg, keyextra=""):
        text = S.unparse(node) if node is not None else ""
        ctx.violation(rule, f"{qual}:{keyextra or norm(text)[:100]}", msg, file=mod.rel, function=qual,
                      line=getattr(node, "lineno", 0), construct=text)

    # ---- R-C12.1 / R-C12.2 -------------------------------------------------
    entries = [("c_parser", "CParser", "parse"), ("c_lexer", "CLexer", "input")]
    for modname, cname, entry in entries:
        mod = S.module(modname)
        cls = all_classes.get(cname)
        if cls is None or entry not in cls.methods:
            raise AnalysisError(f"anchor {cname}.{entry} vanished")
        state, allattrs = state_inventory(cls)
        ctx.info.setdefault("state_inventory", {})[cname] = {a: sorted({f"{m}:{k}" for m, k, _ in w}) for a, w in state.items()}
        for a in state:
            ctx.oblige("R-C12.1", f"{cname}.{a}", True, sample={"rule": "R-C12.1", "class": cname, "attribute": a,
                                                               "written_in": sorted({m for m, _, _ in state[a]})})
        scan = ResetScan(cls, all_classes, atypes)
        assigned, _ = scan.scan(cls.methods[entry])
        for attr, st, why in scan.bad_values:
            viol("R-C12.2", mod, f"{cname}.{entry}", st, f"self.{attr} is re-initialised from {why}", keyextra=f"badvalue:{attr}")
        for attr in sorted(state):
            # state written only by the entry point's own reset prefix is fine by construction
            ok = attr in assigned
            ctx.oblige("R-C12.2", f"{cname}.{attr} reset in {entry}", ok,
                       sample={"rule": "R-C12.2", "entry": f"{cname}.{entry}", "attribute": attr, "verdict": "reset before first use" if ok else "NOT RESET"})
            if not ok:
                w = state[attr][0]
                viol("R-C12.2", mod, f"{cname}.{w[0]}", getattr(w[2], "_parent", w[2]),
                     f"self.{attr} is written/mutated in {sorted({m for m, _, _ in state[attr]})} (per-parse state) but "
                     f"{cname}.{entry}() does not re-initialise it before parsing starts: a later call sees the value left by an earlier one",
                     keyextra=f"noreset:{attr}")
        # delegated resets: the callee's entry point must itself be a verified entry, or a constructor
        for attr, tcls, meth, st in scan.delegated:
            ok = (tcls, meth) in {(c, e) for _, c, e in entries}
            ctx.oblige("R-C12.2", f"{cname}.{attr} reset delegated to {tcls}.{meth}", ok)
            if not ok:
                viol("R-C12.2", mod, f"{cname}.{entry}", st, f"reset of self.{attr} delegated to {tcls}.{meth}, which is not a verified reset entry point")
        # objects re-created per parse: their __init__ must give every state attribute a fresh value
        for attr in assigned:
            tcls = atypes.get((cname, attr))
            if tcls and tcls in all_classes and (tcls, ) not in [(c,) for _, c, _ in entries]:
                tc = all_classes[tcls]
                tstate, _ = state_inventory(tc)
                init = tc.methods.get("__init__")
                if init is None:
                    continue
                sc2 = ResetScan(tc, all_classes, atypes)
                got, _ = sc2.scan(init)
                for a2 in sorted(tstate):
                    ok = a2 in got
                    ctx.oblige("R-C12.2", f"{tcls}.{a2} fresh in __init__", ok)
                    if not ok:
                        viol("R-C12.2", tc.mod, f"{tcls}.__init__", init, f"{tcls} is re-created for every parse but its state attribute {a2} is not given a fresh value in __init__", keyextra=f"init:{a2}")
    # a memoising decorator is per-instance / per-process state that no entry point re-initialises: the result for (self, args) is remembered
    # although it depends on instance attributes (file name, scope tables, text) that the next parse replaces
    from .c13 import CACHE_DECORATORS
    for mod in mods:
        for fn in ast.walk(mod.tree):
            if isinstance(fn, (ast.FunctionDef, ast.AsyncFunctionDef)):
                for d in fn.decorator_list:
                    dn = S.unparse(d.func if isinstance(d, ast.Call) else d)
                    bad = dn in CACHE_DECORATORS
                    if d is fn.decorator_list[0] or bad:
                        ctx.oblige("R-C12.2", f"{mod.name}.{fn.name}: decorator {dn}", not bad, nontrivial=False)
                    if bad:
                        viol("R-C12.2", mod, S.qualname(mod, fn), d, f"`@{dn}` on {fn.name} remembers results across parse() / input() calls and is never cleared: a value computed from the previous text, file name or "
                             "scope state is handed out to the next parse", keyextra=f"memo:{fn.name}")
    ctx.require_instances("R-C12.2", 9)

    # ---- R-C12.3 nodes only created inside functions ---------------------
    node_classes = set(S.module("c_ast").classes) - {"Node", "NodeVisitor"}
    for m in mods:
        for n in ast.walk(m.tree):
            if isinstance(n, ast.Call):
                f = n.func
                cn = f.attr if isinstance(f, ast.Attribute) and isinstance(f.value, ast.Name) and f.value.id == "c_ast" else (f.id if isinstance(f, ast.Name) and m.name == "c_ast" else None)
                if cn in node_classes:
                    fn = S.enclosing_function(n)
                    in_default = False
                    cur = n
                    while cur is not None and not isinstance(cur, ast.Module):
                        par = getattr(cur, "_parent", None)
                        if isinstance(par, ast.arguments):
                            in_default = True
                        cur = par
                    ok = fn is not None and not in_default
                    ctx.oblige("R-C12.3", f"{m.name}:{n.lineno}:{cn}", ok, nontrivial=False)
                    if not ok:
                        viol("R-C12.3", m, "<module>", n, f"AST node {cn} is created at import time / as a default argument: every parse would return the same node object")
    # ... and no mutable object that lives at module level is built INTO a tree: a list / dict / set bound at module level that flows into a
    # constructor field, a builder argument or a returned value would be one object shared by the ASTs of every parse (def-use wiring of the parser)
    from .. import wirecheck as WC12
    cur12 = WC12.current()
    import re as _re12
    mutable_globals = {}
    for mn in ("c_parser", "ast_transforms"):
        m_ = S.module(mn)
        for name, sts in m_.assigns.items():
            for st in sts:
                v = getattr(st, "value", None)
                if isinstance(v, (ast.List, ast.Dict, ast.Set, ast.ListComp, ast.DictComp, ast.SetComp)) or (isinstance(v, ast.Call) and isinstance(v.func, ast.Name) and v.func.id in ("dict", "list", "set", "defaultdict", "OrderedDict")):
                    # entries: immutable when every value of the display is a plain constant (a table of numbers / strings)
                    vals_ = (v.values if isinstance(v, ast.Dict) else v.elts if isinstance(v, (ast.List, ast.Set)) else [k_.value for k_ in v.keywords] + list(v.args) if isinstance(v, ast.Call) else [None])
                    deep = not all(isinstance(x, ast.Constant) for x in vals_)
                    mutable_globals[name] = (mn, deep)
    n_g = 0
    for meth, info in sorted(cur12.items()):
        for lab, fa in info["records"]:
            for f_, vals in fa.items():
                for v in vals:
                    for gname, sub in _re12.findall(r"global:([A-Za-z_]\w*)(\[|\.get\()?", v):
                        if gname not in mutable_globals:
                            continue
                        if sub and not mutable_globals[gname][1]:
                            continue        # an ENTRY of a table of plain constants (a precedence number, a type name; `T[k]` or `T.get(k, d)`): immutable, sharing it is harmless
                        n_g += 1
                        ctx.oblige("R-C12.3", f"{meth}: {lab}.{f_} <- {v[:60]}", False)
                        ctx.violation("R-C12.3", f"shared-global-in-tree:{gname}", f"{meth} builds the module-level mutable object `{gname}` (or an entry of it) into {lab}.{f_} (`{v[:80]}`): the object is created once, at import time, so the "
                                      "trees of different parses - and of different parser instances - share it; editing one tree changes the others", file=S.module(mutable_globals[gname][0]).rel, function=meth)
    ctx.oblige("R-C12.3", "no module-level mutable object flows into a node field or builder argument", n_g == 0, nontrivial=False)
    ctx.require_instances("R-C12.3", 80)

    # ---- R-C12.4 generator balance ------------------------------------------
    gmod = S.module("c_generator")
    gcls = all_classes.get("CGenerator")
    if gcls is None:
        raise AnalysisError("anchor class CGenerator vanished")
    gstate, _ = state_inventory(gcls)
    init_vals = {}
    init = gcls.methods.get("__init__")
    if init is not None:
        for st in init.body:
            if isinstance(st, ast.Assign):
                for t in st.targets:
                    if isinstance(t, ast.Attribute) and isinstance(st.value, ast.Constant):
                        init_vals[t.attr] = st.value.value
    balanced_attrs = set()
    for attr, writes in gstate.items():
        kinds = {k for _, k, _ in writes}
        if kinds <= {"aug", "assign"} and any(k == "aug" for k in kinds):
            balanced_attrs.add(attr)
        else:
            w = writes[0]
            ctx.oblige("R-C12.4", f"CGenerator.{attr} state", False)
            viol("R-C12.4", gmod, f"CGenerator.{w[0]}", getattr(w[2], "_parent", w[2]),
                 f"generator keeps state in self.{attr} (written in {sorted({m for m, _, _ in writes})}) that is neither configuration nor balanced indentation: a reused generator depends on earlier visits", keyextra=f"genstate:{attr}")
    for mname, m in gcls.methods.items():
        if not m.args.args:
            continue
        for attr in sorted(balanced_attrs):
            b = Balance(attr, m.args.args[0].arg, _int_consts(gmod))
            ends = b.block(m.body, 0)
            touched = any(b.delta_of(n) is not None for n in ast.walk(m) if isinstance(n, ast.stmt))
            bad = sorted({e for e, _ in ends if e != 0})
            for e in bad:
                b.problems.append((m, f"falls off the end with {attr} changed by {e:+d} on some path"))
            for st in b.absolute:
                v = st.value
                ok = isinstance(v, ast.Constant) and init_vals.get(attr, object()) == v.value
                ctx.oblige("R-C12.4", f"CGenerator.{mname} absolute {attr}", ok,
                           sample={"rule": "R-C12.4", "method": mname, "construct": S.unparse(st), "verdict": "resets to the initial value (cannot carry history)" if ok else "absolute write to a non-initial value"})
                if not ok:
                    b.problems.append((st, f"assigns {attr} a value other than its initial value"))
            if touched:
                ctx.oblige("R-C12.4", f"CGenerator.{mname} balance {attr}", not b.problems,
                           sample={"rule": "R-C12.4", "method": mname, "attribute": attr, "verdict": "balanced on all paths" if not b.problems else "UNBALANCED"})
            seen = set()
            for node, why in b.problems:
                k = (mname, why)
                if k in seen:
                    continue
                seen.add(k)
                viol("R-C12.4", gmod, f"CGenerator.{mname}", node if not isinstance(node, ast.FunctionDef) else None,
                     f"{why}: a reused generator starts the next visit with a different indentation", keyextra=f"balance:{mname}:{norm(why)}")
    ctx.require_instances("R-C12.4", 4)

    # ---- R-C12.5 determinism ----------------------------------------------------
    for m in mods:
        if m.name in ("_ast_gen", "__init__"):
            continue
        fo = S.folded(m.name)
        for qual, fn, cname in F.iter_functions(m):
            scope_locals = F.local_names(fn)
            for n in F.own_nodes(fn):
                if isinstance(n, ast.Call) and isinstance(n.func, ast.Name) and n.func.id in NONDET_CALLS and n.func.id not in scope_locals:
                    ctx.oblige("R-C12.5", f"{m.name}:{qual}:{S.unparse(n)[:50]}", False)
                    viol("R-C12.5", m, qual, n, f"calls {n.func.id}(): result may differ between runs / object identities")
                if isinstance(n, ast.Attribute) and isinstance(n.value, ast.Name) and ((n.value.id, None) in NONDET_ATTRS or (n.value.id, n.attr) in NONDET_ATTRS) and n.value.id not in scope_locals:
                    ctx.oblige("R-C12.5", f"{m.name}:{qual}:{S.unparse(n)[:50]}", False)
                    viol("R-C12.5", m, qual, n, f"uses {n.value.id}.{n.attr}: non-deterministic input")
                it = None
                if isinstance(n, (ast.For, ast.comprehension)):
                    it = n.iter
                if it is not None:
                    root = it
                    bad = False
                    if isinstance(root, ast.Set) or (isinstance(root, ast.Call) and isinstance(root.func, ast.Name) and root.func.id in ("set", "frozenset")):
                        bad = True
                    if isinstance(root, ast.Name) and root.id not in scope_locals and isinstance(fo.env.get(root.id), (set, frozenset)):
                        bad = True
                    ctx.oblige("R-C12.5", f"{m.name}:{qual}:iter:{S.unparse(it)[:50]}", not bad, nontrivial=bad)
                    if bad:
                        viol("R-C12.5", m, qual, it, "iterates over a set: order depends on string hashing, which differs between interpreter runs")
    ctx.info["explanation"] = (
        "reset-dominance analysis of CParser.parse / CLexer.input against the computed inventory of per-parse instance "
        "state (attributes written or mutated outside __init__), fresh-value check of each reset, constructor check of "
        "objects re-created per parse, structured balance analysis of CGenerator.indent_level over all 60 methods, "
        "creation-site check for AST nodes and a determinism blacklist")
    ctx.assumptions += ["CPython itself is deterministic for the operations used", "a failed parse may leave garbage: the rule relies on re-initialisation at the next call, not on clean-up",
                        "equality of two concrete results is not decided, only the absence of carried state"]
    ctx.trusted += ["CPython ast parser", "mutator method list in sa/stateflow.py"]
