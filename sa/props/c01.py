"""C01 - every valid C99 / supported-C11 translation unit is accepted.

Grammar-conformance analysis on the model extracted from the parser source:
 R-C01.1 vocabulary (keywords, punctuators) against C99 6.4.1 / 6.4.6 + documented C11 / extensions;
 R-C01.2 token-type closure between lexer tables and parser;
 R-C01.3 language inclusion  L(reference grammar) within L(extracted grammar model), decided on a derivation-covering
         set of reference sentences (every choice of every reference production, alone and paired with every choice
         of each child nonterminal; thorough: several contexts) with a memoised recogniser over the extracted automata;
 R-C01.4 guard adequacy: no token that a called production could start with is filtered out by the look-ahead guards
         on every path (the FIRST tables must cover the productions they guard).
"""
from __future__ import annotations

import ast

from .. import e1
from .. import grammar as GR
from .. import lexmodel as LM
from .. import refgrammar as RG
from .. import srcmodel as S
from ..core import AnalysisError

LEVEL = "other"
TOP = ("_parse_translation_unit_or_empty", ())


SPEC_NTS = {"declaration_specifiers", "param_specifiers", "member_specifiers", "type_core"}


def sentences(ref: RG.Ref, per_nt, depth):
    """Yield (key, key2, description, token tuple).  Keys identify the reference construct (they depend only on the reference).

    Families: every variant of every production in a minimal context; every child nonterminal of a variant expanded by each of its
    own variants (chains of length `depth`); every child nonterminal started with each token it can start with."""
    ctxs = ref.contexts(per_nt=per_nt)
    fm = ref.first_min()
    seen = set()

    def chains(word, d):
        """All words obtained from `word` by expanding one placeholder by one of its variants, recursively d times."""
        if d == 0:
            return
        for i, t in enumerate(word):
            if not isinstance(t, tuple):
                continue
            child = t[1]
            for cai, calt in enumerate(ref.rules[child]):
                for clab, cw in ref.variants(calt):
                    w2 = word[:i] + cw + word[i + 1:]
                    yield f"{child}/{cai}/{clab}", w2
                    if d > 1:
                        for lab3, w3 in chains(cw, d - 1):
                            yield f"{child}/{cai}/{clab}>{lab3}", word[:i] + w3 + word[i + 1:]

    for name, alts in ref.rules.items():
        if name not in ctxs:
            continue
        for ai, alt in enumerate(alts):
            for lab, w in ref.variants(alt):
                for ci, (pre, suf) in enumerate(ctxs[name]):
                    sent = pre + ref.expand_min(w) + suf
                    if True:
                        yield (f"{name}/{ai}/{lab}", None, f"{name} alternative {ai} variant {lab!r}" + (f" (context {ci})" if ci else ""), sent)
                pre, suf = ctxs[name][0]
                for k2, w2 in chains(w, depth - 1):
                    sent = pre + ref.expand_min(w2) + suf
                    if True:
                        yield (f"{name}/{ai}/{lab}", k2, f"{name} alt {ai} {lab!r} with {k2}", sent)
                # adjacent siblings: each variant of a child together with each possible first token of the next child
                ph = [i for i, t in enumerate(w) if isinstance(t, tuple)]
                for a_, b_ in zip(ph, ph[1:]):
                    ca, cb = w[a_][1], w[b_][1]
                    # specifier lists carry state (saw_type, the last type specifier) into the decision about the following
                    # declarator: follow their unit chains so that every kind of type core meets every declarator start
                    deep = ca in SPEC_NTS
                    for clab, cw in (ref.deep_variants(ca) if deep else [(f"{ca}/{cai}/{cl}", cw_) for cai, calt in enumerate(ref.rules[ca]) for cl, cw_ in ref.variants(calt)]):
                        for tok, fw in sorted(fm[cb].items()):
                            sent = pre + ref.expand_min(w[:a_]) + ref.expand_min(cw) + ref.expand_min(w[a_ + 1:b_]) + fw + ref.expand_min(w[b_ + 1:]) + suf
                            yield (f"{name}/{ai}/{lab}", f"{clab} && {cb}^{tok}", f"{name} alt {ai} {lab!r} with its {ca} as {clab!r} followed by a {cb} starting with {tok}", sent)
                # first-token coverage of every child position
                for i, t in enumerate(w):
                    if isinstance(t, tuple):
                        for tok, fw in sorted(fm[t[1]].items()):
                            sent = pre + ref.expand_min(w[:i]) + fw + ref.expand_min(w[i + 1:]) + suf
                            if True:
                                yield (f"{name}/{ai}/{lab}", f"{t[1]}^{tok}", f"{name} alt {ai} {lab!r} with its {t[1]} starting with {tok}", sent)


def keyword_spellings(ctx, rid):
    """no spelling outside C99 6.4.1 / the documented C11 and extension keywords is a keyword (it would stop being an identifier), and each keyword has its own token type"""
    t = S.tables()
    lx = S.module("c_lexer")
    ref = set(LM.C99_KEYWORDS) | set(LM.C11_KEYWORDS) | set(LM.EXT_KEYWORDS)
    for sp in sorted(t.keyword_map):
        ok = sp in ref
        ctx.oblige(rid, f"keyword map entry {sp}", ok, nontrivial=False)
        if not ok:
            ctx.violation(rid, f"extra-keyword:{sp}", f"`{sp}` is in the lexer's keyword map (token type {t.keyword_map[sp]}) but is not a keyword of C99 6.4.1, C11 or a documented extension: it is an ordinary identifier in C and programs that use it as one are rejected",
                          file=lx.rel, function="_keyword_map")
    byval = {}
    for sp, ty in t.keyword_map.items():
        byval.setdefault(ty, []).append(sp)
    for ty, sps in sorted(byval.items()):
        ok = len(sps) == 1
        ctx.oblige(rid, f"token type {ty} has one spelling", ok, nontrivial=False)
        if not ok:
            ctx.violation(rid, f"keyword-alias:{ty}", f"the spellings {sorted(sps)} all lex to the keyword token {ty}", file=lx.rel, function="_keyword_map")


C99_WHITE_SPACE = {" ": "space", "\t": "horizontal tab", "\n": "new-line", "\v": "vertical tab", "\f": "form feed"}


def white_space(ctx, rid, only_nonspace=False):
    """C99 6.4p3: white space between tokens is space, horizontal tab, new-line, vertical tab and form feed.  The scanning loop of
    CLexer.token must skip each of them: a character-dispatch arm whose patterns are white-space characters and whose body only moves the
    cursor / line bookkeeping (no token, no error call).  A white-space character without such an arm falls into the token matcher and is
    reported as an illegal character - a valid translation unit is rejected."""
    lx = S.module("c_lexer")
    tok = lx.method("CLexer", "token")
    if tok is None:
        raise AnalysisError("anchor CLexer.token vanished")
    skipped = {}
    for n in ast.walk(tok):
        if not isinstance(n, ast.match_case):
            continue
        pats = n.pattern.patterns if isinstance(n.pattern, ast.MatchOr) else [n.pattern]
        vals = [p.value.value for p in pats if isinstance(p, ast.MatchValue) and isinstance(p.value, ast.Constant)]
        if not vals or len(vals) != len(pats) or not all(isinstance(v, str) and len(v) == 1 for v in vals):
            continue
        calls = [c for st in n.body for c in ast.walk(st) if isinstance(c, ast.Call)]
        rets = [r for st in n.body for r in ast.walk(st) if isinstance(r, ast.Return)]
        moves = any(isinstance(a, ast.AugAssign) and isinstance(a.op, ast.Add) and S.unparse(a.target).endswith("_pos") for st in n.body for a in ast.walk(st))
        if not calls and not rets and moves and n.guard is None:
            for v in vals:
                skipped[v] = n
    # arms that skip by a PREDICATE on the character (`case c if c.isspace()`, `case c if c in " \t..."`): the set of skipped characters is what the
    # predicate accepts; str.isspace() also accepts \r, \x1c-\x1f, \x85, no-break space and a dozen other Unicode blanks, none of which is white space in C
    for n in ast.walk(tok):
        if not (isinstance(n, ast.match_case) and n.guard is not None and isinstance(n.pattern, ast.MatchAs)):
            continue
        calls = [c for st in n.body for c in ast.walk(st) if isinstance(c, ast.Call)]
        rets = [r for st in n.body for r in ast.walk(st) if isinstance(r, ast.Return)]
        moves = any(isinstance(a, ast.AugAssign) and isinstance(a.op, ast.Add) and S.unparse(a.target).endswith("_pos") for st in n.body for a in ast.walk(st))
        if calls or rets or not moves:
            continue
        gtxt = S.unparse(n.guard)
        var = n.pattern.name
        accepted = None
        if gtxt == f"{var}.isspace()":
            accepted = "str.isspace()"
            for ch in C99_WHITE_SPACE:
                skipped.setdefault(ch, n)
        elif isinstance(n.guard, ast.Compare) and len(n.guard.ops) == 1 and isinstance(n.guard.ops[0], ast.In) and isinstance(n.guard.comparators[0], ast.Constant) and isinstance(n.guard.comparators[0].value, str) and S.unparse(n.guard.left) == var:
            for ch in n.guard.comparators[0].value:
                skipped.setdefault(ch, n)
            continue
        if accepted is None:
            raise AnalysisError(f"CLexer.token skips characters under the guard `{gtxt}`, which the white-space rule cannot evaluate")
        ctx.oblige(rid, f"characters skipped under `{gtxt}` are white space in C", False)
        ctx.violation(rid, f"skips-non-space:{accepted}", f"CLexer.token silently skips every character for which `{gtxt}` holds; {accepted} also accepts carriage return, \\x1c-\\x1f, \\x85, the no-break space and other Unicode blanks, "
                      "which are not white space in C: text containing them is accepted as if they were not there instead of being reported as illegal characters", file=lx.rel, function="CLexer.token", line=n.pattern.lineno)
    if len(skipped) < 2:
        raise AnalysisError("white-space arms of CLexer.token not found (expected a character dispatch on text[self._pos])")
    for ch, name in ({} if only_nonspace else C99_WHITE_SPACE).items():
        ok = ch in skipped
        ctx.oblige(rid, f"white-space character {name} is skipped between tokens", ok, sample={"rule": rid, "character": repr(ch), "verdict": "skipped by a cursor-only arm" if ok else "NOT skipped"})
        if not ok:
            ctx.violation(rid, f"white-space:{name}", f"{name} ({ch!r}) is white space in C99 (6.4p3) but CLexer.token has no arm that skips it: it reaches the token matcher and is reported as an illegal character, "
                          f"so a valid translation unit such as {'int' + ch + 'x;'!r} is rejected", file=lx.rel, function="CLexer.token", line=tok.lineno)
    for ch, n in sorted(skipped.items()):
        if ch not in C99_WHITE_SPACE and ch != "\r":
            ctx.oblige(rid, f"skipped character {ch!r} is white space", False)
            ctx.violation(rid, f"skips-non-space:{ch!r}", f"CLexer.token silently skips {ch!r}, which is not white space in C: text containing it is accepted as if it were not there",
                          file=lx.rel, function="CLexer.token", line=n.pattern.lineno)


def check(ctx):
    ctx.rule("R-C01.1", "vocabulary: every C99 keyword / documented C11 keyword maps to a token type; every C99 punctuator is exactly one fixed token")
    ctx.rule("R-C01.2", "token-type closure: the parser only tests token types the lexer can emit; every emittable token type is consumed by some production")
    ctx.rule("R-C01.3", "inclusion of the reference grammar (ISO C99 Annex A.2 + documented C11) in the extracted grammar model, on a derivation-covering sentence set")
    ctx.rule("R-C01.6", "every well-formed C99 literal (and documented extension) is lexed as one token of its class (decided by the C10 machinery)")
    ctx.rule("R-C01.7", "a valid program is not refused by an internal error: every assert and partial operation reachable from parse() is discharged (decided by the C06 machinery)")
    ctx.rule("R-C01.8", "white space: each of C99's white-space characters (space, horizontal tab, new-line, vertical tab, form feed) is skipped between tokens by a cursor-only arm of the scanning loop")
    ctx.rule("R-C01.4", "guard adequacy: no token a called production can start with is rejected by the look-ahead guards on every path")
    t = S.tables()
    lx, px = S.module("c_lexer"), S.module("c_parser")

    # ---- R-C01.1 ---------------------------------------------------------------
    for kw in LM.C99_KEYWORDS + LM.C11_KEYWORDS + LM.EXT_KEYWORDS:
        ok = kw in t.keyword_map
        ctx.oblige("R-C01.1", f"keyword {kw}", ok, nontrivial=False)
        if not ok:
            ctx.violation("R-C01.1", f"keyword:{kw}", f"keyword `{kw}` is not in the lexer's keyword map: it would be lexed as an identifier and valid programs using it rejected", file=lx.rel, function="_keywords")
    keyword_spellings(ctx, "R-C01.1")
    fixed = {}
    for tok_type, lit in t.fixed_tokens:
        fixed.setdefault(lit, []).append(tok_type)
    for p in LM.PUNCTUATORS:
        ok = len(fixed.get(p, [])) == 1
        ctx.oblige("R-C01.1", f"punctuator {p}", ok, nontrivial=False)
        if not ok:
            ctx.violation("R-C01.1", f"punctuator:{p}", f"C99 punctuator `{p}` maps to {fixed.get(p, [])} (exactly one fixed token expected)", file=lx.rel, function="_fixed_tokens")
    for p in LM.DIGRAPHS:
        ok = p in fixed
        ctx.oblige("R-C01.1", f"digraph {p}", ok)
        if not ok:
            ctx.violation("R-C01.1", f"digraph:{p}", f"C99 6.4.6p3 digraph `{p}` is not a token: `int a<:3:>;` is valid C99 and rejected", file=lx.rel, function="_fixed_tokens")
    dup = {tt for tt in {x for x, _ in t.fixed_tokens} if [x for x, _ in t.fixed_tokens].count(tt) > 1}
    for tt in sorted(dup):
        ctx.violation("R-C01.1", f"dup-token:{tt}", f"token type {tt} is produced by two different punctuator spellings", file=lx.rel, function="_fixed_tokens")

    white_space(ctx, "R-C01.8")
    ctx.require_instances("R-C01.8", 5)

    # ---- E1 ----------------------------------------------------------------------
    ex, g = e1.get()
    if TOP not in g.pa:
        raise AnalysisError("anchor production _parse_translation_unit_or_empty vanished")
    ctx.unit("production clones", len(g.pa))
    # ---- R-C01.2 -------------------------------------------------------------------
    emittable = set(t.emittable) | {"TYPEID", "PPHASH", "PPPRAGMA", "PPPRAGMASTR"}
    tested = set()
    import ast
    for name, fn in ex.methods.items():
        for n in ast.walk(fn):
            if isinstance(n, ast.Constant) and isinstance(n.value, str) and n.value.isupper() and len(n.value) > 1 and n.value.replace("_", "").isalnum():
                par = getattr(n, "_parent", None)
                # strings used as token types: arguments of _expect/_accept, comparison operands, set members, case patterns
                if isinstance(par, (ast.Compare, ast.Set, ast.MatchValue)) or (isinstance(par, ast.Call) and isinstance(par.func, ast.Attribute) and par.func.attr in ("_expect", "_accept")):
                    tested.add(n.value)
    def tokenish(x):
        return isinstance(x, str) and x.isupper() and len(x) > 1 and x.replace("_", "").isalnum()
    for k, v in t.parser_sets.items():
        # module-level tables of the parser whose members have the shape of token types (other tables, e.g. suffix letter -> type name, are not
        # token tables)
        tested |= {x for x in (v if not isinstance(v, dict) else v.keys()) if tokenish(x)}
    for tt in sorted(tested):
        ok = tt in emittable
        ctx.oblige("R-C01.2", f"parser token type {tt}", ok, nontrivial=False)
        if not ok:
            ctx.violation("R-C01.2", f"unknown-type:{tt}", f"the parser tests token type {tt!r}, which the lexer never emits (renamed on one side only?): the production it guards is dead", file=px.rel, function="CParser")
    used = g.token_types_used()
    for tt in sorted(emittable - {"PPHASH"}):
        ok = tt in used
        ctx.oblige("R-C01.2", f"emitted token type {tt} consumed", ok, nontrivial=False)
        if not ok:
            ctx.violation("R-C01.2", f"unconsumed:{tt}", f"the lexer emits {tt} but no production can consume it on a path that succeeds: every program containing it is rejected", file=px.rel, function="CParser")
    ctx.require_instances("R-C01.2", 150)

    # ---- R-C01.4 ---------------------------------------------------------------------
    nullable, first = g.first_sets()
    n_dec = 0
    for key in sorted(g.pa, key=str):
        pa = g.pa[key]
        live, fw = pa.live_nodes()
        for x in sorted(live):
            outs = pa.out.get(x, [])
            if len(outs) < 2 and not (outs and pa.edges[outs[0]][1] is None):
                continue
            pot, act = _potential_actual(g, pa, x, nullable, first)
            la = pa.la[x]
            if la is None:
                continue
            pruned = (pot - act) & set(la[0])
            if not pot:
                continue
            n_dec += 1
            ok = not pruned
            ctx.oblige("R-C01.4", f"{e1.sig_text(key)}@{pa.line[x]}:{x}", ok, nontrivial=len(pot) > 1,
                       sample={"rule": "R-C01.4", "production": e1.sig_text(key), "line": pa.line[x], "tokens startable": len(pot), "verdict": "all admitted" if ok else f"PRUNED {sorted(pruned)[:5]}"} if (not ok or n_dec % 37 == 0) else None)
            if not ok:
                who = _who_could(g, pa, x, sorted(pruned)[0], nullable, first)
                ctx.violation("R-C01.4", f"guard:{key[0]}:{','.join(sorted(pruned)[:4])}",
                              f"in {e1.sig_text(key)} (line {pa.line[x]}) the look-ahead guards reject {sorted(pruned)[:6]} on every path although {who} can start with it: valid input beginning with that token is refused here",
                              file=px.rel, function=f"CParser.{key[0]}", line=pa.line[x])
    ctx.require_instances("R-C01.4", 100)
    # named tables, informational samples
    for tbl, prod in (("_STARTS_EXPRESSION", "_parse_expression"), ("_DECL_START", "_parse_declaration")):
        if tbl in t.parser_sets:
            f = g.first_of_name(prod)
            ctx.samples.append({"rule": "R-C01.4", "table": tbl, "equals FIRST of": prod, "verdict": set(t.parser_sets[tbl]) == f, "size": len(f)})

    # ---- R-C01.3 -------------------------------------------------------------------------
    ref = RG.Ref()
    unknown_terms = ref.terminals - emittable - {"_ATOMIC_Q"}
    if unknown_terms:
        raise AnalysisError(f"reference grammar uses token types the lexer tables do not know: {sorted(unknown_terms)}")
    rec = GR.Recognizer(g)
    per_nt = 1 if ctx.tier == "quick" else 3
    depth = 2 if ctx.tier == "quick" else 3
    n = 0
    cache = {}
    fails_single = {}
    fails_pair = []
    start_stats = {}
    for k1, k2, desc, sent in sentences(ref, per_nt, depth):
        sent = RG.finish(sent)
        if sent is None:
            continue
        ok = cache.get(sent)
        if ok is None:
            ok = cache[sent] = rec.accepts(TOP, sent)
            n += 1
            ctx.oblige("R-C01.3", " ".join(sent), ok, nontrivial=True,
                       sample={"rule": "R-C01.3", "reference construct": desc, "sentence": " ".join(sent), "verdict": "accepted by the model" if ok else "REJECTED"} if (n % 1500 == 0 or (not ok and len(ctx.samples) < 30)) else None)
        if k2 is not None and "^" in k2 and " && " not in k2:
            st_ = start_stats.setdefault(k2, [0, 0])
            st_[0 if not ok else 1] += 1
        if ok:
            continue
        if k2 is None:
            if k1 not in fails_single or len(sent) < len(fails_single[k1][1]):
                fails_single[k1] = (desc, sent)
        else:
            fails_pair.append((k1, k2, desc, sent))
    # ---- typedef-name re-declaration family (C99 6.2.1/6.7.7: an inner declaration may reuse a visible typedef name as the declared identifier) ----
    SH_SPECS = {"int": ["INT"], "unsigned long": ["UNSIGNED", "LONG"], "struct tag": ["STRUCT", "ID"], "struct body": ["STRUCT", "ID", "LBRACE", "INT", "ID", "SEMI", "RBRACE"], "union tag": ["UNION", "ID"],
                "enum tag": ["ENUM", "ID"], "enum body": ["ENUM", "LBRACE", "ID", "RBRACE"], "typedef name": ["TYPEID"], "const int": ["CONST", "INT"], "static int": ["STATIC", "INT"], "_Atomic(int)": ["_ATOMIC", "LPAREN", "INT", "RPAREN"]}
    SH_DECLS = {"T": ["TYPEID"], "*T": ["TIMES", "TYPEID"], "T[3]": ["TYPEID", "LBRACKET", "INT_CONST_DEC", "RBRACKET"], "(*T)(void)": ["LPAREN", "TIMES", "TYPEID", "RPAREN", "LPAREN", "VOID", "RPAREN"],
                "T = 1": ["TYPEID", "EQUALS", "INT_CONST_DEC"], "q, T": ["ID", "COMMA", "TYPEID"], "T, q": ["TYPEID", "COMMA", "ID"], "*T = 0": ["TIMES", "TYPEID", "EQUALS", "INT_CONST_DEC"]}
    SH_CTX = {"block": (["INT", "ID", "LPAREN", "VOID", "RPAREN", "LBRACE"], ["SEMI", "RBRACE"]), "for-init": (["INT", "ID", "LPAREN", "VOID", "RPAREN", "LBRACE", "FOR", "LPAREN"], ["SEMI", "SEMI", "RPAREN", "SEMI", "RBRACE"]),
              "parameter": (["VOID", "ID", "LPAREN"], ["RPAREN", "SEMI"])}
    nsh = 0
    for cname, (pre, post) in SH_CTX.items():
        for sname, sp in SH_SPECS.items():
            for dname, dc in SH_DECLS.items():
                if cname == "parameter" and ("," in dname or "=" in dname or sname == "static int"):
                    continue
                sent = tuple(pre + sp + dc + post)
                ok = rec.accepts(TOP, sent)
                nsh += 1
                n += 1
                ctx.oblige("R-C01.3", "shadow " + " ".join(sent), ok, nontrivial=True, sample={"rule": "R-C01.3", "reference construct": f"{cname}: `{sname} {dname}` re-declaring the typedef name T", "sentence": " ".join(sent), "verdict": "accepted by the model" if ok else "REJECTED"} if (not ok or nsh % 60 == 1) else None)
                if not ok:
                    ctx.violation("R-C01.3", f"missing:shadow:{cname}:{sname}:{dname}", f"valid construct not accepted - in a {cname}, the declaration `{sname} {dname}` that re-declares a visible typedef name T as the declared identifier: token sequence `{' '.join(sent)}` "
                                  "is valid C99 (6.7.7, 6.2.1) but no path of the parser model consumes it", file=px.rel, function="CParser (grammar model)", construct=" ".join(sent))
    ctx.unit("typedef-name re-declaration sentences", nsh)
    ctx.unit("reference sentences", n)
    ctx.unit("reference nonterminals", len(ref.rules))
    for k1, (desc, sent) in sorted(fails_single.items()):
        ctx.violation("R-C01.3", f"missing:{k1}", f"valid construct not accepted - {desc}: token sequence `{' '.join(sent)}` is derivable from the C99/C11 reference grammar but no path of the parser model consumes it",
                      file=px.rel, function="CParser (grammar model)", construct=" ".join(sent))
    root_start = {f for f, (nf, np_) in start_stats.items() if nf and not np_}
    simple_fail = {(k1, k2) for k1, k2, _, _ in fails_pair if " && " not in k2 and ">" not in k2}
    # (parent variant, child variant) pairs that fail with nothing deeper involved, also usable inside longer chains
    simple_fail2 = {(k1, k2) for k1, k2 in simple_fail} | {(a, b) for k1, k2, _, _ in fails_pair if " && " not in k2 and "^" not in k2 for a, b in [(k1, k2.split(">")[0])] if len(k2.split(">")) == 1}
    groups = {}
    for k1, k2, desc, sent in fails_pair:
        base2 = k2.split(">")[0]
        if k1 in fails_single:
            continue     # explained by a construct that fails on its own
        if " && " in base2:
            var, start = base2.split(" && ", 1)
            chain = var.split(">")
            if (any(c in fails_single for c in chain) or start in root_start or (k1, start) in simple_fail or (k1, var) in simple_fail
                    or any((a, b) in simple_fail for a, b in zip(chain, chain[1:])) or (chain[-1], start) in simple_fail):
                continue
            gk = k1.split("/")[0] + "+" + "/".join(var.split(">")[-1].split("/")[:2]) + "&" + start
        elif "^" in base2:
            gk = "start:" + base2
        else:
            chain = k2.split(">")
            if any(c in fails_single for c in chain):
                continue
            if len(chain) > 1 and ((k1, chain[0]) in simple_fail or any((a, b) in simple_fail2 for a, b in zip(chain, chain[1:]))):
                continue
            gk = (k1.split("/")[0] + "+" + chain[0]) if len(chain) == 1 else (chain[-2].split("/")[0] + "+" + chain[-1])
        cur = groups.get(gk)
        if cur is None or len(sent) < len(cur[1]):
            groups[gk] = (desc, sent, (cur[2] if cur else 0) + 1)
        else:
            groups[gk] = (cur[0], cur[1], cur[2] + 1)
    for gk, (desc, sent, cnt) in sorted(groups.items()):
        ctx.violation("R-C01.3", f"missing:{gk}", f"valid combination not accepted ({cnt} reference sentences) - e.g. {desc}: `{' '.join(sent)}` is derivable from the reference grammar but no path of the parser model consumes it",
                      file=px.rel, function="CParser (grammar model)", construct=" ".join(sent))
    from . import share
    share.borrow(ctx, "C10", ("R-C10.1",), "R-C01.6", count=30)
    share.borrow(ctx, "C06", ("R-C06.2", "R-C06.3"), "R-C01.7", count=30)
    ctx.rule("R-C01.9", "a valid unit is not refused because of what the lexer was given before: input() starts from a clean cursor, so no token of an earlier text is delivered into this one (decided by the reset analysis of C09)")
    share.borrow(ctx, "C09", ("R-C09.7",), "R-C01.9", count=6)
    ctx.require_instances("R-C01.3", 1200)
    ctx.info["explanation"] = ("grammar conformance on the automata extracted from the parser by abstract interpretation: exact vocabulary / token-type closure, FIRST-based guard adequacy at every decision point of every "
                               "production clone, and inclusion of an independently transcribed ISO C99 Annex A.2 (+ documented C11) grammar, decided on a sentence set that takes every choice of every reference production once and "
                               "pairs it with every choice of each child nonterminal; acceptance is decided by a recogniser over the extracted model (no pycparser code runs)")
    ctx.assumptions += ["the reference EBNF in sa/refgrammar.py equals ISO C (trusted reading)", "semantic predicates of the parser (declarator-name scan, symbol-table lookups, saw_type results of callees) are free choices in the model: "
                        "the model may accept a sentence that the real parser rejects for a non-grammatical reason, never the converse", "agreement with gcc is not decided",
                        "inclusion is decided on the covering sentence set, not for all sentences (the general problem is undecidable for context-free grammars)"]
    ctx.trusted += ["E1 abstract interpreter", "reference grammar sa/refgrammar.py"]


def _potential_actual(g, pa, x, nullable, first):
    """Tokens that consumption/call edges reachable from x without consuming could start with: ignoring / honouring look-ahead facts."""
    pot, act = set(), set()
    seen = {x}
    stack = [(x, None)]   # (node, la1 restriction accumulated along the path) - None = unrestricted
    seen_r = set()
    while stack:
        y, restr = stack.pop()
        la = pa.la[y]
        r2 = restr
        if la is not None:
            r2 = set(la[0]) if restr is None else (restr & set(la[0]))
        for i in pa.out.get(y, []):
            s, ev, d, _ = pa.edges[i]
            if d in pa.errors:
                continue
            if ev is None:
                key = (d, frozenset(r2) if r2 is not None else None)
                if key not in seen_r:
                    seen_r.add(key)
                    stack.append((d, r2))
            elif ev[0] == "t":
                pot |= set(ev[1])
                act |= (set(ev[1]) if r2 is None else set(ev[1]) & r2)
            else:
                ck = ev[1]
                f = first.get(ck, set())
                if ck[0] in _generic_consumers():
                    f = f & set(ev[2])      # a helper that takes "the current token, whatever it is": its FIRST is only what its callers let through, so it says nothing about this guard
                pot |= f
                a = f & set(ev[2])
                act |= (a if r2 is None else a & r2)
                if nullable.get(ck, False):
                    key = (d, frozenset(r2) if r2 is not None else None)
                    if key not in seen_r:
                        seen_r.add(key)
                        stack.append((d, r2))
    return pot, act


_gc = {}


def _generic_consumers():
    """productions whose first token operation is an untyped self._advance() and that never look at the type of that token"""
    if "v" not in _gc:
        px = S.module("c_parser")
        out = set()
        for name, fn in px.methods("CParser").items():
            ops = sorted((c for c in ast.walk(fn) if isinstance(c, ast.Call) and isinstance(c.func, ast.Attribute) and isinstance(c.func.value, ast.Name) and c.func.value.id == "self"
                          and c.func.attr in ("_advance", "_expect", "_accept", "_peek", "_peek_type", "_starts_declaration", "_starts_expression", "_starts_statement", "_starts_declarator", "_mark")
                          or (isinstance(c, ast.Call) and isinstance(c.func, ast.Attribute) and c.func.attr.startswith(("_parse_", "_try_parse_")))), key=lambda c: (c.lineno, c.col_offset))
            if not ops or not (isinstance(ops[0].func, ast.Attribute) and ops[0].func.attr == "_advance" and not ops[0].args):
                continue
            par = getattr(ops[0], "_parent", None)
            var = par.targets[0].id if isinstance(par, ast.Assign) and len(par.targets) == 1 and isinstance(par.targets[0], ast.Name) else None
            looks = any(isinstance(a, ast.Attribute) and a.attr == "type" and isinstance(a.value, ast.Name) and a.value.id == var for a in ast.walk(fn)) if var else False
            if not looks:
                out.add(name)
        _gc["v"] = out
    return _gc["v"]


def _who_could(g, pa, x, tok, nullable, first):
    seen = {x}
    stack = [x]
    while stack:
        y = stack.pop()
        for i in pa.out.get(y, []):
            s, ev, d, _ = pa.edges[i]
            if ev is None:
                if d not in seen:
                    seen.add(d)
                    stack.append(d)
            elif ev[0] == "c" and tok in first.get(ev[1], set()):
                return e1.sig_text(ev[1])
            elif ev[0] == "t" and tok in ev[1]:
                return "a direct consumption"
    return "a production called here"
