"""C09 - tokenisation is lossless, longest-match and position-exact.

Decided on the tokeniser function model (E2) and on the cursor code of CLexer:
 R-C09.1 maximal munch for ALL strings: the answer of "master regex, then fixed bucket, longer wins" is always the longest
         prefix that any rule or punctuator can match; every C99 punctuator lexes to its own token; values are the matched slices;
 R-C09.2 bucket discipline (first-character buckets, no entry hidden by an earlier prefix, strict comparison with the regex);
 R-C09.3 classification order keyword -> typedef lookup -> ID;
 R-C09.4 position bookkeeping: every path that moves the cursor over a newline sets _line_start to the offset after it and
         adjusts _lineno; no token language contains a newline; the pending pragma string is stamped before its newline;
 R-C09.5 progress: every loop iteration / every return of _match_token advances the cursor; no rule matches the empty string;
 R-C09.6 sibling agreement of the hand-written scanners (blank skipping is a loop everywhere; every sub-match of the #line
         scanner advances by its full extent and the scan ends only at the end of the line).
"""
from __future__ import annotations

import ast

from .. import lexmodel as LM
from .. import rxmodel as R
from .. import srcmodel as S
from ..core import AnalysisError
from . import c04

LEVEL = "other"


def _single_def(fn, name, before=None):
    """the expression bound to a local: the only binding, or (with `before`) the nearest binding above that line; None when unclear"""
    defs = []
    for n in ast.walk(fn):
        if isinstance(n, ast.Assign):
            for t in n.targets:
                if isinstance(t, ast.Name) and t.id == name:
                    defs.append((n.lineno, n.value))
                elif isinstance(t, (ast.Tuple, ast.List)) and any(isinstance(e, ast.Name) and e.id == name for e in t.elts):
                    defs.append((n.lineno, ("unpack", [isinstance(e, ast.Name) and e.id == name for e in t.elts].index(True), n.value)))
        elif isinstance(n, ast.NamedExpr) and isinstance(n.target, ast.Name) and n.target.id == name:
            defs.append((n.lineno, n.value))
        elif isinstance(n, ast.AugAssign) and isinstance(n.target, ast.Name) and n.target.id == name:
            defs.append((n.lineno, None))
        elif isinstance(n, (ast.For, ast.comprehension)) and any(isinstance(e, ast.Name) and e.id == name for e in ast.walk(n.target)):
            defs.append((getattr(n, "lineno", 0), ("each", n.iter)))
    if len(defs) == 1:
        return defs[0][1]
    if before is not None:
        prior = sorted((ln, i) for i, (ln, _) in enumerate(defs) if ln < before)
        if prior:
            return defs[prior[-1][1]][1]
    return None


def _offset_unchanged_up_to(case, call, P):
    """No statement that can run between the entry of the match arm and the call writes the offset expression P (statements inside an
    `if` that cannot fall through - it ends in continue / return / raise - are not on the way)."""
    ptxt = S.unparse(P)
    base = ptxt.split("[")[0]

    def writes(st):
        for x in ast.walk(st):
            if isinstance(x, (ast.Assign, ast.AugAssign, ast.AnnAssign)):
                for t in (x.targets if isinstance(x, ast.Assign) else [x.target]):
                    if S.unparse(t) in (ptxt, base):
                        return True
        return False

    def no_fallthrough(body):
        return bool(body) and isinstance(body[-1], (ast.Continue, ast.Return, ast.Raise, ast.Break))
    cur = call
    while cur is not case:
        par = cur._parent
        for field in ("body", "orelse"):
            blk = getattr(par, field, None)
            if isinstance(blk, list) and any(x is cur for x in blk):
                for st in blk[:[i for i, x in enumerate(blk) if x is cur][0]]:
                    if isinstance(st, ast.If) and not st.orelse and no_fallthrough(st.body):
                        if writes(st.test):
                            return False
                        continue
                    if writes(st):
                        return False
        cur = par
    return True


def token_spelling_sites(ctx, rid):
    """Every token is made from (type, spelling, offset) where the spelling is the input text AT that offset:
    a slice text[offset:...], a constant the text was tested to start with at that offset, or the regex / fixed-literal match taken at that offset."""
    lx = S.module("c_lexer")
    sites = []
    for mname, fn in lx.methods("CLexer").items():
        for c in ast.walk(fn):
            if isinstance(c, ast.Call) and isinstance(c.func, ast.Attribute) and c.func.attr == "_make_token":
                sites.append((mname, fn, c))
    if len(sites) < 4:
        raise AnalysisError(f"only {len(sites)} _make_token call sites found (confirmed by reading: 4)")

    def is_text(e, fn):
        if isinstance(e, ast.Attribute) and e.attr == "_lexdata":
            return True
        if isinstance(e, ast.Name):
            d = _single_def(fn, e.id)
            return isinstance(d, ast.AST) and is_text(d, fn)
        return False

    def same_pos(p, q, fn):
        if S.unparse(p) == S.unparse(q):
            return True
        for x, y in ((p, q), (q, p)):
            if isinstance(x, ast.Name):
                d = _single_def(fn, x.id)
                if isinstance(d, ast.AST) and S.unparse(d) == S.unparse(y):
                    return True
        return False

    mkdef = lx.method("CLexer", "_make_token")
    for mname, fn, c in sites:
        pa_ = S.positional_args(c, mkdef)
        if pa_ is None or len(pa_) != 3 or any(a is None for a in pa_):
            raise AnalysisError(f"{mname}: _make_token call does not fit (type, spelling, offset)")
        _T, V, P = pa_
        why = None
        v = V
        if isinstance(v, ast.Name):
            d = _single_def(fn, v.id)
            if isinstance(d, ast.AST):
                v = d
        if isinstance(v, ast.Subscript) and isinstance(v.slice, ast.Slice) and is_text(v.value, fn) and v.slice.lower is not None and v.slice.step is None:
            if same_pos(v.slice.lower, P, fn):
                why = "spelling is the input slice starting at the stamped offset"
        elif isinstance(v, ast.Constant) and isinstance(v.value, str):
            for g in ast.walk(fn):
                if isinstance(g, ast.Call) and isinstance(g.func, ast.Attribute) and g.func.attr == "startswith" and is_text(g.func.value, fn) and len(g.args) == 2 \
                        and isinstance(g.args[0], ast.Constant) and g.args[0].value == v.value and same_pos(g.args[1], P, fn) and g.lineno <= c.lineno:
                    why = "constant spelling tested with text.startswith(..., offset)"
                if isinstance(g, ast.Match) and isinstance(g.subject, ast.Subscript) and is_text(g.subject.value, fn) and same_pos(g.subject.slice, P, fn):
                    for case in g.cases:
                        if isinstance(case.pattern, ast.MatchValue) and isinstance(case.pattern.value, ast.Constant) and case.pattern.value.value == v.value and any(x is c for st in case.body for x in ast.walk(st)):
                            if _offset_unchanged_up_to(case, c, P):
                                why = "constant spelling matched by `match text[offset]`, offset not moved in between"
        elif isinstance(V, ast.Name):
            d = _single_def(fn, V.id, before=c.lineno)
            if isinstance(d, tuple) and d[0] == "unpack" and isinstance(d[2], ast.Name):
                idx, acc = d[1], d[2].id
                comps = [(a_.lineno, a_.value.elts[idx]) for a_ in ast.walk(fn) if isinstance(a_, ast.Assign) and isinstance(a_.value, ast.Tuple) and len(a_.value.elts) > idx and any(isinstance(t, ast.Name) and t.id == acc for t in a_.targets)]
                good = bool(comps)
                for ln_, e in comps:
                    e2 = e
                    if isinstance(e2, ast.Name):
                        dd = _single_def(fn, e2.id, before=ln_)
                        e2 = dd if isinstance(dd, ast.AST) else e2
                    if isinstance(e2, ast.Call) and isinstance(e2.func, ast.Attribute) and e2.func.attr == "group" and isinstance(e2.func.value, ast.Name):
                        md = _single_def(fn, e2.func.value.id)
                        good &= isinstance(md, ast.Call) and S.unparse(md.func).endswith("_regex_master.match") and len(md.args) == 2 and is_text(md.args[0], fn) and same_pos(md.args[1], P, fn)
                    elif isinstance(e2, ast.Attribute) and e2.attr == "literal":
                        lit = S.unparse(e2)
                        good &= any(isinstance(g, ast.Call) and isinstance(g.func, ast.Attribute) and g.func.attr == "startswith" and is_text(g.func.value, fn) and len(g.args) == 2 and S.unparse(g.args[0]) == lit and same_pos(g.args[1], P, fn)
                                    for g in ast.walk(fn))
                    else:
                        good = False
                if good:
                    why = "spelling is the regex match / fixed literal found at the stamped offset"
        ok = why is not None
        ctx.oblige(rid, f"{mname}: {S.unparse(c)[:70]}", ok, sample={"rule": rid, "function": mname, "token construction": S.unparse(c)[:90], "verdict": why or "spelling and offset are not tied together"})
        if not ok:
            ctx.violation(rid, f"spelling-offset:{mname}:{S.unparse(c.args[0])[:30]}", f"{mname}: `{S.unparse(c)[:100]}` - the spelling `{S.unparse(V)[:50]}` is not the input text starting at the offset `{S.unparse(P)}` it is stamped with "
                          "(expected: text[offset:...], a constant tested at that offset, or the match taken at that offset): value or column can disagree with the input", file=lx.rel, function=f"CLexer.{mname}", line=c.lineno, construct=S.unparse(c)[:160])


def check(ctx):
    for rid, text in (("R-C09.1", "maximal munch for all strings; punctuators; spelling = matched slice"), ("R-C09.2", "fixed-token bucket discipline"),
                      ("R-C09.3", "identifier classification order"), ("R-C09.4", "line / column bookkeeping across newlines"),
                      ("R-C09.5", "progress of the scanning loops"), ("R-C09.6", "sibling agreement of the hand-written directive scanners"),
                      ("R-C09.8", "the #line scanner accepts every digit sequence as line number / flag (C99 6.10.4), decided on the automaton of its numeric sub-patterns"),
                      ("R-C09.7", "input() starts from a clean cursor: every attribute the scanning paths write (position, line, file, pending token) is re-initialised, so no token of an earlier text is returned")):
        ctx.rule(rid, text)
    m = LM.LexModel()
    T = LM.TokAutomaton(m)
    a = m.alpha
    lx = S.module("c_lexer")
    ctx.unit("tokeniser automaton states", len(T.keys))
    ctx.unit("fixed tokens", len(m.t.fixed_tokens))
    ctx.info["automata"] = {"prio_dfa_states": len(m.prio().states), "subset_dfa_states": len(m.subset().states), "tokeniser_states": len(T.keys), "minterms": a.n, "combine_op": m.combine_op}

    def viol(rule, key, msg, fn="", node=None):
        ctx.violation(rule, key, msg, file=lx.rel, function=fn, line=getattr(node, "lineno", 0), construct=S.unparse(node)[:160] if node is not None else "")

    # ---- R-C09.1 -----------------------------------------------------------------
    w = T.witness(lambda o: o["mm_bad"])
    ok = w is None
    ctx.oblige("R-C09.1", "maximal munch over all strings", ok, sample={"rule": "R-C09.1", "states explored": len(T.keys), "verdict": "the answer is always the longest candidate" if ok else f"NOT longest for {a.word(w)!r}: {m.run(w)}"})
    if not ok:
        res = m.run(w)
        viol("R-C09.1", f"munch:{res[1]}", f"on input {a.word(w)!r} the tokeniser answers {res}, although a longer prefix is matched by another rule or punctuator: longest-match is violated (rule order / bucket order / comparison)", "_regex_rules/_fixed_tokens")
    for p in LM.PUNCTUATORS:
        res = m.run([a.of_char(c) for c in p])
        want = [tt for tt, lit in m.t.fixed_tokens if lit == p]
        ok = bool(want) and res[0] == "fixed" and res[1] == want[0] and res[2] == len(p)
        ctx.oblige("R-C09.1", f"punctuator {p}", ok, nontrivial=len(p) > 1)
        if not ok:
            viol("R-C09.1", f"punct:{p}", f"punctuator `{p}` is tokenised as {res} (expected one {want[0] if want else '?'} token of length {len(p)})", "_fixed_tokens")
    # ... and each spelling carries the class of that operator / delimiter
    for ttype, lit in m.t.fixed_tokens:
        want_cls = LM.PUNCTUATOR_CLASS.get(lit)
        if want_cls is None:
            continue
        ok = ttype == want_cls
        ctx.oblige("R-C09.1", f"class of punctuator {lit}", ok, nontrivial=False)
        if not ok:
            viol("R-C09.1", f"punct-class:{lit}", f"punctuator `{lit}` is returned with token class {ttype}; it is the {want_cls} operator / delimiter: clients selecting on the token class (and the parser's operator tables) see another operator", "_fixed_tokens")
    token_spelling_sites(ctx, "R-C09.1")
    from . import c01
    c01.keyword_spellings(ctx, "R-C09.3")          # keyword vs identifier: exactly the C keywords are keywords
    mt = lx.method("CLexer", "_match_token")

    # ---- R-C09.2 ------------------------------------------------------------------
    allfixed = set(m.t.fixed_tokens)
    seen = set()
    for first, bucket in m.t.fixed_by_first.items():
        for i, (tt, lit) in enumerate(bucket):
            seen.add((tt, lit))
            ok = lit[:1] == first
            ctx.oblige("R-C09.2", f"bucket {first!r} holds {lit!r}", ok, nontrivial=False)
            if not ok:
                viol("R-C09.2", f"bucket-key:{lit}", f"fixed token {lit!r} sits in the bucket of {first!r}: it can never match", "_fixed_tokens_by_first")
            for tt2, lit2 in bucket[i + 1:]:
                hidden = lit2.startswith(lit) and lit2 != lit
                ctx.oblige("R-C09.2", f"{lit!r} before {lit2!r}", not hidden, nontrivial=lit2[:1] == lit[:1])
                if hidden:
                    viol("R-C09.2", f"bucket-order:{lit}:{lit2}", f"in the bucket of {first!r} the entry {lit!r} precedes {lit2!r}, of which it is a prefix: the scan stops at the first hit, so {lit2!r} is never produced", "_fixed_tokens_by_first")
    ok = seen == allfixed
    ctx.oblige("R-C09.2", "every fixed token is in a bucket", ok)
    if not ok:
        viol("R-C09.2", "bucket-missing", f"fixed tokens missing from the buckets: {sorted(allfixed - seen)}", "_fixed_tokens_by_first")
    brk = [n for n in ast.walk(mt) if isinstance(n, ast.For)]
    ok = len(brk) == 1 and any(isinstance(s, ast.Break) for st in brk[0].body for s in ast.walk(st))
    ctx.oblige("R-C09.2", "bucket scan stops at the first hit", ok)
    if not ok:
        viol("R-C09.2", "scan-break", "the bucket scan must stop at the first matching entry", "CLexer._match_token", mt)
    # ties between the regex and a fixed token: with `>` the regex keeps a tie, which must not change the class
    op = m.combine_op
    ok = op in ("Gt", "GtE")
    ctx.oblige("R-C09.2", f"regex vs fixed-token comparison is `{op}`", ok, sample={"rule": "R-C09.2", "comparison": f"fixed_length {op} regex_length"})
    if not ok:
        viol("R-C09.2", f"combine-op:{op}", f"a fixed token must replace the regex match only when it is longer (found comparison `{op}`)", "CLexer._match_token", mt)

    # ---- R-C09.3 -----------------------------------------------------------------------
    before = len(ctx.findings)
    c04._check_id_action(ctx, lx)
    for f in ctx.findings[before:]:
        f.rule = "R-C09.3"
    r = ctx.rules.get("R-C04.2")
    if r:
        ctx.rules.setdefault("R-C09.3", {"text": "", "instances": 0, "violations": 0})["instances"] += r["instances"]
        ctx.rules["R-C09.3"]["violations"] += r["violations"]
        del ctx.rules["R-C04.2"]

    # ---- R-C09.4 ---------------------------------------------------------------------------
    nl = a.of_char("\n")
    tok_dfa = T.dfa(lambda o: o["full"] and o["action"] in ("TOKEN", "ID"))
    # product with "word contains a newline"
    wnl = _word_with_symbol(tok_dfa, nl)
    ok = wnl is None
    ctx.oblige("R-C09.4", "no token language contains a newline", ok)
    if not ok:
        viol("R-C09.4", "token-newline", f"the token {a.word(wnl)!r} contains a newline: the line bookkeeping is not told about it", "_regex_rules")
    sites = _line_start_sites(lx)
    if len(sites) < 3:
        raise AnalysisError(f"expected at least three places that set _line_start after a newline, found {len(sites)}")
    for fname, node, verdict, detail in sites:
        ctx.oblige("R-C09.4", f"{fname}: {S.unparse(node)}", verdict, sample={"rule": "R-C09.4", "function": fname, "construct": S.unparse(node), "value relative to the newline offset": detail})
        if not verdict:
            viol("R-C09.4", f"line-start:{fname}:{detail}", f"{fname} sets _line_start to {detail} (expected: offset of the newline + 1): the columns of every token on the next line are shifted", f"CLexer.{fname}", node)
    pp = lx.method("CLexer", "_handle_pppragma")
    strtok = [n for n in ast.walk(pp) if isinstance(n, ast.Call) and getattr(n.func, "attr", "") == "_make_token" and n.args and isinstance(n.args[0], ast.Constant) and n.args[0].value == "PPPRAGMASTR"]
    nlblk = [n for n in ast.walk(pp) if isinstance(n, ast.AugAssign) and isinstance(n.target, ast.Attribute) and n.target.attr == "_lineno"]
    ok = len(strtok) == 1 and len(nlblk) == 1 and strtok[0].lineno < nlblk[0].lineno
    ctx.oblige("R-C09.4", "pragma text token is stamped before its newline is counted", ok)
    if not ok:
        viol("R-C09.4", "pragma-stamp-order", "the PPPRAGMASTR token must be created before the line counter is advanced over the end of the pragma line", "CLexer._handle_pppragma", pp)

    # ---- R-C09.5 ---------------------------------------------------------------------------
    ok = T.empty_match is None
    ctx.oblige("R-C09.5", "no rule of the master regex matches the empty string", ok)
    if not ok:
        viol("R-C09.5", f"empty-match:{T.empty_match}", f"rule {T.empty_match} can match the empty string: the lexer would not advance", "_regex_rules")
    for r_ in (n for n in ast.walk(mt) if isinstance(n, ast.Return)):
        adv = _advanced_before(r_, mt)
        ctx.oblige("R-C09.5", f"_match_token return at line {r_.lineno} follows an advance of _pos", adv)
        if not adv:
            viol("R-C09.5", f"no-advance:{S.unparse(r_)}", "a path of _match_token returns without advancing _pos: token() would loop for ever on that input", "CLexer._match_token", r_)
    for n in ast.walk(mt):
        if isinstance(n, ast.AugAssign) and isinstance(n.target, ast.Attribute) and n.target.attr == "_pos":
            v = S.unparse(n.value)

            def is_length(e):
                """a local that holds the matched length: unpacked from the candidate tuple at a position whose components are len(<matched text>)"""
                if not isinstance(e, ast.Name):
                    return False
                d = _single_def(mt, e.id, before=n.lineno)
                if isinstance(d, ast.Call) and S.unparse(d.func) == "len":
                    return True
                if isinstance(d, tuple) and d[0] == "unpack" and isinstance(d[2], ast.Name):
                    idx, acc = d[1], d[2].id
                    comps = [(a_.lineno, a_.value.elts[idx]) for a_ in ast.walk(mt) if isinstance(a_, ast.Assign) and isinstance(a_.value, ast.Tuple) and len(a_.value.elts) > idx and any(isinstance(t, ast.Name) and t.id == acc for t in a_.targets)]
                    good = bool(comps)
                    for ln_, c_ in comps:
                        if isinstance(c_, ast.Name):
                            dd = _single_def(mt, c_.id, before=ln_)
                            c_ = dd if isinstance(dd, ast.AST) else c_
                        good &= isinstance(c_, ast.Call) and S.unparse(c_.func) == "len"
                    return good
                return False
            val = n.value
            ok = isinstance(n.op, ast.Add) and ((isinstance(val, ast.Constant) and val.value == 1) or is_length(val)
                                                or (isinstance(val, ast.Call) and S.unparse(val.func) == "max" and len(val.args) == 2 and isinstance(val.args[0], ast.Constant) and val.args[0].value == 1 and is_length(val.args[1])))
            ctx.oblige("R-C09.5", f"_pos += {v}", ok)
            if not ok:
                viol("R-C09.5", f"advance-by:{v}", f"_pos is advanced by `{v}`: it must be the matched length (positive: no rule matches the empty string) or at least 1 on errors", "CLexer._match_token", n)
    tokfn = lx.method("CLexer", "token")
    matches = [n for n in ast.walk(tokfn) if isinstance(n, ast.Match)]
    if len(matches) != 1:
        raise AnalysisError("CLexer.token: expected one match on the current character")
    for case in matches[0].cases:
        body_nodes = [n for st in case.body for n in ast.walk(st)]
        adv = any(isinstance(n, ast.AugAssign) and isinstance(n.target, ast.Attribute) and n.target.attr == "_pos" for n in body_nodes)
        via = any(isinstance(n, ast.Call) and getattr(n.func, "attr", "") == "_match_token" for n in body_nodes)
        ok = adv or via
        ctx.oblige("R-C09.5", f"token(): case {S.unparse(case.pattern)} advances", ok)
        if not ok:
            viol("R-C09.5", f"token-case:{S.unparse(case.pattern)}", f"case {S.unparse(case.pattern)} of CLexer.token neither advances _pos nor calls _match_token", "CLexer.token", case.pattern)

    # ---- R-C09.6 ---------------------------------------------------------------------------
    scanner_sibling_rules(ctx, "R-C09.6", "R-C09.6")

    # ---- R-C09.7 (reset-dominance analysis shared with C12) ----------------------------
    from .. import stateflow as F
    from . import c12
    mods = S.all_modules()
    all_classes = {}
    for m_ in mods:
        all_classes.update(F.classes(m_))
    lcls = all_classes.get("CLexer")
    if lcls is None or "input" not in lcls.methods:
        raise AnalysisError("anchor CLexer.input vanished")
    state, _ = c12.state_inventory(lcls)
    scan = c12.ResetScan(lcls, all_classes, c12.attr_types(mods, all_classes))
    assigned, _ = scan.scan(lcls.methods["input"])
    for attr in sorted(state):
        ok = attr in assigned
        ctx.oblige("R-C09.7", f"CLexer.{attr} re-initialised by input()", ok, sample={"rule": "R-C09.7", "attribute": attr, "written in": sorted({m__ for m__, _, _ in state[attr]}), "verdict": "reset" if ok else "NOT RESET"})
        if not ok:
            ctx.violation("R-C09.7", f"noreset:{attr}", f"CLexer.{attr} is written while scanning ({sorted({m__ for m__, _, _ in state[attr]})}) but input() does not re-initialise it: after new text is supplied the lexer can return a token (or a position) left over from the previous text",
                          file=lx.rel if "lx" in dir() else "pycparser/c_lexer.py", function="CLexer.input")
    ctx.require_instances("R-C09.7", 5)
    ppline_number_language(ctx, "R-C09.8")
    # "reporting - never silently skipping - characters it cannot tokenise": an identifier rule that swallows characters outside C's identifier
    # alphabet (plus the documented '$'), or a layout arm that skips non-white-space, hides them; decided by the language comparison of C10 and the
    # white-space rule of C01
    from . import share
    share.borrow(ctx, "C10", ("R-C10.1",), "R-C09.5", keep=lambda f: f.key == "upper:ID", count=1)
    from . import c01 as _c01
    _c01.white_space(ctx, "R-C09.5", only_nonspace=True)
    ctx.require_instances("R-C09.1", 45)
    ctx.require_instances("R-C09.2", 60)
    ctx.require_instances("R-C09.5", 8)
    ctx.info["explanation"] = ("exact automaton model of the tokeniser function (leftmost-first DFA of the master regex x subset DFA x fixed-literal scan): maximal munch is decided for all strings by searching the product for a state where a longer "
                               "candidate exists than the chosen one; bucket discipline on the folded tables; symbolic evaluation of the cursor arithmetic around every newline; progress of every loop; sibling agreement of the directive scanners")
    ctx.assumptions += ["Python's re implements leftmost-first semantics as modelled", "the contents of #pragma lines are line-oriented by definition"]
    ctx.trusted += ["re._parser", "E2 model"]


def input_verbatim(ctx, rid):
    """The text the lexer scans is the caller's text: every store to the scanned buffer assigns the `text` parameter of input() itself (or an
    empty constant when the lexer is created); a transformed copy (tabs expanded, line ends normalised, stripped ...) changes token spellings
    and columns depending on layout."""
    lx = S.module("c_lexer")
    n = 0
    for fname, fn in lx.methods("CLexer").items():
        params = {a.arg for a in fn.args.args[1:]}
        for st in ast.walk(fn):
            if isinstance(st, (ast.Assign, ast.AnnAssign, ast.AugAssign)):
                tgts = st.targets if isinstance(st, ast.Assign) else [st.target]
                if any(isinstance(t, ast.Attribute) and t.attr == "_lexdata" for t in tgts):
                    v = st.value
                    ok = (isinstance(v, ast.Name) and v.id in params and not isinstance(st, ast.AugAssign)) or (isinstance(v, ast.Constant) and v.value in ("", None))
                    n += 1
                    ctx.oblige(rid, f"{fname}: scanned buffer = caller's text", ok, sample={"rule": rid, "function": fname, "construct": S.unparse(st), "verdict": "verbatim" if ok else "TRANSFORMED"})
                    if not ok:
                        ctx.violation(rid, f"lexdata:{fname}", f"{fname}: `{S.unparse(st)[:80]}` - the lexer does not scan the caller's text itself but a transformed copy: spellings of literals / pragma text and columns then depend on the "
                                      "layout (tabs, line ends) of the input", file=lx.rel, function=f"CLexer.{fname}", line=st.lineno, construct=S.unparse(st)[:160])
    if n < 1:
        raise AnalysisError("no store to CLexer._lexdata found (anchor of the scanned buffer vanished)")


def scanner_sibling_rules(ctx, rule_blank, rule_line):
    """Sibling agreement of the hand-written directive scanners (shared with C17 / C18)."""
    lx = S.module("c_lexer")
    input_verbatim(ctx, rule_blank)

    def viol(rule, key, msg, fn="", node=None):
        ctx.violation(rule, key, msg, file=lx.rel, function=fn, line=getattr(node, "lineno", 0), construct=S.unparse(node)[:160] if node is not None else "")
    nblank = 0
    for fname, fn in lx.methods("CLexer").items():
        for n in ast.walk(fn):
            if isinstance(n, ast.Compare) and len(n.ops) == 1 and isinstance(n.ops[0], ast.In) and _is_blank_const(n.comparators[0]):
                holder = n
                while holder is not None and not isinstance(holder, (ast.While, ast.If, ast.IfExp)):
                    holder = getattr(holder, "_parent", None)
                ok = isinstance(holder, ast.While)
                nblank += 1
                ctx.oblige(rule_blank, f"{fname}: blank test at line {n.lineno} drives a loop", ok, sample={"rule": "R-C09.6", "function": fname, "construct": S.unparse(holder)[:80] if holder is not None else None})
                if not ok:
                    viol(rule_blank, f"blank-skip:{fname}:{S.unparse(n)}", f"in {fname} the blank test `{S.unparse(n)}` guards an `if`, while every other blank-skipping site is a loop: only one blank is skipped, so extra spaces or tabs end up in the token text / break the directive", f"CLexer.{fname}", holder)
    find_results_checked(ctx, rule_line)
    # a loop test `text[a:b] in " \t"` is a SUBSTRING test: the empty slice at the end of the text is "in" every string, so the loop never ends there
    for fname, fn in lx.methods("CLexer").items():
        for lp in ast.walk(fn):
            if not isinstance(lp, ast.While):
                continue
            for cmp_ in ast.walk(lp.test):
                if isinstance(cmp_, ast.Compare) and len(cmp_.ops) == 1 and isinstance(cmp_.ops[0], ast.In) and isinstance(cmp_.left, ast.Subscript) and isinstance(cmp_.left.slice, ast.Slice) \
                        and isinstance(cmp_.comparators[0], ast.Constant) and isinstance(cmp_.comparators[0].value, str):
                    bounded = any(isinstance(c2, ast.Compare) and len(c2.ops) == 1 and isinstance(c2.ops[0], (ast.Lt, ast.LtE, ast.Gt, ast.GtE, ast.NotEq)) for c2 in ast.walk(lp.test))
                    ctx.oblige(rule_blank, f"{fname}: slice membership test at line {cmp_.lineno} is bounded", bounded)
                    if not bounded:
                        viol(rule_blank, f"empty-slice-loop:{fname}", f"in {fname} the loop test `{S.unparse(lp.test)[:70]}` asks whether a SLICE of the text is a substring of {cmp_.comparators[0].value!r}: at the end of the text the slice is empty, "
                             "and the empty string is a substring of every string, so the loop never terminates when the directive is the last thing in the input", f"CLexer.{fname}", lp)
    skippers = _blank_skippers(lx)
    for fname, fn in lx.methods("CLexer").items():
        for n in ast.walk(fn):
            if isinstance(n, ast.Call) and isinstance(n.func, ast.Name) and n.func.id in skippers:
                nblank += 1
                ctx.oblige(rule_blank, f"{fname}: blanks skipped by {n.func.id}() at line {n.lineno}", True)
    if nblank < 3:
        raise AnalysisError("blank-skipping sites of the directive scanners not found")
    # a keyword recognised with text.startswith(LIT, cursor) is skipped by exactly len(LIT): one character more swallows whatever follows the
    # keyword unseen, one less re-reads its tail
    nkw = 0
    for fname, fn in lx.methods("CLexer").items():
        for n in ast.walk(fn):
            if not (isinstance(n, ast.If) and S.enclosing_function(n) is fn):
                continue
            t, neg = n.test, False
            if isinstance(t, ast.UnaryOp) and isinstance(t.op, ast.Not):
                t, neg = t.operand, True
            if not (isinstance(t, ast.Call) and isinstance(t.func, ast.Attribute) and t.func.attr == "startswith" and len(t.args) == 2 and isinstance(t.args[0], ast.Constant)
                    and isinstance(t.args[0].value, str) and isinstance(t.args[1], ast.Name)):
                continue
            lit, cur_ = t.args[0].value, t.args[1].id
            if neg:
                blk, idx = _block_of(n)
                follow = blk[idx + 1:]
            else:
                follow = n.body
            step = None
            for st in follow:
                hit = next((x for x in ast.walk(st) if isinstance(x, (ast.AugAssign, ast.Assign)) and any(isinstance(tg, ast.Name) and tg.id == cur_ for tg in (x.targets if isinstance(x, ast.Assign) else [x.target]))), None)
                if hit is not None:
                    step = hit
                    break
            if step is None:
                continue
            k = None
            if isinstance(step, ast.AugAssign) and isinstance(step.op, ast.Add):
                v = step.value
                if isinstance(v, ast.Constant) and isinstance(v.value, int):
                    k = v.value
                elif isinstance(v, ast.Call) and isinstance(v.func, ast.Name) and v.func.id == "len" and len(v.args) == 1 and isinstance(v.args[0], ast.Constant) and isinstance(v.args[0].value, str):
                    k = len(v.args[0].value)
            if k is None:
                continue          # some other way of advancing: not this rule's business
            nkw += 1
            ok = k == len(lit)
            ctx.oblige(rule_line, f"{fname}: keyword {lit!r} skipped by its own length", ok, sample={"rule": rule_line, "function": fname, "test": S.unparse(n.test), "advance": S.unparse(step), "verdict": "equal" if ok else f"{k} != {len(lit)}"})
            if not ok:
                viol(rule_line, f"keyword-skip:{fname}:{lit}", f"in {fname} the keyword tested by `{S.unparse(n.test)}` is skipped with `{S.unparse(step)}` ({k} characters for a {len(lit)}-character keyword): "
                     + ("the character after the keyword is swallowed without being looked at, so junk glued to the directive is accepted" if k > len(lit) else "the tail of the keyword is read again as directive text"), f"CLexer.{fname}", step)
    ctx.info["keyword_skip_sites"] = nkw     # (2 on the reviewed tree; the rule is conditional on the startswith idiom, another idiom is judged by the other rules)
    pl = lx.method("CLexer", "_handle_ppline")
    names = _ppline_names(pl, skippers)
    cursor, length, succ_name, skipper = names["cursor"], names["length"], names["success"], names["skipper"]
    rms = [c for c in ast.walk(pl) if isinstance(c, ast.Call) and S.unparse(c.func) in ("re.match", "re.search", "re.fullmatch")]
    if len(rms) < 2:
        raise AnalysisError("_handle_ppline: sub-pattern matches not found")
    for c in rms:
        par = getattr(c, "_parent", None)
        var = par.targets[0].id if isinstance(par, ast.Assign) and isinstance(par.targets[0], ast.Name) else None
        full = S.unparse(c.func) == "re.fullmatch"
        extent = False
        if var:
            for n in ast.walk(pl):
                if isinstance(n, ast.AugAssign) and S.unparse(n.target) == cursor and n.lineno > c.lineno:
                    txt = S.unparse(n.value)
                    if f"{var}.group(0)" in txt or f"{var}.end(" in txt:
                        extent = True
                    # pos += len(x) where x = m.group(0)
                    for a2 in ast.walk(pl):
                        if isinstance(a2, ast.Assign) and isinstance(a2.targets[0], ast.Name) and f"{var}.group(0)" in S.unparse(a2.value) and f"len({a2.targets[0].id})" in txt:
                            extent = True
        ok = full or extent
        ctx.oblige(rule_line, f"_handle_ppline: extent of `{S.unparse(c)[:50]}` is consumed", ok)
        if not ok:
            viol(rule_line, f"ppline-extent:{S.unparse(c)[:60]}", f"_handle_ppline uses `{S.unparse(c)[:70]}` only as a yes/no test: a prefix match is accepted and the rest of that word is skipped unchecked (junk glued to a directive item is swallowed)", "CLexer._handle_ppline", c)
    succ = [c for c in ast.walk(pl) if isinstance(c, ast.Call) and isinstance(c.func, ast.Name) and c.func.id == succ_name and S.enclosing_function(c) is pl]
    if not succ:
        raise AnalysisError("_handle_ppline: success exits not found")
    for c in succ:
        dom = _dominated_by_end_test(c, pl, cursor, length)
        ctx.oblige(rule_line, f"_handle_ppline: success at line {c.lineno} only at the end of the line", dom)
        if not dom:
            viol(rule_line, f"ppline-end:{c.lineno}", "a success exit of _handle_ppline is not guarded by `pos >= line_len`: trailing text on the directive line would be skipped unchecked", "CLexer._handle_ppline", c)
    # every point where the directive may end tolerates trailing blanks: the end-of-line test comes right after blank skipping
    ends = [n for n in ast.walk(pl) if isinstance(n, ast.If) and S.enclosing_function(n) is pl and _is_end_test(n.test, cursor, length)]
    if len(ends) < 2:
        raise AnalysisError("_handle_ppline: end-of-line tests not found")
    def skips(st):
        return st is not None and ((isinstance(st, ast.Expr) and isinstance(st.value, ast.Call) and isinstance(st.value.func, ast.Name) and st.value.func.id == skipper)
                                   or (isinstance(st, ast.Assign) and isinstance(st.value, ast.Call) and isinstance(st.value.func, ast.Name) and st.value.func.id in skippers)
                                   or (isinstance(st, ast.While) and any(_is_blank_const(x) for x in ast.walk(st.test))))
    # the loop form of an end test (`while pos < line_len:` over the flags): blanks are skipped before the loop and at the end of every round
    for n in [w for w in ast.walk(pl) if isinstance(w, ast.While) and S.enclosing_function(w) is pl and _is_not_end_test(w.test, cursor, length)]:
        blk, idx = _block_of(n)
        ok = skips(blk[idx - 1] if idx > 0 else None) and skips(n.body[-1] if n.body else None) and not any(isinstance(x, ast.Continue) for x in ast.walk(n))
        ctx.oblige(rule_line, f"_handle_ppline: loop test at line {n.lineno} follows blank skipping on entry and after every round", ok)
        if not ok:
            viol(rule_line, f"ppline-trailing-blanks:{S.unparse(n.test)}:loop", f"in _handle_ppline the loop test `{S.unparse(n.test)}` is not preceded by blank skipping on entry and at the end of each round: a directive followed by "
                 "spaces or tabs is not recognised as complete and is reported as invalid", "CLexer._handle_ppline", n)
    for n in ends:
        blk, idx = _block_of(n)
        prev = blk[idx - 1] if idx > 0 else None
        ok = prev is not None and ((isinstance(prev, ast.Expr) and isinstance(prev.value, ast.Call) and isinstance(prev.value.func, ast.Name) and prev.value.func.id == skipper)
                                   or (isinstance(prev, ast.Assign) and isinstance(prev.value, ast.Call) and isinstance(prev.value.func, ast.Name) and prev.value.func.id in skippers)
                                   or (isinstance(prev, ast.While) and any(_is_blank_const(x) for x in ast.walk(prev.test))))
        ctx.oblige(rule_line, f"_handle_ppline: end test at line {n.lineno} follows blank skipping", ok)
        if not ok:
            viol(rule_line, f"ppline-trailing-blanks:{S.unparse(n.test)}:{idx}", f"in _handle_ppline the end-of-line test `{S.unparse(n.test)}` is not immediately preceded by blank skipping, unlike its siblings: a directive that ends here followed by "
                 "spaces or tabs (`# 7 ` + newline) is not recognised as complete and is reported as invalid", "CLexer._handle_ppline", n)


def find_results_checked(ctx, rid):
    """`text.find(...)` answers -1 when nothing is found.  Every value bound to such a result must be sanitised (`if v == -1: v = <end>` right
    after the call, or an early exit) before it is used as an offset, or be used only under a test that excludes -1: an unchecked -1 is a valid
    index / slice bound in Python (it counts from the end), so the scanner would silently cut or drop text at the end of the input - the result
    would depend on whether the input ends with a newline."""
    lx = S.module("c_lexer")
    n = 0
    for fname, fn in lx.methods("CLexer").items():
        for a in ast.walk(fn):
            if not (isinstance(a, ast.Assign) and len(a.targets) == 1 and isinstance(a.targets[0], ast.Name) and isinstance(a.value, ast.Call)
                    and isinstance(a.value.func, ast.Attribute) and a.value.func.attr in ("find", "rfind")):
                continue
            v = a.targets[0].id
            n += 1

            def is_neg_test(t, want_found):
                """t is a test that holds exactly when v is a real offset (want_found) / when v is -1 (not want_found)"""
                if isinstance(t, ast.UnaryOp) and isinstance(t.op, ast.Not):
                    return is_neg_test(t.operand, not want_found)
                if isinstance(t, ast.BoolOp) and isinstance(t.op, ast.And) and want_found:
                    return any(is_neg_test(x, True) for x in t.values)
                if not (isinstance(t, ast.Compare) and len(t.ops) == 1 and isinstance(t.left, ast.Name) and t.left.id == v):
                    return False
                op, c = t.ops[0], t.comparators[0]
                val = c.value if isinstance(c, ast.Constant) else (-c.operand.value if isinstance(c, ast.UnaryOp) and isinstance(c.op, ast.USub) and isinstance(c.operand, ast.Constant) else None)
                if val is None:
                    return False
                found = (isinstance(op, ast.NotEq) and val == -1) or (isinstance(op, ast.GtE) and val == 0) or (isinstance(op, ast.Gt) and val == -1)
                missing = (isinstance(op, ast.Eq) and val == -1) or (isinstance(op, ast.Lt) and val == 0) or (isinstance(op, ast.LtE) and val == -1)
                return found if want_found else missing
            blk, idx = _block_of(a)
            sanitised_from = None
            for st in blk[idx + 1:]:
                if isinstance(st, ast.If) and is_neg_test(st.test, False) and not st.orelse:
                    last = st.body[-1] if st.body else None
                    rebinds = any(isinstance(x, ast.Assign) and any(isinstance(t, ast.Name) and t.id == v for t in x.targets) for x in st.body)
                    if rebinds or isinstance(last, (ast.Return, ast.Continue, ast.Break, ast.Raise)):
                        sanitised_from = st.lineno
                        break
                if any(isinstance(x, ast.Name) and x.id == v for x in ast.walk(st)):
                    break
            bad = []
            for u in ast.walk(fn):
                if not (isinstance(u, ast.Name) and u.id == v and isinstance(u.ctx, ast.Load)) or u.lineno < a.lineno or (u.lineno == a.lineno and u.col_offset <= a.col_offset):
                    continue
                if sanitised_from is not None and u.lineno > sanitised_from:
                    continue
                # the use is the test itself, or lies in a branch that a test of v protects
                cur, ok = u, False
                while cur is not fn and cur is not None:
                    par = getattr(cur, "_parent", None)
                    if isinstance(par, (ast.If, ast.IfExp, ast.While)):
                        if cur is par.test:
                            tt = par.test
                            if any(is_neg_test(x, True) or is_neg_test(x, False) for x in ast.walk(tt) if isinstance(x, (ast.Compare, ast.UnaryOp, ast.BoolOp))):
                                ok = True
                        else:
                            in_body = (cur is par.body) if isinstance(par, ast.IfExp) else any(x is cur for x in par.body)
                            if (in_body and is_neg_test(par.test, True)) or (not in_body and is_neg_test(par.test, False)):
                                ok = True
                    if ok:
                        break
                    cur = par
                if not ok:
                    bad.append(u)
            ok = not bad
            ctx.oblige(rid, f"{fname}: result of `{S.unparse(a.value)[:40]}` is checked for -1 before use", ok, sample={"rule": rid, "function": fname, "call": S.unparse(a)[:70], "verdict": "sanitised / guarded" if ok else f"used unchecked at line {bad[0].lineno}"})
            if not ok:
                st_ = bad[0]
                while not isinstance(st_, ast.stmt) and getattr(st_, "_parent", None) is not None:
                    st_ = st_._parent
                ctx.violation(rid, f"find-unchecked:{fname}:{S.unparse(a.value.func)}", f"in {fname} the result of `{S.unparse(a.value)[:50]}` (-1 when nothing is found, i.e. at the end of an input that does not end with a newline) is used "
                              f"without a -1 check (`{S.unparse(st_)[:80]}`): as an index or slice bound -1 counts from the end, so the scanner cuts or drops text when the construct is the last thing in the input - "
                              "the result depends on a trailing newline", file=lx.rel, function=f"CLexer.{fname}", line=bad[0].lineno, construct=S.unparse(st_)[:160])
    ctx.info["find_result_sites"] = n


def ppline_number_language(ctx, rid):
    """C99 6.10.4: `# line digit-sequence ["s-char-sequence"] new-line`; GNU line markers add digit-sequence flags.  Every numeric item of
    the #line scanner is matched with re.match(PATTERN, rest-of-line) and the cursor then moves by the extent of the match, so a digit
    sequence is accepted iff the leftmost-first match of PATTERN on it covers the whole run (a shorter match leaves digits behind, which no
    later step of the scanner accepts).  Decided on the automaton of PATTERN for digit runs of every length."""
    lx = S.module("c_lexer")
    pl = lx.method("CLexer", "_handle_ppline")
    fo = S.folded("c_lexer")
    n = 0
    ref_node = R.plus(R.cls("0-9"))
    for c in ast.walk(pl):
        if not (isinstance(c, ast.Call) and S.unparse(c.func) in ("re.match", "re.fullmatch") and c.args):
            continue
        try:
            pat = fo.ev(c.args[0], fo.env)
        except Exception:
            pat = None
        if not isinstance(pat, str):
            raise AnalysisError(f"_handle_ppline: pattern `{S.unparse(c.args[0])}` does not fold to a string")
        node = R.from_pattern(pat)
        alpha = R.Alphabet(list(R.charsets(node)) + list(R.charsets(ref_node)))
        digits = alpha.classify(((48, 57),))
        # is this a numeric item?  (its language contains some digit run) - the file-name pattern is not
        whole = R.language_dfa(alpha, node)
        q = whole.start
        d0 = next(iter(digits))
        q1 = whole.step(q, d0)
        if q1 is None or not _accepts_some_digit_run(whole, digits):
            continue
        nfa = R.NFA(alpha)
        root = nfa.new()
        nfa.add_rule(root, node, "N")
        full = R.prio_whole_string_dfa(R.PrioDFA(nfa, root), lambda ev: ev == "N")
        w = R.find_in_a_not_b(R.language_dfa(alpha, ref_node), full)
        n += 1
        ok = w is None
        ctx.oblige(rid, f"_handle_ppline: `{S.unparse(c.args[0])}` matches every digit sequence in full", ok,
                   sample={"rule": rid, "pattern": pat[:60], "obligation": "[0-9]+ is matched in full (C99 6.10.4 digit-sequence)", "verdict": "holds" if ok else f"fails for {alpha.word(w)!r}"})
        if not ok:
            ctx.violation(rid, f"ppline-number:{S.unparse(c.args[0])}", f"the #line scanner matches its numeric items with `{S.unparse(c.args[0])}`, which does not cover the digit sequence {alpha.word(w)!r} in full: "
                          f"`#line {alpha.word(w)}` is a valid directive (C99 6.10.4: digit-sequence, leading zeros allowed) and is rejected as invalid", file=lx.rel, function="CLexer._handle_ppline", line=c.lineno, construct=S.unparse(c)[:120])
    if n < 2:
        raise AnalysisError(f"_handle_ppline: only {n} numeric sub-pattern matches found (confirmed by reading: line number and flags)")


def _accepts_some_digit_run(dfa, digits):
    seen, stack = {dfa.start}, [dfa.start]
    while stack:
        q = stack.pop()
        for a in digits:
            nq = dfa.step(q, a)
            if nq is None or nq in seen:
                continue
            if nq in dfa.accepting:
                return True
            seen.add(nq)
            stack.append(nq)
    return False


def _is_blank_const(x):
    return isinstance(x, ast.Constant) and isinstance(x.value, str) and len(x.value) == 2 and set(x.value) == {" ", "\t"}


def _is_not_end_test(t, cursor, length):
    return isinstance(t, ast.Compare) and len(t.ops) == 1 and isinstance(t.ops[0], (ast.Lt, ast.NotEq)) and S.unparse(t.left) == cursor and S.unparse(t.comparators[0]) == length


def _is_end_test(t, cursor, length):
    return isinstance(t, ast.Compare) and len(t.ops) == 1 and isinstance(t.ops[0], (ast.GtE, ast.Eq)) and S.unparse(t.left) == cursor and S.unparse(t.comparators[0]) == length


def _blank_skippers(lx):
    """module-level functions of the form `def f(text, pos, end): while pos < end and text[pos] in " \t": pos += 1; return pos` -> (index of pos, index of end)"""
    out = {}
    for name, f in lx.functions.items():
        body = [st for st in f.body if not (isinstance(st, ast.Expr) and isinstance(st.value, ast.Constant))]
        params = [a.arg for a in f.args.args]
        # the end of the scanned text may be a parameter or computed first as `n = len(<text parameter>)`
        lens = {}
        while body and isinstance(body[0], ast.Assign) and len(body[0].targets) == 1 and isinstance(body[0].targets[0], ast.Name) and isinstance(body[0].value, ast.Call) \
                and isinstance(body[0].value.func, ast.Name) and body[0].value.func.id == "len" and len(body[0].value.args) == 1 and isinstance(body[0].value.args[0], ast.Name) and body[0].value.args[0].id in params:
            lens[body[0].targets[0].id] = body[0].value.args[0].id
            body = body[1:]
        if len(body) == 2 and isinstance(body[0], ast.While) and isinstance(body[1], ast.Return) and isinstance(body[1].value, ast.Name) \
                and any(_is_blank_const(x) for x in ast.walk(body[0].test)):
            cur = body[1].value.id
            end = None
            for c in ast.walk(body[0].test):
                if isinstance(c, ast.Compare) and len(c.ops) == 1 and isinstance(c.ops[0], ast.Lt) and isinstance(c.left, ast.Name) and c.left.id == cur and isinstance(c.comparators[0], ast.Name):
                    end = c.comparators[0].id
                elif isinstance(c, ast.Compare) and len(c.ops) == 1 and isinstance(c.ops[0], ast.Lt) and isinstance(c.left, ast.Name) and c.left.id == cur and S.unparse(c.comparators[0]).startswith("len("):
                    end = S.unparse(c.comparators[0])
            steps = [a for a in ast.walk(body[0]) if isinstance(a, ast.AugAssign) and isinstance(a.target, ast.Name) and a.target.id == cur and isinstance(a.op, ast.Add) and isinstance(a.value, ast.Constant) and a.value.value == 1]
            if cur in params and steps and (end in params or end in lens or (end or "").startswith("len(")):
                out[name] = (params.index(cur), params.index(end) if end in params else None)
    return out


def _ppline_names(pl, skippers=None):
    """local names of the #line scanner, found by role: cursor and length (from the blank-skipping loop), the blank skipper, the success exit"""
    out = {}
    for n in ast.walk(pl):
        if isinstance(n, ast.Call) and isinstance(n.func, ast.Name) and n.func.id in (skippers or {}):
            pi, ei = skippers[n.func.id]
            if ei is None and pi < len(n.args) and isinstance(n.args[pi], ast.Name):
                # the skipper takes the end of the text itself: the length variable of the scanner is the one its end tests compare the cursor with
                out["cursor"] = n.args[pi].id
                for t_ in ast.walk(pl):
                    if isinstance(t_, ast.Compare) and len(t_.ops) == 1 and isinstance(t_.ops[0], (ast.GtE, ast.Lt)) and isinstance(t_.left, ast.Name) and t_.left.id == out["cursor"] and isinstance(t_.comparators[0], ast.Name):
                        out["length"] = t_.comparators[0].id
                f = S.enclosing_function(n)
                if f is not pl and isinstance(f, ast.FunctionDef):
                    out["skipper"] = f.name
                continue
            if pi < len(n.args) and ei < len(n.args) and isinstance(n.args[pi], ast.Name) and isinstance(n.args[ei], ast.Name):
                out["cursor"], out["length"] = n.args[pi].id, n.args[ei].id
                f = S.enclosing_function(n)
                if f is not pl and isinstance(f, ast.FunctionDef):
                    out["skipper"] = f.name
    for n in ast.walk(pl):
        if isinstance(n, ast.While) and any(_is_blank_const(x) for x in ast.walk(n.test)):
            for c in ast.walk(n.test):
                if isinstance(c, ast.Compare) and len(c.ops) == 1 and isinstance(c.ops[0], ast.Lt) and isinstance(c.left, ast.Name) and isinstance(c.comparators[0], ast.Name):
                    out["cursor"], out["length"] = c.left.id, c.comparators[0].id
            f = S.enclosing_function(n)
            if f is not pl and isinstance(f, ast.FunctionDef):
                out["skipper"] = f.name
    for f in ast.walk(pl):
        if isinstance(f, ast.FunctionDef) and f is not pl and any(isinstance(a, ast.Attribute) and isinstance(a.ctx, ast.Store) and a.attr == "_lineno" for a in ast.walk(f)):
            out["success"] = f.name
    for need in ("cursor", "length", "success"):
        if need not in out:
            raise AnalysisError(f"_handle_ppline: the {need} of the directive scanner was not found (scanner idiom changed)")
    out.setdefault("skipper", None)
    return out


def _word_with_symbol(dfa, sym):
    from collections import deque
    start = (dfa.start, False)
    seen = {start: None}
    dq = deque([start])
    while dq:
        cur = dq.popleft()
        q, has = cur
        if has and q in dfa.accepting:
            w = []
            while seen[cur] is not None:
                cur, s = seen[cur]
                w.append(s)
            return list(reversed(w))
        for s in range(dfa.n_syms):
            nq = dfa.step(q, s)
            if nq is None:
                continue
            nx = (nq, has or s == sym)
            if nx not in seen:
                seen[nx] = (cur, s)
                dq.append(nx)
    return None


def _line_start_sites(lx):
    """Every assignment to self._line_start, evaluated symbolically relative to the newline offset established in its block."""
    out = []
    for fname, fn in lx.methods("CLexer").items():
        if fname in ("_init_state", "__init__"):
            continue
        for n in ast.walk(fn):
            if isinstance(n, ast.Assign) and any(isinstance(t, ast.Attribute) and t.attr == "_line_start" for t in n.targets):
                blk, idx = _block_of(n)
                nlvar = _newline_var(n, fn)
                if nlvar is None:
                    out.append((fname, n, False, "a value with no newline offset in sight"))
                    continue
                # evaluate the statements of the block before n: track offsets of names relative to NL
                env = {nlvar: 0}
                # `end = n if nl == -1 else nl`: the sanitised copy of the find() result is the newline offset too (or the end of the text, where no line follows)
                encl_ = S.enclosing_function(n)
                for sc_ in ([encl_, fn] if encl_ is not None else [fn]):
                    for a_ in ast.walk(sc_):
                        if isinstance(a_, ast.Assign) and len(a_.targets) == 1 and isinstance(a_.targets[0], ast.Name) and isinstance(a_.value, ast.IfExp) \
                                and nlvar in (S.unparse(a_.value.body), S.unparse(a_.value.orelse)) and any(isinstance(x, ast.Name) and x.id == nlvar for x in ast.walk(a_.value.test)):
                            env.setdefault(a_.targets[0].id, 0)
                for st in blk[:idx]:
                    _sym_exec(st, env)
                val = _sym_eval(n.value, env)
                out.append((fname, n, val == 1, f"newline offset {val:+d}" if isinstance(val, int) else "an unrelated value"))
    return out


def _block_of(node):
    par = getattr(node, "_parent", None)
    for field in ("body", "orelse", "finalbody"):
        blk = getattr(par, field, None)
        if isinstance(blk, list) and node in blk:
            return blk, blk.index(node)
    return [node], 0


def _newline_var(node, fn):
    """Expression text known to be the offset of a newline when `node` runs."""
    cur = node
    while cur is not None and cur is not fn:
        par = getattr(cur, "_parent", None)
        if isinstance(par, ast.match_case):
            pats = par.pattern.patterns if isinstance(par.pattern, ast.MatchOr) else [par.pattern]
            if any(isinstance(p, ast.MatchValue) and isinstance(p.value, ast.Constant) and p.value.value == "\n" for p in pats):
                subj = getattr(par, "_parent").subject
                if isinstance(subj, ast.Subscript):
                    return S.unparse(subj.slice)
        if isinstance(par, ast.If) and cur in par.body:
            for c in ast.walk(par.test):
                if isinstance(c, ast.Compare) and isinstance(c.left, ast.Subscript) and isinstance(c.comparators[0], ast.Constant) and c.comparators[0].value == "\n" and isinstance(c.ops[0], ast.Eq):
                    return S.unparse(c.left.slice)
        cur = par
    # text.find("\n", ...) result
    target = fn
    encl = S.enclosing_function(node)
    scopes = [encl, fn] if encl is not None else [fn]
    for sc in scopes:
        for a in ast.walk(sc):
            if isinstance(a, ast.Assign) and isinstance(a.value, ast.Call) and getattr(a.value.func, "attr", "") == "find" and a.value.args and isinstance(a.value.args[0], ast.Constant) and a.value.args[0].value == "\n":
                return S.unparse(a.targets[0])
    return None


def _sym_eval(e, env):
    txt = S.unparse(e)
    if txt in env:
        return env[txt]
    if isinstance(e, ast.BinOp) and isinstance(e.op, (ast.Add, ast.Sub)):
        l, r = _sym_eval(e.left, env), _sym_eval(e.right, env)
        if isinstance(l, int) and isinstance(r, tuple) or isinstance(l, tuple):
            return None
        if isinstance(e.right, ast.Constant) and isinstance(e.right.value, int) and isinstance(l, int):
            return l + e.right.value if isinstance(e.op, ast.Add) else l - e.right.value
        return None
    return None


def _sym_exec(st, env):
    if isinstance(st, ast.AugAssign):
        t = S.unparse(st.target)
        if t in env and isinstance(st.value, ast.Constant) and isinstance(st.value.value, int) and isinstance(env[t], int):
            env[t] = env[t] + st.value.value if isinstance(st.op, ast.Add) else env[t] - st.value.value
        elif t in env:
            env[t] = None
    elif isinstance(st, ast.Assign):
        v = _sym_eval(st.value, env)
        for t in st.targets:
            env[S.unparse(t)] = v
    elif isinstance(st, (ast.If, ast.While, ast.For)):
        for n in ast.walk(st):
            if isinstance(n, (ast.Assign, ast.AugAssign)):
                for t in (n.targets if isinstance(n, ast.Assign) else [n.target]):
                    env[S.unparse(t)] = None


def _advanced_before(ret, fn):
    cur = ret
    while cur is not None and cur is not fn:
        blk, idx = _block_of(cur)
        for st in blk[:idx]:
            if isinstance(st, ast.AugAssign) and isinstance(st.target, ast.Attribute) and st.target.attr == "_pos" and isinstance(st.op, ast.Add):
                return True
        cur = getattr(cur, "_parent", None)
        # do not leave the branch of a match / if into sibling code that does not dominate
    return False


def _dominated_by_end_test(call, fn, cursor="pos", length="line_len"):
    cur = call
    while cur is not None and cur is not fn:
        par = getattr(cur, "_parent", None)
        if isinstance(par, ast.If) and cur in par.body and _is_end_test(par.test, cursor, length):
            return True
        # `break` out of the flag loop under the end test, followed by success after the loop
        blk, idx = _block_of(cur)
        # ... or a loop `while pos < line_len:` without break just before: leaving it means the end of the line was reached
        prev = blk[idx - 1] if idx > 0 else None
        if isinstance(prev, ast.While) and _is_not_end_test(prev.test, cursor, length) and not prev.orelse \
                and not any(isinstance(x, ast.Break) for x in ast.walk(prev)):
            return True
        for st in blk[:idx]:
            if isinstance(st, ast.While):
                for b in ast.walk(st):
                    if isinstance(b, ast.Break):
                        g = getattr(b, "_parent", None)
                        if isinstance(g, ast.If) and _is_end_test(g.test, cursor, length):
                            only = [x for x in ast.walk(st) if isinstance(x, ast.Break)]
                            if len(only) == 1:
                                return True
        cur = par
    return False
