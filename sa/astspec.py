"""E4 - node-class models: the declarative spec (_c_ast.cfg) and the class shapes found in c_ast.py."""
from __future__ import annotations

import ast
import os

from . import srcmodel as S
from .core import PKG, AnalysisError


def parse_cfg(path=None):
    """Independent reader of the three-kind entry syntax: returns [(class, [(entry, kind)])] in file order."""
    path = path or os.path.join(PKG, "_c_ast.cfg")
    if not os.path.exists(path):
        raise AnalysisError(f"anchor {path} vanished")
    out = []
    with open(path) as f:
        for lineno, raw in enumerate(f, 1):
            line = raw.split("#", 1)[0].strip()
            if not line:
                continue
            if ":" not in line or "[" not in line or "]" not in line:
                raise AnalysisError(f"{path}:{lineno}: unreadable specification line {raw!r}")
            name, rest = line.split(":", 1)
            body = rest[rest.index("[") + 1: rest.rindex("]")]
            entries = []
            for e in [x.strip() for x in body.split(",")] if body.strip() else []:
                if e.endswith("**"):
                    entries.append((e[:-2], "seq"))
                elif e.endswith("*"):
                    entries.append((e[:-1], "child"))
                else:
                    entries.append((e, "attr"))
            out.append((name.strip(), entries, lineno))
    return out


class ClassModel:
    def __init__(self, node: ast.ClassDef):
        self.node = node
        self.name = node.name
        self.bases = [S.unparse(b) for b in node.bases]
        self.slots = None
        self.attr_names = None
        self.methods = {}
        self.other = []
        for st in node.body:
            if isinstance(st, (ast.FunctionDef, ast.AsyncFunctionDef)):
                self.methods[st.name] = st
            elif isinstance(st, ast.Assign) and len(st.targets) == 1 and isinstance(st.targets[0], ast.Name):
                n = st.targets[0].id
                if n == "__slots__":
                    self.slots = _const_seq(st.value)
                elif n == "attr_names":
                    self.attr_names = _const_seq(st.value)
                else:
                    self.other.append(n)
            elif isinstance(st, ast.AnnAssign) and isinstance(st.target, ast.Name):
                if st.target.id == "attr_names" and st.value is not None:
                    self.attr_names = _const_seq(st.value)
                else:
                    self.other.append(st.target.id)
            elif isinstance(st, ast.Expr) and isinstance(st.value, ast.Constant):
                pass
            elif isinstance(st, ast.Pass):
                pass
            else:
                self.other.append(type(st).__name__)

    # -- __init__ ----------------------------------------------------
    def init_model(self):
        """(params, coord_default_is_None, assignments[(slot, value_name)], extras)"""
        m = self.methods.get("__init__")
        if m is None:
            return None
        a = m.args
        params = [x.arg for x in a.posonlyargs + a.args][1:]
        defaults = dict(zip(reversed(params), reversed(a.defaults)))
        assigns, extras = [], []
        selfname = a.args[0].arg if a.args else "self"
        for st in m.body:
            if isinstance(st, ast.Expr) and isinstance(st.value, ast.Constant):
                continue
            if (isinstance(st, ast.Assign) and len(st.targets) == 1 and isinstance(st.targets[0], ast.Attribute)
                    and isinstance(st.targets[0].value, ast.Name) and st.targets[0].value.id == selfname
                    and isinstance(st.value, ast.Name)):
                assigns.append((st.targets[0].attr, st.value.id))
            else:
                extras.append(S.unparse(st))
        return params, defaults, assigns, extras, bool(a.vararg or a.kwarg or a.kwonlyargs)

    # -- children() / __iter__ -----------------------------------------
    def emission_model(self, which):
        """Sequence of ('child', name, label) / ('seq', name, label_format) emitted in order, or raises."""
        m = self.methods.get(which)
        if m is None:
            return None
        selfname = m.args.args[0].arg
        out = []
        acc = None
        returned = None
        body = [st for st in m.body if not (isinstance(st, ast.Expr) and isinstance(st.value, ast.Constant))]
        is_iter = which == "__iter__"
        i = 0
        while i < len(body):
            st = body[i]
            i += 1
            # nodelist = []
            if not is_iter and isinstance(st, ast.Assign) and len(st.targets) == 1 and isinstance(st.targets[0], ast.Name) and isinstance(st.value, ast.List) and not st.value.elts:
                acc = st.targets[0].id
                continue
            if isinstance(st, ast.If) and not st.orelse:
                name = _is_not_none_test(st.test, selfname)
                if name is None:
                    raise AnalysisError(f"{self.name}.{which}: guard `{S.unparse(st.test)}` is not of the form self.X is not None")
                def under(stmts, guard_name, outer):
                    for inner in stmts:
                        if isinstance(inner, ast.If) and not inner.orelse and _is_not_none_test(inner.test, selfname) is not None:
                            # an emission nested under the guard of ANOTHER field: recorded as such (it is not the specified shape)
                            under(inner.body, _is_not_none_test(inner.test, selfname), outer + (guard_name,))
                            continue
                        em = self._emit(inner, selfname, acc, is_iter)
                        if em is None or em[1] != ("self", guard_name):
                            raise AnalysisError(f"{self.name}.{which}: unexpected statement under guard: {S.unparse(inner)}")
                        out.append(("child", guard_name, em[0]) if not outer else ("child-only-if", guard_name, em[0], outer))
                under(st.body, name, ())
                continue
            if isinstance(st, ast.For) and not st.orelse:
                seq, tolerant, loopvars = _seq_iter(st, selfname)
                if seq is None:
                    raise AnalysisError(f"{self.name}.{which}: loop `{S.unparse(st.iter)}` is not over self.X / (self.X or []) / enumerate(...)")
                for inner in st.body:
                    em = self._emit(inner, selfname, acc, is_iter)
                    if em is None or em[1] != ("loopvar", loopvars[-1]):
                        raise AnalysisError(f"{self.name}.{which}: unexpected statement in loop: {S.unparse(inner)}")
                    out.append(("seq", seq, em[0], tolerant))
                continue
            if isinstance(st, ast.Return):
                returned = st.value
                rest = body[i:]
                if is_iter and returned is None and len(rest) == 1 and isinstance(rest[0], ast.Expr) and isinstance(rest[0].value, ast.Yield):
                    i = len(body)   # the `return; yield` empty-generator idiom
                    continue
                if rest:
                    raise AnalysisError(f"{self.name}.{which}: statements after return")
                continue
            em = self._emit(st, selfname, acc, is_iter)
            if em is not None and em[1][0] == "self":
                out.append(("child-unguarded", em[1][1], em[0]))
                continue
            raise AnalysisError(f"{self.name}.{which}: statement outside the recognised emission forms: {S.unparse(st)}")
        if not is_iter:
            ok = False
            if returned is not None:
                if isinstance(returned, ast.Tuple) and not returned.elts and not out:
                    ok = True
                if (isinstance(returned, ast.Call) and isinstance(returned.func, ast.Name) and returned.func.id in ("tuple", "list")
                        and len(returned.args) == 1 and isinstance(returned.args[0], ast.Name) and returned.args[0].id == acc):
                    ok = True
                if isinstance(returned, ast.Name) and returned.id == acc:
                    ok = True
            if not ok:
                raise AnalysisError(f"{self.name}.children: does not return the accumulated list")
        return out

    def _emit(self, st, selfname, acc, is_iter):
        """Recognise one emission: returns (label, valueref) with valueref ('self', X) or ('loopvar', v)."""
        if is_iter:
            if isinstance(st, ast.Expr) and isinstance(st.value, ast.Yield) and st.value.value is not None:
                return (None, _valref(st.value.value, selfname))
            return None
        if (isinstance(st, ast.Expr) and isinstance(st.value, ast.Call) and isinstance(st.value.func, ast.Attribute)
                and st.value.func.attr == "append" and isinstance(st.value.func.value, ast.Name) and st.value.func.value.id == acc
                and len(st.value.args) == 1 and isinstance(st.value.args[0], ast.Tuple) and len(st.value.args[0].elts) == 2):
            lab, val = st.value.args[0].elts
            return (_label(lab), _valref(val, selfname))
        return None


def _valref(e, selfname):
    if isinstance(e, ast.Attribute) and isinstance(e.value, ast.Name) and e.value.id == selfname:
        return ("self", e.attr)
    if isinstance(e, ast.Name):
        return ("loopvar", e.id)
    return ("?", S.unparse(e))


def _label(e):
    """Label expression as a format: 'name' or 'name[{}]' with the index variable checked by the caller."""
    if isinstance(e, ast.Constant) and isinstance(e.value, str):
        return ("const", e.value)
    if isinstance(e, ast.JoinedStr):
        fmt = ""
        vars_ = []
        for p in e.values:
            if isinstance(p, ast.Constant):
                fmt += p.value
            elif isinstance(p, ast.FormattedValue) and isinstance(p.value, ast.Name) and p.conversion == -1 and p.format_spec is None:
                fmt += "{}"
                vars_.append(p.value.id)
            else:
                return ("?", S.unparse(e))
        return ("fmt", fmt, tuple(vars_))
    if isinstance(e, ast.BinOp) and isinstance(e.op, ast.Mod) and isinstance(e.left, ast.Constant) and isinstance(e.left.value, str):
        args = e.right.elts if isinstance(e.right, ast.Tuple) else [e.right]
        if all(isinstance(a, ast.Name) for a in args) and e.left.value.count("%d") == len(args):
            return ("fmt", e.left.value.replace("%d", "{}"), tuple(a.id for a in args))
    return ("?", S.unparse(e))


def _is_not_none_test(t, selfname):
    if (isinstance(t, ast.Compare) and len(t.ops) == 1 and isinstance(t.ops[0], ast.IsNot)
            and isinstance(t.comparators[0], ast.Constant) and t.comparators[0].value is None):
        v = _valref(t.left, selfname)
        if v[0] == "self":
            return v[1]
    return None


def _seq_iter(st: ast.For, selfname):
    """(seq_name, tolerant_of_None, loopvars) for `for [i,] child in [enumerate](self.X [or []])`."""
    it = st.iter
    loopvars = [n.id for n in ([st.target] if isinstance(st.target, ast.Name) else getattr(st.target, "elts", [])) if isinstance(n, ast.Name)]
    enumerated = False
    if isinstance(it, ast.Call) and isinstance(it.func, ast.Name) and it.func.id == "enumerate" and len(it.args) == 1:
        it = it.args[0]
        enumerated = True
    tolerant = False
    if isinstance(it, ast.BoolOp) and isinstance(it.op, ast.Or) and len(it.values) == 2 and isinstance(it.values[1], (ast.List, ast.Tuple)) and not it.values[1].elts:
        it = it.values[0]
        tolerant = True
    v = _valref(it, selfname)
    if v[0] != "self":
        return None, False, loopvars
    if enumerated and len(loopvars) != 2:
        return None, False, loopvars
    if not enumerated and len(loopvars) != 1:
        return None, False, loopvars
    return v[1], tolerant, loopvars


def _const_seq(e):
    if isinstance(e, (ast.Tuple, ast.List)) and all(isinstance(x, ast.Constant) and isinstance(x.value, str) for x in e.elts):
        return tuple(x.value for x in e.elts)
    return None


def class_models():
    mod = S.module("c_ast")
    return mod, {name: ClassModel(c) for name, c in mod.classes.items()}


def strip_docstrings(node):
    """ast.dump of a def/class with docstrings removed (for sibling comparison)."""
    import copy
    n = copy.deepcopy(node)
    for sub in ast.walk(n):
        if isinstance(sub, (ast.FunctionDef, ast.ClassDef, ast.Module)) and sub.body and isinstance(sub.body[0], ast.Expr) and isinstance(sub.body[0].value, ast.Constant) and isinstance(sub.body[0].value.value, str):
            sub.body = sub.body[1:] or [ast.Pass()]
    for sub in ast.walk(n):
        if isinstance(sub, ast.ClassDef):
            sub.body = [s for s in sub.body if not (isinstance(s, ast.Expr) and isinstance(s.value, ast.Constant) and isinstance(s.value.value, str))] or [ast.Pass()]
    return ast.dump(n, annotate_fields=True, include_attributes=False)
