"""vcheck selftest - tests the checkers both ways on scratch copies of /repo's working tree (never on /repo itself).

 breaking variants : every seeded change under seeded/<id>/patch.diff is applied to a scratch copy; the property's own check
                     must exit 1 with a VIOLATION line (and must not end in ANALYSIS-ERROR);
 silent variants   : behaviour-preserving rewrites of the whole package, and the refactorings under silent/ (each written by an independent
                     sub-agent and confirmed behaviour-preserving by the repository's tests and a behaviour digest); every check must still exit 0:
                       reformat   - every module re-emitted by ast.unparse (all comments, blank lines, line breaks and string
                                    quoting change; every line number moves),
                       rename     - a local variable renamed consistently in selected functions,
                       addhelper  - an unused private helper and an unused import-free constant appended to every module;
 unchanged tree    : every check exits 0.
Scratch copies live under a fresh temporary directory that is removed at the end.
"""
from __future__ import annotations

import ast
import json
import os
import re
import shutil
import subprocess
import sys
import tempfile
from concurrent.futures import ThreadPoolExecutor

from .core import REPO, VERIF


def _copy_repo(dst):
    os.makedirs(dst)
    for sub in ("pycparser", "utils"):
        shutil.copytree(os.path.join(REPO, sub), os.path.join(dst, sub), ignore=shutil.ignore_patterns("__pycache__", "*.pyc"))


def _run(check, repo, tier="quick"):
    d = tempfile.mkdtemp(prefix="ev_", dir=os.path.dirname(repo))
    env = dict(os.environ, VERIF_REPO=repo, VERIF_EVIDENCE_DIR=os.path.join(d, "e"), VERIF_REPLAY_DIR=os.path.join(d, "r"), VERIF_TIER=tier)
    p = subprocess.run([os.path.join(VERIF, "bin", "vcheck"), check, "--tier", tier], cwd=VERIF, env=env, capture_output=True, text=True)
    shutil.rmtree(d, ignore_errors=True)
    return p.returncode, p.stdout


def _checks():
    with open(os.path.join(VERIF, "MANIFEST.json")) as f:
        return [c["property_id"] for c in json.load(f)["checks"]]


# ---- silent variants -----------------------------------------------------------------------------------------
def v_reformat(repo):
    for fn in sorted(os.listdir(os.path.join(repo, "pycparser"))):
        if fn.endswith(".py"):
            p = os.path.join(repo, "pycparser", fn)
            with open(p) as f:
                src = f.read()
            with open(p, "w") as f:
                f.write(ast.unparse(ast.parse(src)) + "\n")


class _Rename(ast.NodeTransformer):
    def __init__(self, old, new):
        self.old, self.new = old, new

    def visit_Name(self, n):
        if n.id == self.old:
            n.id = self.new
        return n

    def visit_arg(self, n):
        return n

    def _scoped(self, n):
        a = n.args
        bound = {x.arg for x in a.args + a.kwonlyargs + a.posonlyargs} | ({a.vararg.arg} if a.vararg else set()) | ({a.kwarg.arg} if a.kwarg else set())
        if self.old in bound:
            return n            # the name is a parameter of this nested scope: a different variable
        self.generic_visit(n)
        return n

    visit_FunctionDef = _scoped
    visit_Lambda = _scoped


RENAMES = [("c_parser.py", "_parse_binary_expression", "rhs", "right_operand"), ("c_parser.py", "_parse_direct_declarator", "name_tok", "ident"),
           ("c_parser.py", "_parse_selection_statement", "cond", "condition"), ("c_lexer.py", "_match_token", "best", "champion"),
           ("c_generator.py", "visit_Decl", "s", "text"), ("c_parser.py", "_parse_declaration_specifiers", "tok", "cur_tok"),
           ("c_parser.py", "_parse_array_decl_common", "dim_quals", "qualifiers"), ("ast_transforms.py", "fix_switch_cases", "new_compound", "regrouped")]


def v_rename(repo):
    by_file = {}
    for f, fn, old, new in RENAMES:
        by_file.setdefault(f, []).append((fn, old, new))
    for f, items in by_file.items():
        p = os.path.join(repo, "pycparser", f)
        with open(p) as fh:
            tree = ast.parse(fh.read())
        done = 0
        for node in ast.walk(tree):
            if isinstance(node, ast.FunctionDef):
                for fn, old, new in items:
                    if node.name == fn and any(isinstance(x, ast.Name) and x.id == old for x in ast.walk(node)) and not any(a.arg == old for a in node.args.args):
                        _Rename(old, new).generic_visit(node)
                        done += 1
        if done == 0:
            raise RuntimeError(f"rename variant: nothing renamed in {f}")
        with open(p, "w") as fh:
            fh.write(ast.unparse(tree) + "\n")


def v_addhelper(repo):
    for fn in ("c_parser.py", "c_lexer.py", "c_generator.py", "ast_transforms.py", "c_ast.py"):
        p = os.path.join(repo, "pycparser", fn)
        with open(p, "a") as f:
            f.write("\n\n_SELFTEST_UNUSED = (1, 2, 3)\n\n\ndef _selftest_unused_helper(x):\n    y = [x]\n    y.append(x)\n    return tuple(y)\n")


class _RenameAll(ast.NodeTransformer):
    def __init__(self, names):
        self.names = names

    def visit_Name(self, n):
        if n.id in self.names:
            n.id = n.id + "_r"
        return n

    def visit_Nonlocal(self, n):
        n.names = [x + "_r" if x in self.names else x for x in n.names]
        return n

    def visit_MatchAs(self, n):
        self.generic_visit(n)
        if n.name in self.names:
            n.name = n.name + "_r"
        return n

    def visit_ExceptHandler(self, n):
        self.generic_visit(n)
        if n.name in self.names:
            n.name = n.name + "_r"
        return n


def _locals_of(fn):
    def params(f):
        a = f.args
        return {x.arg for x in a.args + a.kwonlyargs + a.posonlyargs} | ({a.vararg.arg} if a.vararg else set()) | ({a.kwarg.arg} if a.kwarg else set())
    bound, banned = set(), set(params(fn))
    for n in ast.walk(fn):
        if isinstance(n, ast.Name) and isinstance(n.ctx, ast.Store):
            bound.add(n.id)
        elif isinstance(n, (ast.FunctionDef, ast.Lambda)) and n is not fn:
            banned |= params(n)
            if isinstance(n, ast.FunctionDef):
                banned.add(n.name)
        elif isinstance(n, ast.Global):
            banned |= set(n.names)
        elif isinstance(n, ast.MatchAs) and n.name:
            bound.add(n.name)
        elif isinstance(n, ast.ExceptHandler) and n.name:
            bound.add(n.name)
    return {b for b in bound - banned if not b.startswith("__")}


def v_renameall(repo):
    """every local variable of every function / method of the parser, lexer, generator and transforms gets a new name"""
    total = 0
    for f in ("c_parser.py", "c_lexer.py", "c_generator.py", "ast_transforms.py"):
        p = os.path.join(repo, "pycparser", f)
        with open(p) as fh:
            tree = ast.parse(fh.read())
        tops = [n for n in tree.body if isinstance(n, ast.FunctionDef)] + [m for c in tree.body if isinstance(c, ast.ClassDef) for m in c.body if isinstance(m, ast.FunctionDef)]
        for fn in tops:
            names = _locals_of(fn)
            if names:
                total += len(names)
                _RenameAll(names).generic_visit(fn)
        with open(p, "w") as fh:
            fh.write(ast.unparse(tree) + "\n")
    if total < 200:
        raise RuntimeError(f"renameall variant renamed only {total} locals")


SILENT = {"reformat": v_reformat, "rename": v_rename, "addhelper": v_addhelper, "renameall": v_renameall}


def main(a) -> int:
    jobs = getattr(a, "jobs", 16)
    only = set(getattr(a, "rest", []) or [])
    root = tempfile.mkdtemp(prefix="verif_selftest_")
    checks = _checks()
    failures = []
    tasks = []
    try:
        # unchanged tree
        if not only or "clean" in only:
            for c in checks:
                tasks.append(("clean", c, REPO, 0))
        # silent variants
        for name, fn in SILENT.items():
            if only and name not in only:
                continue
            repo = os.path.join(root, "silent_" + name)
            _copy_repo(repo)
            fn(repo)
            for sub in ("tests", "examples"):
                if os.path.isdir(os.path.join(REPO, sub)):
                    shutil.copytree(os.path.join(REPO, sub), os.path.join(repo, sub), ignore=shutil.ignore_patterns("__pycache__", "*.pyc"))
            r = subprocess.run(["/venv/bin/python", "-m", "pytest", "-q", "-x", "-p", "no:cacheprovider", "tests"], cwd=repo, capture_output=True, text=True)
            tail = (r.stdout.strip().splitlines() or [""])[-1]
            print(f"variant {name}: the repository's own test suite on the variant: {tail}", flush=True)
            if r.returncode:
                failures.append(f"silent variant {name} is not behaviour preserving (its test suite fails): {tail}")
                continue
            for c in checks:
                tasks.append(("silent:" + name, c, repo, 0))
        # behaviour-preserving refactorings written by independent sub-agents (silent/<id>/patch.diff): every check must stay silent
        rdir = os.path.join(VERIF, "silent")
        for rid in sorted(os.listdir(rdir)) if os.path.isdir(rdir) else []:
            pd = os.path.join(rdir, rid, "patch.diff")
            if not os.path.isfile(pd) or (only and "refactorings" not in only and rid not in only):
                continue
            repo = os.path.join(root, "refac_" + rid)
            _copy_repo(repo)
            r = subprocess.run(["patch", "-p1", "-s", "--no-backup-if-mismatch", "-i", pd], cwd=repo, capture_output=True, text=True)
            if r.returncode:
                failures.append(f"refactoring {rid}: patch does not apply to the current tree: {r.stdout[-200:]}")
                continue
            for c in checks:
                tasks.append(("refactor:" + rid, c, repo, 0))
        # breaking variants
        sdir = os.path.join(VERIF, "seeded")
        for sid in sorted(os.listdir(sdir)):
            pd = os.path.join(sdir, sid, "patch.diff")
            if not os.path.isfile(pd) or (only and "seeds" not in only and sid not in only):
                continue
            repo = os.path.join(root, "seed_" + sid)
            _copy_repo(repo)
            r = subprocess.run(["patch", "-p1", "-s", "--no-backup-if-mismatch", "-i", pd], cwd=repo, capture_output=True, text=True)
            if r.returncode:
                failures.append(f"seed {sid}: patch does not apply to the current tree: {r.stdout[-200:]}")
                continue
            with open(os.path.join(sdir, sid, "meta.json")) as f:
                own = json.load(f)["breaks_property"]
            tasks.append(("seed:" + sid, own, repo, 1))

        try:
            with open(os.path.join(VERIF, "silent", "KNOWN_LIMITS.json")) as f:
                limits = {k: set(v["checks"]) for k, v in json.load(f).items() if not k.startswith("_")}
        except FileNotFoundError:
            limits = {}
        known_limit_hits = []

        def work(t):
            kind, c, repo, want = t
            rc, out = _run(c, repo)
            return t, rc, out
        with ThreadPoolExecutor(jobs) as ex:
            for (kind, c, repo, want), rc, out in ex.map(work, tasks):
                ok = rc == want and (want == 0 or re.search(r"^VIOLATION property=%s " % c, out, re.M))
                if not ok and kind.startswith("refactor:") and c in limits.get(kind.split(":", 1)[1], ()):
                    known_limit_hits.append((kind, c, rc))
                    print(f"lim  {kind:22s} {c} rc={rc} (known limit: silent/KNOWN_LIMITS.json)", flush=True)
                    continue
                line = f"{'ok  ' if ok else 'FAIL'} {kind:22s} {c} rc={rc} (expected {want})"
                if kind == "clean" and ok:
                    # every finding listed in known_findings.json for this property is still reported (a listed finding that silently stops being
                    # reported - without a "fixed:" entry - means a rule has lost its grip, not that the defect is gone)
                    with open(os.path.join(VERIF, "known_findings.json")) as f_:
                        listed = {(k_["rule"], k_["key"]) for k_ in json.load(f_)["findings"] if k_["property"] == c}
                    printed = set(re.findall(r"^KNOWN-FINDING: property=%s (\S+) (.+?): " % c, out, re.M))
                    gone = sorted(l for l in listed if not any(l[0] == p_[0] and p_[1].startswith(l[1][:60]) for p_ in printed))
                    if gone:
                        ok = False
                        line = f"FAIL {kind:22s} {c} listed known findings no longer reported: {gone[:3]}"
                        print(line, flush=True)
                        failures.append(line)
                        continue
                if kind.startswith("seed:") and ok:
                    rules = sorted(set(re.findall(r"^\[%s\] (R-[A-Z0-9.]+)" % c, out, re.M)))
                    line += " rules=" + ",".join(rules)
                print(line, flush=True)
                if not ok:
                    tail = [l for l in out.splitlines() if l.startswith(("VIOLATION", "ANALYSIS-ERROR", f"[{c}] R-"))][:4]
                    failures.append(line + " :: " + " | ".join(x[:200] for x in tail))
    finally:
        shutil.rmtree(root, ignore_errors=True)
    print(f"selftest: {len(tasks)} runs, {len(failures)} failures, {len(known_limit_hits)} alarms on refactorings listed as known limits")
    for f in failures:
        print("  " + f)
    return 1 if failures else 0
