"""Reference grammar for R-C01.3: independent transcription of ISO/IEC 9899:1999 Annex A.2 (plus the C11
productions pycparser documents) over pycparser's token-type names, left recursion eliminated
(A -> A x | y  becomes  y x*).  Not derived from the `# BNF:` comments of c_parser.py.

Notation: UPPERCASE = token type, lowercase = nonterminal, X? X* X+, ( a | b ), alternatives separated by |.
IDX stands for an identifier in a position where a name that is currently a typedef name may legally appear
(tags, members, labels, enumerators: the lexer then delivers TYPEID); it expands to ID | TYPEID.
"""
from __future__ import annotations

import re
from collections import deque

from .core import AnalysisError

GRAMMAR_TEXT = r"""
translation_unit      : external_declaration+
external_declaration  : function_definition | declaration | pragma
function_definition   : declaration_specifiers func_declarator compound_statement
                      | declaration_specifiers knr_declarator knr_declaration+ compound_statement
knr_declaration       : declaration_specifiers init_declarator_list SEMI
func_declarator       : pointer? func_direct
func_direct           : ID function_suffix | LPAREN ID RPAREN function_suffix | LPAREN pointer func_direct RPAREN function_suffix
knr_declarator        : pointer? ID LPAREN identifier_list RPAREN
declaration           : declaration_specifiers init_declarator_list SEMI
                      | tag_declaration SEMI
                      | static_assert SEMI
tag_declaration       : nontype_spec* tag_specifier nontype_spec*
tag_specifier         : ( STRUCT | UNION ) IDX ( LBRACE struct_declaration+ RBRACE )?
                      | ENUM IDX ( LBRACE enumerator_list COMMA? RBRACE )?
                      | ENUM LBRACE enumerator_list COMMA? RBRACE
static_assert         : _STATIC_ASSERT LPAREN constant_expression ( COMMA string )? RPAREN
declaration_specifiers: nontype_spec* type_core nontype_spec*
nontype_spec          : storage | type_qualifier | function_spec | alignment_spec
storage               : TYPEDEF | EXTERN | STATIC | AUTO | REGISTER | _THREAD_LOCAL
function_spec         : INLINE | _NORETURN
type_qualifier        : CONST | RESTRICT | VOLATILE | _ATOMIC_Q
type_core             : builtin_seq | TYPEID | struct_or_union_specifier | enum_specifier | _ATOMIC LPAREN type_name RPAREN
builtin_seq           : VOID | CHAR | SIGNED CHAR | UNSIGNED CHAR | SHORT | SHORT INT | UNSIGNED SHORT | INT | SIGNED | UNSIGNED
                      | UNSIGNED INT | LONG | LONG INT | UNSIGNED LONG | LONG LONG | LONG LONG INT | UNSIGNED LONG LONG INT
                      | FLOAT | DOUBLE | LONG DOUBLE | _BOOL | FLOAT _COMPLEX | DOUBLE _COMPLEX | LONG DOUBLE _COMPLEX
                      | __INT128 | UNSIGNED __INT128 | LONG type_qualifier INT | INT UNSIGNED
alignment_spec        : _ALIGNAS LPAREN ( type_name | constant_expression ) RPAREN
init_declarator_list  : init_declarator ( COMMA init_declarator )*
init_declarator       : declarator ( EQUALS initializer )?
struct_or_union_specifier : ( STRUCT | UNION ) IDX? LBRACE struct_declaration+ RBRACE
                      | ( STRUCT | UNION ) IDX
struct_declaration    : member_specifiers struct_declarator_list SEMI
                      | type_qualifier* anon_su type_qualifier* SEMI
                      | static_assert SEMI
                      | pragma
member_specifiers     : member_nontype* type_core member_nontype*
member_nontype        : type_qualifier | alignment_spec
anon_su               : ( STRUCT | UNION ) LBRACE struct_declaration+ RBRACE
struct_declarator_list: struct_declarator ( COMMA struct_declarator )*
struct_declarator     : declarator | declarator? COLON constant_expression
enum_specifier        : ENUM IDX? LBRACE enumerator_list COMMA? RBRACE | ENUM IDX
enumerator_list       : enumerator ( COMMA enumerator )*
enumerator            : IDX ( EQUALS constant_expression )?
declarator            : pointer? direct_declarator
pointer               : ( TIMES type_qualifier* )+
direct_declarator     : ( ID | TYPEID | LPAREN declarator RPAREN ) ( array_suffix | function_suffix )*
array_suffix          : LBRACKET type_qualifier* assignment_expression? RBRACKET
                      | LBRACKET STATIC type_qualifier* assignment_expression RBRACKET
                      | LBRACKET type_qualifier+ STATIC assignment_expression RBRACKET
                      | LBRACKET type_qualifier* TIMES RBRACKET
function_suffix       : LPAREN ( parameter_type_list | identifier_list )? RPAREN
identifier_list       : ID ( COMMA ID )*
parameter_type_list   : parameter_declaration ( COMMA parameter_declaration )* ( COMMA ELLIPSIS )?
parameter_declaration : param_specifiers ( declarator | abstract_declarator )?
param_specifiers      : param_nontype* type_core type_qualifier*
param_nontype         : type_qualifier | REGISTER
type_name             : type_qualifier* type_core type_qualifier* abstract_declarator?
abstract_declarator   : pointer | pointer? direct_abstract_declarator
direct_abstract_declarator : ( LPAREN abstract_declarator RPAREN | array_suffix | LPAREN parameter_type_list? RPAREN )
                        ( array_suffix | LPAREN parameter_type_list? RPAREN )*
initializer           : assignment_expression | LBRACE initializer_list COMMA? RBRACE
initializer_list      : designation? initializer ( COMMA designation? initializer )*
designation           : designator+ EQUALS
designator            : LBRACKET constant_expression RBRACKET | PERIOD IDX

statement             : labeled_statement | compound_statement | expression_statement | selection_statement
                      | iteration_statement | jump_statement
substatement          : pragma* statement
labeled_statement     : IDX COLON substatement
compound_statement    : LBRACE block_item* RBRACE
block_item            : declaration | statement | pragma
expression_statement  : expression? SEMI
selection_statement   : IF LPAREN expression RPAREN substatement ( ELSE substatement )?
                      | SWITCH LPAREN expression RPAREN switch_body
switch_body           : LBRACE switch_item* RBRACE | substatement
switch_item           : CASE constant_expression COLON substatement | DEFAULT COLON substatement | block_item
iteration_statement   : WHILE LPAREN expression RPAREN substatement
                      | DO substatement WHILE LPAREN expression RPAREN SEMI
                      | FOR LPAREN expression? SEMI expression? SEMI expression? RPAREN substatement
                      | FOR LPAREN for_declaration expression? SEMI expression? RPAREN substatement
for_declaration       : declaration_specifiers init_declarator_list SEMI
jump_statement        : GOTO IDX SEMI | CONTINUE SEMI | BREAK SEMI | RETURN expression? SEMI
pragma                : PPPRAGMA PPPRAGMASTR? | _PRAGMA LPAREN STRING_LITERAL+ RPAREN

expression            : assignment_expression ( COMMA assignment_expression )*
assignment_expression : conditional_expression | unary_expression assign_op assignment_expression
assign_op             : EQUALS | TIMESEQUAL | DIVEQUAL | MODEQUAL | PLUSEQUAL | MINUSEQUAL | LSHIFTEQUAL | RSHIFTEQUAL | ANDEQUAL | XOREQUAL | OREQUAL
conditional_expression: binary_expression ( CONDOP expression COLON conditional_expression )?
constant_expression   : conditional_expression
binary_expression     : cast_expression ( binop cast_expression )*
binop                 : TIMES | DIVIDE | MOD | PLUS | MINUS | LSHIFT | RSHIFT | LT | GT | LE | GE | EQ | NE | AND | XOR | OR | LAND | LOR
cast_expression       : ( LPAREN type_name RPAREN )* unary_expression
unary_expression      : postfix_expression | ( PLUSPLUS | MINUSMINUS ) unary_expression
                      | ( AND | TIMES | PLUS | MINUS | NOT | LNOT ) cast_expression
                      | SIZEOF unary_expression | SIZEOF LPAREN type_name RPAREN | _ALIGNOF LPAREN type_name RPAREN
postfix_expression    : ( primary_expression | compound_literal ) postfix_suffix*
compound_literal      : LPAREN type_name RPAREN LBRACE initializer_list COMMA? RBRACE
postfix_suffix        : LBRACKET expression RBRACKET | LPAREN ( assignment_expression ( COMMA assignment_expression )* )? RPAREN
                      | ( PERIOD | ARROW ) IDX | PLUSPLUS | MINUSMINUS
primary_expression    : ID | constant | string | LPAREN expression RPAREN
                      | OFFSETOF LPAREN type_name COMMA IDX ( PERIOD IDX | LBRACKET expression RBRACKET )* RPAREN
constant              : INT_CONST_DEC | INT_CONST_OCT | INT_CONST_HEX | INT_CONST_BIN | INT_CONST_CHAR | FLOAT_CONST | HEX_FLOAT_CONST
                      | CHAR_CONST | WCHAR_CONST | U8CHAR_CONST | U16CHAR_CONST | U32CHAR_CONST
string                : STRING_LITERAL+ | widestr+ | STRING_LITERAL widestr | widestr STRING_LITERAL
widestr               : WSTRING_LITERAL | U8STRING_LITERAL | U16STRING_LITERAL | U32STRING_LITERAL
IDX                   : ID | TYPEID
"""

# Constraints of C that are not context-free but restrict which sentences are *valid*; sentences violating them are not
# generated (they are not required to be accepted):
#  * 6.7.2p2: at most one TYPEID in a specifier list and no TYPEID after another type specifier (otherwise `T x;` is ambiguous)
#  * a declaration without declarator must declare a tag (or be a static assertion)
#  * storage-class `typedef` with a function body is not a function definition


def finish(sent):
    """Resolve reference-only pseudo terminals; None when the sentence is not valid C.
    _ATOMIC_Q is `_Atomic` used as a type qualifier: C11 6.7.2.4p4 - followed by '(' it is always a type specifier."""
    out = []
    for i, t in enumerate(sent):
        if t == "_ATOMIC_Q":
            if i + 1 < len(sent) and sent[i + 1] == "LPAREN":
                return None
            out.append("_ATOMIC")
        else:
            out.append(t)
    return tuple(out)


class Ref:
    def __init__(self, text=GRAMMAR_TEXT):
        self.rules = {}
        cur = None
        buf = ""
        for line in text.splitlines():
            if not line.strip():
                continue
            m = re.match(r"^([A-Za-z_][A-Za-z_0-9]*)\s*:(.*)$", line)
            if m and not line.startswith(" "):
                if cur:
                    self.rules[cur] = self._parse_alts(buf)
                cur, buf = m.group(1), m.group(2)
            else:
                buf += " " + line.strip()
        if cur:
            self.rules[cur] = self._parse_alts(buf)
        self.terminals = set()
        for alts in self.rules.values():
            for a in alts:
                self._collect(a)
        self._min = None

    # --- EBNF parsing into trees: ('seq',[..]) ('alt',[..]) ('opt',x) ('star',x) ('plus',x) ('t',TOK) ('n',name)
    def _parse_alts(self, s):
        toks = re.findall(r"[A-Za-z_][A-Za-z_0-9]*|[()|?*+]", s)
        pos = [0]

        def alt():
            items = [seq()]
            while pos[0] < len(toks) and toks[pos[0]] == "|":
                pos[0] += 1
                items.append(seq())
            return items

        def seq():
            out = []
            while pos[0] < len(toks) and toks[pos[0]] not in ("|", ")"):
                out.append(post())
            return ("seq", out)

        def post():
            a = atom()
            while pos[0] < len(toks) and toks[pos[0]] in "?*+":
                a = ({"?": "opt", "*": "star", "+": "plus"}[toks[pos[0]]], a)
                pos[0] += 1
            return a

        def atom():
            t = toks[pos[0]]
            pos[0] += 1
            if t == "(":
                items = alt()
                if toks[pos[0]] != ")":
                    raise AnalysisError("reference grammar: missing )")
                pos[0] += 1
                return ("alt", items) if len(items) > 1 else items[0]
            if t.isupper() or (t.startswith("_") and t[1:2].isupper()) or t.startswith("__"):
                if t == "IDX":
                    return ("n", "IDX")
                return ("t", t)
            return ("n", t)
        res = alt()
        if pos[0] != len(toks):
            raise AnalysisError("reference grammar: trailing text " + " ".join(toks[pos[0]:]))
        return res

    def _collect(self, n):
        if n[0] == "t":
            self.terminals.add(n[1])
        elif n[0] in ("seq", "alt"):
            for x in n[1]:
                self._collect(x)
        elif n[0] in ("opt", "star", "plus"):
            self._collect(n[1])

    # --- shortest expansions ------------------------------------------------
    def min_words(self):
        """Shortest terminal word of every nonterminal (fixpoint)."""
        if self._min is not None:
            return self._min
        best = {}
        changed = True
        while changed:
            changed = False
            for name, alts in self.rules.items():
                for a in alts:
                    w = self._min_of(a, best)
                    if w is not None and (name not in best or len(w) < len(best[name])):
                        best[name] = w
                        changed = True
        missing = set(self.rules) - set(best)
        if missing:
            raise AnalysisError(f"reference grammar: nonterminals without a finite word: {sorted(missing)}")
        self._min = best
        return best

    def _min_of(self, n, best):
        k = n[0]
        if k == "t":
            return (n[1],)
        if k == "n":
            return best.get(n[1])
        if k == "seq":
            out = ()
            for x in n[1]:
                w = self._min_of(x, best)
                if w is None:
                    return None
                out += w
            return out
        if k == "alt":
            ws = [w for w in (self._min_of(x, best) for x in n[1]) if w is not None]
            return min(ws, key=len) if ws else None
        if k in ("opt", "star"):
            return ()
        if k == "plus":
            return self._min_of(n[1], best)
        raise AnalysisError("bad node")

    # --- shortest word per first token ------------------------------------------
    def first_min(self):
        """best[N][t] = a shortest word of N whose first token is t (fixpoint)."""
        if getattr(self, "_fm", None) is not None:
            return self._fm
        mw = self.min_words()
        best = {n: {} for n in self.rules}
        changed = True

        def fm(n):
            """dict t -> shortest word of tree n starting with t"""
            k = n[0]
            if k == "t":
                return {n[1]: (n[1],)}
            if k == "n":
                return best[n[1]]
            if k == "alt":
                out = {}
                for x in n[1]:
                    for t, w in fm(x).items():
                        if t not in out or len(w) < len(out[t]):
                            out[t] = w
                return out
            if k in ("opt", "star", "plus"):
                return fm(n[1])
            if k == "seq":
                out = {}
                prefix_nullable = True
                for i, x in enumerate(n[1]):
                    if not prefix_nullable:
                        break
                    rest = ()
                    for y in n[1][i + 1:]:
                        rest += self._min_of(y, mw)
                    for t, w in fm(x).items():
                        cand = w + rest
                        if t not in out or len(cand) < len(out[t]):
                            out[t] = cand
                    prefix_nullable = len(self._min_of(x, mw)) == 0
                return out
            raise AnalysisError("bad node")
        while changed:
            changed = False
            for name, alts in self.rules.items():
                for a in alts:
                    for t, w in fm(a).items():
                        if t not in best[name] or len(w) < len(best[name][t]):
                            best[name][t] = w
                            changed = True
        self._fm = best
        return best

    # --- choice points --------------------------------------------------------
    pairwise = True

    def variants(self, n, depth=0):
        """Words obtained by taking each choice of the tree once (all other choices minimal).  Returns list of
        (label, word) where word is a tuple of terminals / ('N', nonterminal) placeholders."""
        best = self.min_words()
        k = n[0]
        if k == "t":
            return [("", (n[1],))]
        if k == "n":
            return [("", (("N", n[1]),))]
        if k == "seq":
            out = []
            mins = [self._shallow_min(x) for x in n[1]]
            # baseline: every element minimal
            out.append(("", tuple(t for w in mins for t in w)))
            for i, x in enumerate(n[1]):
                for lab, w in self.variants(x, depth + 1):
                    if w == mins[i] and not lab:
                        continue
                    word = tuple(t for j, m in enumerate(mins) for t in (w if j == i else m))
                    out.append((f"{i}{lab and ':' + lab}", word))
            # two choice points of the same production taken together (2-wise), top level of a production only
            if self.pairwise and depth == 0:
                per = [self.variants(x, depth + 1) for x in n[1]]
                for i in range(len(n[1])):
                    for j in range(i + 1, len(n[1])):
                        for labi, wi in per[i]:
                            if wi == mins[i] and not labi:
                                continue
                            for labj, wj in per[j]:
                                if wj == mins[j] and not labj:
                                    continue
                                word = tuple(t for k_, m in enumerate(mins) for t in (wi if k_ == i else wj if k_ == j else m))
                                out.append((f"{i}{labi and ':' + labi}&{j}{labj and ':' + labj}", word))
            # dedupe
            seen, res = set(), []
            for lab, w in out:
                if w not in seen:
                    seen.add(w)
                    res.append((lab, w))
            return res
        if k == "alt":
            out = []
            for i, x in enumerate(n[1]):
                for lab, w in self.variants(x, depth + 1):
                    out.append((f"|{i}{lab and ':' + lab}", w))
            return out
        if k == "opt":
            return [("-", ())] + [("?" + lab, w) for lab, w in self.variants(n[1], depth + 1)]
        if k == "star":
            inner = self.variants(n[1], depth + 1)
            out = [("-", ())] + [("*1" + lab, w) for lab, w in inner]
            base = inner[0][1]
            out.append(("*2", base + base))
            for lab, w in inner[1:]:
                out.append(("*2" + lab, base + w))
            return out
        if k == "plus":
            inner = self.variants(n[1], depth + 1)
            out = [("+1" + lab, w) for lab, w in inner]
            base = inner[0][1]
            out.append(("+2", base + base))
            for lab, w in inner[1:]:
                out.append(("+2" + lab, base + w))
                out.append(("+2'" + lab, w + base))
            return out
        raise AnalysisError("bad node")

    def deep_variants(self, name, limit=3):
        """Variants of nonterminal `name`; a variant that is a single nonterminal is replaced by that nonterminal's own
        variants (unit chains are followed `limit` levels), so that e.g. declaration_specifiers offers every type core."""
        out = []
        for ai, alt in enumerate(self.rules[name]):
            for lab, w in self.variants(alt):
                if limit > 0 and len(w) == 1 and isinstance(w[0], tuple):
                    for lab2, w2 in self.deep_variants(w[0][1], limit - 1):
                        out.append((f"{name}/{ai}/{lab}>{lab2}", w2))
                else:
                    out.append((f"{name}/{ai}/{lab}", w))
        return out

    def _shallow_min(self, n):
        """Minimal word with nonterminals kept as placeholders (so that contexts stay recognisable)."""
        k = n[0]
        if k == "t":
            return (n[1],)
        if k == "n":
            return (("N", n[1]),)
        if k == "seq":
            return tuple(t for x in n[1] for t in self._shallow_min(x))
        if k == "alt":
            best = self.min_words()
            return min((self._shallow_min(x) for x in n[1]), key=lambda w: len(self.expand_min(w)))
        if k in ("opt", "star"):
            return ()
        if k == "plus":
            return self._shallow_min(n[1])
        raise AnalysisError("bad node")

    def expand_min(self, word):
        best = self.min_words()
        out = ()
        for t in word:
            out += best[t[1]] if isinstance(t, tuple) else (t,)
        return out

    # --- embedding a nonterminal in a shortest sentential context -----------------
    def contexts(self, start="translation_unit", per_nt=1):
        """For every nonterminal a list of (prefix, suffix) terminal contexts such that prefix N suffix derives from start
        with everything else minimal; breadth-first, `per_nt` distinct contexts each."""
        ctx = {start: [((), ())]}
        dq = deque([start])
        while dq:
            name = dq.popleft()
            for (pre, suf) in list(ctx[name]):
                for alt in self.rules[name]:
                    for lab, w in self.variants(alt):
                        for i, t in enumerate(w):
                            if isinstance(t, tuple):
                                child = t[1]
                                p2 = pre + self.expand_min(w[:i])
                                s2 = self.expand_min(w[i + 1:]) + suf
                                lst = ctx.setdefault(child, [])
                                if len(lst) < per_nt and (p2, s2) not in lst:
                                    lst.append((p2, s2))
                                    dq.append(child)
        return ctx
