"""Lost writes: a forward may-analysis over the structured statements of one function.

For every local variable it tracks the stores of a computed (non-constant) value that no statement has read yet on some path.  Overwriting
the variable while such a store is pending means the computed value is lost on that path (for the code generator: text that was produced
for a field of the node never reaches the output); a store still pending at a normal exit was never read at all.

Paths are the syntactic ones (both arms of every `if`, zero or more rounds of every loop); a read anywhere in a statement - including inside
comprehensions, lambdas and nested functions - counts as a read at that statement."""
from __future__ import annotations

import ast


def _reads(node):
    return {n.id for n in ast.walk(node) if isinstance(n, ast.Name) and isinstance(n.ctx, ast.Load)}


def _const_like(e):
    """values whose loss is no loss: constants, empty displays, None"""
    if isinstance(e, ast.Constant):
        return True
    if isinstance(e, ast.Name):
        return True      # another name for a value that already has one (`prev = current`): nothing was computed, nothing can be lost
    if isinstance(e, (ast.List, ast.Tuple, ast.Set, ast.Dict)) and not ast.dump(e).count("Name("):
        return not any(isinstance(x, (ast.Call, ast.Attribute, ast.Name)) for x in ast.walk(e))
    return False


class LostWrites:
    def __init__(self, fn):
        self.fn = fn
        self.lost = []       # (overwriting statement or None for 'never read', pending store statement, variable)
        self._seen = set()
        # variables the analysis does not follow: parameters are fine to follow; names declared global / nonlocal are not local
        self.skip = set()
        for n in ast.walk(fn):
            if isinstance(n, (ast.Global, ast.Nonlocal)):
                self.skip |= set(n.names)

    def run(self):
        out = self.block(self.fn.body, {})
        if out is not None:
            self._exit(out)
        return self.lost

    # state: var -> frozenset of pending store statements
    @staticmethod
    def _merge(states):
        states = [s for s in states if s is not None]
        if not states:
            return None
        out = {}
        for s in states:
            for k, v in s.items():
                out[k] = out.get(k, frozenset()) | v
        return out

    def _read(self, st, names):
        for nme in names:
            if nme in st:
                st[nme] = frozenset()

    def _exit(self, st):
        for var, pend in st.items():
            for p in pend:
                self._report(None, p, var)

    def _report(self, by, pending, var):
        key = (id(by), id(pending), var)
        if key not in self._seen:
            self._seen.add(key)
            self.lost.append((by, pending, var))

    def _store(self, st, target, stmt, computed, reads_self):
        if not isinstance(target, ast.Name) or target.id in self.skip:
            return
        var = target.id
        if not reads_self:
            for p in st.get(var, frozenset()):
                self._report(stmt, p, var)
        st[var] = frozenset([stmt]) if computed else frozenset()

    def block(self, body, st):
        st = dict(st)
        for s in body:
            st = self.stmt(s, st)
            if st is None:
                return None
        return st

    def stmt(self, s, st):
        if isinstance(s, (ast.FunctionDef, ast.AsyncFunctionDef, ast.ClassDef)):
            self._read(st, _reads(s))
            return st
        if isinstance(s, ast.Assign):
            r = _reads(s.value)
            for t in s.targets:
                r |= {n.id for n in ast.walk(t) if isinstance(n, ast.Name) and isinstance(n.ctx, ast.Load)}
            self._read(st, r)
            for t in s.targets:
                for tt in (t.elts if isinstance(t, (ast.Tuple, ast.List)) else [t]):
                    self._store(st, tt, s, not _const_like(s.value), isinstance(tt, ast.Name) and tt.id in r)
            return st
        if isinstance(s, ast.AnnAssign):
            if s.value is None:
                return st
            r = _reads(s.value)
            self._read(st, r)
            self._store(st, s.target, s, not _const_like(s.value), isinstance(s.target, ast.Name) and s.target.id in r)
            return st
        if isinstance(s, ast.AugAssign):
            r = _reads(s.value) | ({s.target.id} if isinstance(s.target, ast.Name) else _reads(s.target))
            self._read(st, r)
            self._store(st, s.target, s, True, True)
            return st
        if isinstance(s, ast.Return):
            if s.value is not None:
                self._read(st, _reads(s.value))
            self._exit(st)
            return None
        if isinstance(s, ast.Raise):
            return None           # an exceptional exit loses everything by design
        if isinstance(s, ast.If):
            self._read(st, _reads(s.test))
            # a walrus in the test binds before either arm
            return self._merge([self.block(s.body, st), self.block(s.orelse, st)])
        if isinstance(s, (ast.For, ast.AsyncFor, ast.While)):
            cur = dict(st)
            exits, breaks = [], []
            for _ in range(3):
                e = dict(cur)
                if isinstance(s, ast.While):
                    self._read(e, _reads(s.test))
                else:
                    self._read(e, _reads(s.iter))
                    for tt in ast.walk(s.target):
                        if isinstance(tt, ast.Name):
                            e[tt.id] = frozenset()
                exits.append(dict(e))
                self._loop = getattr(self, "_loop", [])
                self._loop.append([])
                out = self.block(s.body, e)
                jumps = self._loop.pop()
                nxt = self._merge([cur, out] + [j for kind, j in jumps if kind == "continue"])
                breaks += [j for kind, j in jumps if kind == "break"]
                if nxt == cur:
                    break
                cur = nxt
            if isinstance(s, ast.While) and isinstance(s.test, ast.Constant) and s.test.value is True:
                return self._merge(breaks)      # only breaks leave a `while True`
            after = self._merge(exits + [cur])
            if s.orelse and after is not None:
                after = self.block(s.orelse, after)
            return self._merge([after] + breaks)
        if isinstance(s, (ast.Break, ast.Continue)):
            if getattr(self, "_loop", None):
                self._loop[-1].append(("break" if isinstance(s, ast.Break) else "continue", dict(st)))
            return None
        if isinstance(s, ast.Match):
            self._read(st, _reads(s.subject))
            outs = []
            exhaustive = False
            for c in s.cases:
                e = dict(st)
                for n in ast.walk(c.pattern):
                    if isinstance(n, (ast.MatchAs, ast.MatchStar)) and n.name:
                        e[n.name] = frozenset()
                    if isinstance(n, (ast.MatchValue,)):
                        self._read(e, _reads(n.value))
                if c.guard is not None:
                    self._read(e, _reads(c.guard))
                outs.append(self.block(c.body, e))
                if isinstance(c.pattern, ast.MatchAs) and c.pattern.pattern is None and c.guard is None:
                    exhaustive = True
            if not exhaustive:
                outs.append(dict(st))
            return self._merge(outs)
        if isinstance(s, (ast.With, ast.AsyncWith)):
            for it in s.items:
                self._read(st, _reads(it.context_expr))
                if it.optional_vars is not None:
                    for tt in ast.walk(it.optional_vars):
                        if isinstance(tt, ast.Name):
                            st[tt.id] = frozenset()
            return self.block(s.body, st)
        if isinstance(s, ast.Try):
            # anything read in a handler / finally may be read from any point of the body: treat those names as read up front
            later = set()
            for h in s.handlers:
                later |= _reads(h)
            for x in s.finalbody:
                later |= _reads(x)
            self._read(st, later)
            out = self.block(s.body, st)
            outs = [self.block(s.orelse, out) if (out is not None and s.orelse) else out]
            for h in s.handlers:
                outs.append(self.block(h.body, dict(st)))
            m = self._merge(outs)
            if s.finalbody and m is not None:
                m = self.block(s.finalbody, m)
            return m
        if isinstance(s, ast.Delete):
            for t in s.targets:
                if isinstance(t, ast.Name):
                    st[t.id] = frozenset()
            return st
        # expression statements, assert, pass, import ...
        self._read(st, _reads(s))
        return st
